//! C05: the LL(k) decision. Drives the real public `decidable`, `calculate_k`, `calculate_k_tuples`,
//! `calculate_lookahead_dfas`, `explain_conflicts` and the real `KTuples::k_concat` / `is_disjoint`
//! on the lookahead sets FIRST_k(production) ⊙ FOLLOW_k(non-terminal).
use crate::c06::{config_of, random_class_gram, show_ktuples, tuples_of, TermMap};
use crate::cfgenc::{nt_name, Gram};
use crate::rng::Rng;
use crate::util::*;
use parol::analysis::{
    calculate_k, calculate_k_tuples, calculate_lookahead_dfas, decidable, explain_conflicts, follow_k, FirstCache,
    FollowCache,
};
use parol::GrammarAnalysisError;

fn err_kind(e: &anyhow::Error) -> String {
    if let Some(GrammarAnalysisError::MaxKExceeded { .. }) = e.downcast_ref::<GrammarAnalysisError>() {
        return "err-maxk".into();
    }
    let s = e.to_string();
    if s.contains("isn't part of the given grammar") {
        "err-notpart".into()
    } else {
        format!("err-other:{}", s.replace(' ', "_").chars().take(50).collect::<String>())
    }
}

fn join_or_dash(v: Vec<String>, sep: &str) -> String {
    if v.is_empty() {
        "-".into()
    } else {
        v.join(sep)
    }
}

pub fn run_case(w: &[&str]) -> Option<String> {
    match w {
        ["c05-decidable", st, ps, nt, maxk] => {
            let g = Gram::parse(st, ps)?;
            let nt: usize = nt.parse().ok()?;
            let maxk: usize = maxk.parse().ok()?;
            if maxk > parol::MAX_K || g.prods.is_empty() {
                return None;
            }
            let gc = config_of(&g, maxk);
            let fc = FirstCache::new();
            let flc = FollowCache::new();
            Some(match decidable(&gc, &nt_name(nt), maxk, &fc, &flc) {
                Ok(k) => format!("ok {k}"),
                Err(e) => err_kind(&e),
            })
        }
        ["c05-calck", st, ps, maxk] => {
            let g = Gram::parse(st, ps)?;
            let maxk: usize = maxk.parse().ok()?;
            if maxk > parol::MAX_K || g.prods.is_empty() {
                return None;
            }
            let gc = config_of(&g, maxk);
            let fc = FirstCache::new();
            let flc = FollowCache::new();
            Some(match calculate_k(&gc, maxk, &fc, &flc) {
                Ok(k) => format!("ok {k}"),
                Err(e) => err_kind(&e),
            })
        }
        ["c05-ktuples", st, ps, maxk] => {
            let g = Gram::parse(st, ps)?;
            let maxk: usize = maxk.parse().ok()?;
            if maxk > parol::MAX_K || g.prods.is_empty() {
                return None;
            }
            let gc = config_of(&g, maxk);
            let tm = TermMap::new(&gc)?;
            let fc = FirstCache::new();
            let flc = FollowCache::new();
            Some(match calculate_k_tuples(&gc, maxk, &fc, &flc) {
                Ok(m) => format!(
                    "ok {}",
                    join_or_dash(m.iter().map(|(pi, s)| format!("{}={}", pi, show_ktuples(s, &tm))).collect(), "|")
                ),
                Err(e) => err_kind(&e),
            })
        }
        ["c05-dfas", st, ps, maxk] => {
            let g = Gram::parse(st, ps)?;
            let maxk: usize = maxk.parse().ok()?;
            if maxk > parol::MAX_K || g.prods.is_empty() {
                return None;
            }
            let gc = config_of(&g, maxk);
            Some(match calculate_lookahead_dfas(&gc, maxk) {
                Ok(_) => "ok".to_string(),
                Err(e) => err_kind(&e),
            })
        }
        ["c05-explain", st, ps, nt, k] => {
            let g = Gram::parse(st, ps)?;
            let nt: usize = nt.parse().ok()?;
            let k: usize = k.parse().ok()?;
            if k > parol::MAX_K || g.prods.is_empty() {
                return None;
            }
            let gc = config_of(&g, k);
            let fc = FirstCache::new();
            let flc = FollowCache::new();
            Some(match explain_conflicts(&gc, &nt_name(nt), k, &fc, &flc) {
                Ok(v) => format!("ok {}", join_or_dash(v.iter().map(|(a, _, b, _)| format!("{a}-{b}")).collect(), ",")),
                Err(e) => err_kind(&e),
            })
        }
        ["c05-lasets", st, ps, nt, k] => {
            // the sets `decidable` compares at k, built with the real k_concat, and the verdicts of
            // the real `is_disjoint` on them (representation level) next to string-level disjointness
            let g = Gram::parse(st, ps)?;
            let nt: usize = nt.parse().ok()?;
            let k: usize = k.parse().ok()?;
            if k > parol::MAX_K || g.prods.is_empty() {
                return None;
            }
            let gc = config_of(&g, k);
            let tm = TermMap::new(&gc)?;
            let fc = FirstCache::new();
            let flc = FollowCache::new();
            let name = nt_name(nt);
            let nti = gc.cfg.get_non_terminal_set().iter().position(|n| *n == name)?;
            let (_, fs) = follow_k(&gc, k, &fc, &flc);
            let follow = &fs.non_terminals[nti];
            let first = fc.get(k, &gc);
            let prods: Vec<usize> = gc.cfg.matching_productions(&name).iter().map(|(pi, _)| *pi).collect();
            let sets: Vec<(usize, parol::KTuples)> =
                prods.iter().map(|pi| (*pi, first.borrow().productions[*pi].clone().k_concat(follow, k))).collect();
            let shown = join_or_dash(sets.iter().map(|(pi, s)| format!("{}={}", pi, show_ktuples(s, &tm))).collect(), "|");
            let mut verdicts = vec![];
            let mut rep_differs = 0;
            for (i, a) in &sets {
                for (j, b) in &sets {
                    if i < j {
                        let d = a.is_disjoint(b);
                        let ta = tuples_of(a, &tm);
                        let tb = tuples_of(b, &tm);
                        let ds = ta.iter().all(|x| !tb.contains(x));
                        if d != ds {
                            rep_differs += 1;
                        }
                        verdicts.push(format!("{}-{}:{}", i, j, if d { 1 } else { 0 }));
                    }
                }
            }
            Some(format!("ok {} {} {}", shown, join_or_dash(verdicts, ","), rep_differs))
        }
        _ => None,
    }
}

pub fn fixed_grams() -> Vec<Gram> {
    let g = |s: &str| Gram::parse("0", s).unwrap();
    vec![
        g("0:t5"),
        g("0:t5;0:t6"),
        g("0:t5,t6;0:t5,t7"),
        g("0:t5,t5,t6;0:t5,t5,t7"),
        g("0:t5,t5,t5,t6;0:t5,t5,t5,t7"),
        g("0:n1,t5;1:;1:t5"),
        g("0:n1,t5,t6;1:;1:t5"),
        g("0:t5,n0;0:"),
        g("0:n1,n1;1:;1:t5"),
        g("0:t5;0:t5"),
        g("0:n1,t6;0:n2,t7;1:t5;2:t5"),
        g("0:n1,t6;0:n2,t7;1:t5,t5;2:t5,t5"),
        g("0:t5,n1,t5,t6;1:t5;1:"),
        g("0:t5,n1,t5,t5;1:t5;1:"),
        g("0:n1,n2;1:t5;1:;2:t5,t6;2:t6"),
    ]
}

/// Grammars that are strong-LL(k) for small k with good probability: the alternatives of a
/// non-terminal share a terminal prefix of length 0..2 and then continue with distinct terminals
/// (or one ε / non-terminal alternative, so that FOLLOW takes part in the decision).
pub fn random_ll_gram(rng: &mut Rng, max_nts: usize, nterms: usize) -> Gram {
    use crate::cfgenc::Sym;
    loop {
        let n = rng.range(1, max_nts);
        let mut prods: Vec<(usize, Vec<Sym>)> = vec![];
        for a in 0..n {
            let nalt = rng.range(1, nterms.min(3));
            let plen = if nalt > 1 { rng.below(3) } else { 0 };
            let prefix: Vec<Sym> = (0..plen).map(|_| Sym::T(5 + rng.below(nterms))).collect();
            let mut firsts: Vec<usize> = (0..nterms).collect();
            for j in 0..nalt {
                let mut rhs = prefix.clone();
                if j == nalt - 1 && a > 0 && rng.chance(1, 3) {
                    // ε-tail or non-terminal tail: decided through FOLLOW / the callee's FIRST
                    if a + 1 < n && rng.chance(1, 2) {
                        rhs.push(Sym::N(rng.range(a + 1, n - 1)));
                    }
                } else {
                    let t = firsts.remove(rng.below(firsts.len()));
                    rhs.push(Sym::T(5 + t));
                    let tail = rng.below(3);
                    for _ in 0..tail {
                        if rng.chance(1, 2) {
                            rhs.push(Sym::N(rng.range(0, n - 1)));
                        } else {
                            rhs.push(Sym::T(5 + rng.below(nterms)));
                        }
                    }
                }
                prods.push((a, rhs));
            }
        }
        let g = Gram { start: 0, prods };
        if crate::c06::in_class(&g) {
            return g;
        }
    }
}

pub fn generate(seed: u64, thorough: bool) -> Vec<String> {
    let mut rng = Rng::new(seed ^ 0xC05);
    let mut out = vec![];
    let mut grams = fixed_grams();
    let nfixed = grams.len();
    let n = if thorough { 3000 } else { 300 };
    for i in 0..n {
        let big_k = thorough && i % 4 == 3;
        let g = if i % 2 == 0 {
            if big_k { random_ll_gram(&mut rng, 4, 2) } else { random_ll_gram(&mut rng, 5, 3) }
        } else if big_k {
            random_class_gram(&mut rng, 4, 2, 3)
        } else {
            random_class_gram(&mut rng, 5, 3, 4)
        };
        grams.push(g);
    }
    for (i, g) in grams.iter().enumerate() {
        let big_k = thorough && i >= nfixed && (i - nfixed) % 4 == 3;
        let top = if big_k { 6 } else { 3 };
        let gs = g.show();
        let nts = g.nts();
        let ks: Vec<usize> = if i < nfixed { (0..=4).collect() } else { vec![top, rng.range(0, top)] };
        for &maxk in &ks {
            for a in &nts {
                out.push(format!("c05-decidable {gs} {a} {maxk}"));
            }
            out.push(format!("c05-calck {gs} {maxk}"));
            out.push(format!("c05-ktuples {gs} {maxk}"));
            out.push(format!("c05-dfas {gs} {maxk}"));
        }
        out.push(format!("c05-decidable {gs} 77 {top}"));
        for a in &nts {
            let k = rng.range(1, top);
            out.push(format!("c05-explain {gs} {a} {k}"));
            out.push(format!("c05-explain {gs} {a} {top}"));
            out.push(format!("c05-lasets {gs} {a} {k}"));
        }
    }
    out
}

pub fn cli(args: &[String]) {
    standard_cli(args, generate, run_case)
}
