//! C10: left factoring. Drives the real `parol::left_factor(&Cfg)` on plain grammars with names
//! (encoding of `ebnfenc.rs`), prints the resulting production list.
use crate::ebnfenc::*;
use crate::rng::Rng;
use crate::util::*;

pub fn run_case(w: &[&str]) -> Option<String> {
    match w {
        ["lf", rules] => {
            let prs = parse_prs(rules)?;
            let start = prs.first().map(|p| p.get_n_str().to_string()).unwrap_or_else(|| "S".to_string());
            let cfg = cfg_of(&start, prs);
            let out = parol::left_factor(&cfg);
            if out.st != start {
                return Some("harness-error".into());
            }
            Some(format!("ok {}", show_prs(&out.pr)))
        }
        ["find-prefix", _rules] => None,
        _ => None,
    }
}

/// Random plain grammar biased to shared prefixes, ties between equally large prefix groups,
/// several non-terminals that need factoring, and names shaped like the generated suffix names.
/// Returned in the encoded form.
pub fn random_lf_grammar(rng: &mut Rng, clashy: bool, attrs: bool) -> String {
    let nbase = rng.range(1, 3);
    let mut names: Vec<String> = (0..nbase).map(|i| format!("N{i:02}")).collect();
    if clashy {
        let suffixes = ["Suffix", "Suffix0", "Suffix1", "SuffixSuffix", "Suffix00", "Suffix18446744073709551615", "List"];
        for _ in 0..rng.range(1, 3) {
            let n = format!("{}{}", rng.pick(&names).clone(), rng.pick(&suffixes));
            if !names.contains(&n) && n.len() < 40 {
                names.push(n);
            }
        }
    }
    let nterms = rng.range(1, 4);
    let sym = |rng: &mut Rng| -> String {
        if rng.chance(3, 5) {
            format!("{}", 5 + rng.below(nterms))
        } else {
            let n = rng.pick(&names).clone();
            if attrs && rng.chance(1, 8) { format!("{n}^") } else { n }
        }
    };
    let mut rules: Vec<String> = vec![];
    for n in &names {
        if rng.chance(1, 8) && !rules.is_empty() {
            continue; // used but undefined
        }
        // stems: shared prefixes
        let nstems = rng.range(1, 3);
        let stems: Vec<Vec<String>> = (0..nstems).map(|_| (0..rng.range(1, 3)).map(|_| sym(rng)).collect()).collect();
        let nalts = rng.range(1, 5);
        let mut alts: Vec<String> = vec![];
        for _ in 0..nalts {
            let mut rhs: Vec<String> = vec![];
            if rng.chance(4, 5) {
                let s = rng.pick(&stems);
                let k = rng.range(0, s.len());
                rhs.extend(s[..k].iter().cloned());
            }
            for _ in 0..rng.below(3) {
                rhs.push(sym(rng));
            }
            let attr = if attrs && rng.chance(1, 10) { format!("@{}", rng.range(1, 4)) } else { String::new() };
            alts.push(format!("{n}:{}{attr}", rhs.join(",")));
        }
        rules.extend(alts);
    }
    if rng.chance(1, 3) {
        // interleave the rules of different non-terminals (apply_rule_transformation collects them)
        for _ in 0..rules.len() {
            let i = rng.below(rules.len());
            let j = rng.below(rules.len());
            if i != 0 && j != 0 {
                rules.swap(i, j);
            }
        }
    }
    rules.join(";")
}

pub fn generate(seed: u64, thorough: bool) -> Vec<String> {
    let mut rng = Rng::new(seed ^ 0xC10);
    let mut out = vec![];
    let n = if thorough { 4000 } else { 600 };
    for i in 0..n {
        let g = random_lf_grammar(&mut rng, i % 3 == 0, i % 5 == 0);
        if g.len() > 500 {
            continue;
        }
        out.push(format!("lf {g}"));
    }
    out
}

pub fn cli(args: &[String]) {
    standard_cli(args, generate, run_case)
}
