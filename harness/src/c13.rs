//! C13: the scanner tokenizes by the documented rules; the delivered tokens do not depend on the
//! parser's lookahead size or on its access pattern.
//!
//! A case carries a PAR grammar text. The implementation side runs the REAL parol front end on it
//! (`obtain_grammar_config_from_string`), takes the terminal mappings of every scanner state from the
//! REAL `ScannerConfig::generate_build_information`, builds the scnr2 scanner at run time with
//! `scnr2_generate` (as cs_lexer_generator.rs does) and drives the REAL `TokenStream` with lookahead
//! `k`, with or without peeking at all lookahead positions before every consume. The model side gets
//! the same scanner description with the regexes lowered to `Re` (`relower`); the implementation
//! re-derives that description and answers `stale-desc` if it differs from the one in the request.
use crate::dynscan::{self, ModeDesc, SwitchOp, TermDesc};
use crate::relower::{self, cps, from_cps};
use crate::rng::Rng;
use crate::util::*;
use parol::parser::parol_grammar::ScannerStateSwitch;
use parol::{GrammarConfig, generators::generate_terminal_names};
use std::cell::RefCell;
use std::collections::HashMap;
use std::rc::Rc;

pub struct Described {
    pub modes: Vec<ModeDesc>,
    /// protocol word for the model (`None` = some regex could not be lowered: reason)
    pub word: Result<String, String>,
    /// per mode: flags, and per user terminal its states; number of terminal names
    pub cfg: Vec<(bool, bool, bool, bool, bool)>,
    pub term_states: Vec<Vec<usize>>,
    pub nnames: usize,
}

fn describe_gc(gc: &GrammarConfig) -> Result<Described, String> {
    let names = generate_terminal_names(gc);
    let mode_idx: HashMap<String, usize> =
        gc.scanner_configurations.iter().enumerate().map(|(i, sc)| (sc.scanner_name.clone(), i)).collect();
    let mut modes = vec![];
    let mut cfg = vec![];
    for sc in &gc.scanner_configurations {
        let (mappings, transitions) = sc.generate_build_information(gc, &names).map_err(|_| "build-info".to_string())?;
        let terms = mappings
            .into_iter()
            .map(|(rx, ti, la, _)| TermDesc { regex: rx, tok: ti as usize, lookahead: la })
            .collect();
        let mut trans = vec![];
        for (ti, sw) in transitions {
            let op = match sw {
                ScannerStateSwitch::Switch(m, _) => SwitchOp::Enter(*mode_idx.get(&m).ok_or("unknown-mode")?),
                ScannerStateSwitch::SwitchPush(m, _) => SwitchOp::Push(*mode_idx.get(&m).ok_or("unknown-mode")?),
                ScannerStateSwitch::SwitchPop(_) => SwitchOp::Pop,
            };
            trans.push((ti as usize, op));
        }
        modes.push(ModeDesc { name: sc.scanner_name.clone(), terms, trans, skips: sc.skip_tokens.clone() });
        cfg.push((sc.auto_newline, sc.auto_ws, !sc.line_comments.is_empty(), !sc.block_comments.is_empty(), sc.allow_unmatched));
    }
    let term_states: Vec<Vec<usize>> = gc.cfg.get_ordered_terminals().iter().map(|t| t.3.clone()).collect();
    let word = desc_word(&modes);
    Ok(Described { modes, word, cfg, term_states, nnames: names.len() })
}

/// Protocol encoding of a scanner description (see Model/Regex.lean).
pub fn desc_word(modes: &[ModeDesc]) -> Result<String, String> {
    let mut ms = vec![];
    for m in modes {
        let mut ts = vec![];
        for t in &m.terms {
            let r = relower::lower_str(&t.regex)?;
            let mut s = format!("{}~{}", t.tok, r.enc());
            if let Some((pos, l)) = &t.lookahead {
                let lr = relower::lower_str(l)?;
                s.push_str(&format!("~{}{}", if *pos { "+" } else { "!" }, lr.enc()));
            }
            ts.push(s);
        }
        let tr: Vec<String> = m
            .trans
            .iter()
            .map(|(t, op)| match op {
                SwitchOp::Enter(m) => format!("{t}>e{m}"),
                SwitchOp::Push(m) => format!("{t}>p{m}"),
                SwitchOp::Pop => format!("{t}>o"),
            })
            .collect();
        let sk: Vec<String> = m.skips.iter().map(|s| s.to_string()).collect();
        ms.push(format!("{}/{}/{}", ts.join(";"), tr.join(";"), sk.join(";")));
    }
    Ok(ms.join("_"))
}

thread_local! {
    static PARS: RefCell<HashMap<String, Result<Rc<Described>, String>>> = RefCell::new(HashMap::new());
}

pub fn describe(par: &str) -> Result<Rc<Described>, String> {
    PARS.with(|c| {
        let mut c = c.borrow_mut();
        if let Some(d) = c.get(par) {
            return d.clone();
        }
        let d = match parol::obtain_grammar_config_from_string(par, false) {
            Ok(gc) => describe_gc(&gc).map(Rc::new),
            Err(_) => Err("par-error".to_string()),
        };
        c.insert(par.to_string(), d.clone());
        d
    })
}

fn parse_bool(s: &str) -> Option<bool> {
    match s {
        "1" => Some(true),
        "0" => Some(false),
        _ => None,
    }
}

pub fn run_case(w: &[&str]) -> Option<String> {
    match w {
        ["scan", k, peek, par, desc, text] => {
            let k: usize = k.parse().ok()?;
            let peek = parse_bool(peek)?;
            let par = from_cps(par)?;
            let text = from_cps(text)?;
            let d = match describe(&par) {
                Ok(d) => d,
                Err(e) => return Some(e),
            };
            match &d.word {
                Ok(wd) if wd == desc => {}
                _ => return Some("stale-desc".into()),
            }
            let b = match dynscan::build_cached(&d.modes) {
                Ok(b) => b,
                Err(e) => return Some(e),
            };
            let text: &'static str = Box::leak(text.into_boxed_str());
            Some(match dynscan::stream_tokens(&b, text, k, peek) {
                Ok(v) => dynscan::show_tks(&v),
                Err(e) => format!("stream-error:{e}"),
            })
        }
        ["order", par, mi, ..] => {
            let par = from_cps(par)?;
            let mi: usize = mi.parse().ok()?;
            let d = match describe(&par) {
                Ok(d) => d,
                Err(e) => return Some(e),
            };
            let m = d.modes.get(mi)?;
            Some(show_nats(&m.terms.iter().map(|t| t.tok).collect::<Vec<_>>()))
        }
        _ => None,
    }
}

// ------------------------------------------------------------------------------------------
// generators

struct TermGen {
    name: String,
    /// literal as written in the grammar, including quotes
    lit: String,
    /// sample texts that the terminal matches (for rendering sentences)
    samples: Vec<String>,
    states: Vec<usize>,
    lookahead: Option<String>,
}

const REGEXES: &[(&str, &[&str])] = &[
    ("[a-c]+", &["a", "abc", "cab"]),
    ("a*b", &["b", "ab", "aaab"]),
    ("(a|b)c", &["ac", "bc"]),
    ("x?y", &["y", "xy"]),
    ("[0-9]+", &["0", "42"]),
    ("[0-9]+\\.[0-9]*", &["1.", "3.14"]),
    ("[^a\\s]+", &["b", "xyz", "="]),
    ("\\d+", &["7", "٣"]),
    ("\\w+", &["w1", "é_a"]),
    (".", &["?", "a"]),
    ("a{2,3}", &["aa", "aaa"]),
    ("(ab){1,2}c?", &["ab", "ababc"]),
    ("é+", &["é", "éé"]),
    ("[α-ω]+", &["αβγ"]),
    ("[a-z]+", &["if", "abc", "z"]),
    ("[a-zA-Z_][a-zA-Z0-9_]*", &["Id_1", "x"]),
    ("=+", &["=", "=="]),
    ("<=?", &["<", "<="]),
    ("a|ab|abc", &["a", "ab", "abc"]),
    ("(a|ab)(c|bcd)?", &["abcd", "ac", "a"]),
    ("b*", &["b", "bb"]),
    ("(a*)(b?)", &["aab", "b"]),
    ("[\\s--\\r\\n]+x", &[" x"]),
    ("\\u{1F600}+", &["😀"]),
    ("[^\\u{0}-\\u{7f}]+", &["日本", "é"]),
    ("\\r\\n|\\n", &["\n", "\r\n"]),
    ("[ \\t]+", &[" ", "\t "]),
    ("\\$[a-z]*", &["$", "$ab"]),
    ("\\(|\\)", &["(", ")"]),
    ("-?[0-9]+", &["-1", "5"]),
];

const RAWS: &[&str] = &["if", "a", "ab", "abc", "==", "=", "<", "+", "*", "(", ")", "{", "}", "a.b", "é", "->", "-", ";", "[", "]", "^", "$", "|", "b+", "x?"];

fn gen_par(rng: &mut Rng) -> (String, Vec<TermGen>, Vec<String>) {
    let nmodes = 1 + [0, 0, 1, 1, 2][rng.below(5)];
    let mode_names: Vec<String> = (0..nmodes).map(|i| if i == 0 { "INITIAL".to_string() } else { format!("M{i}") }).collect();
    let nterms = rng.range(2, 7);
    let mut terms: Vec<TermGen> = vec![];
    for i in 0..nterms {
        let mut states: Vec<usize> = (0..nmodes).filter(|_| rng.chance(1, 2)).collect();
        if states.is_empty() {
            states.push(rng.below(nmodes));
        }
        let (lit, samples): (String, Vec<String>) = match rng.below(3) {
            0 => {
                let r = *rng.pick(RAWS);
                (format!("'{r}'"), vec![r.to_string()])
            }
            1 => {
                let (r, s) = *rng.pick(REGEXES);
                (format!("/{}/", r), s.iter().map(|x| x.to_string()).collect())
            }
            _ => {
                let (r, s) = *rng.pick(REGEXES);
                (format!("\"{}\"", r), s.iter().map(|x| x.to_string()).collect())
            }
        };
        let lookahead = if rng.chance(1, 6) {
            let op = if rng.chance(1, 2) { "?=" } else { "?!" };
            let la = match rng.below(3) {
                0 => format!("'{}'", rng.pick(RAWS)),
                1 => format!("/{}/", rng.pick(REGEXES).0),
                _ => "/[a-z]/".to_string(),
            };
            Some(format!("{op} {la}"))
        } else {
            None
        };
        terms.push(TermGen { name: format!("T{i}"), lit, samples, states, lookahead });
    }
    // every non-initial mode needs a terminal
    for m in 1..nmodes {
        if !terms.iter().any(|t| t.states.contains(&m)) {
            let j = rng.below(terms.len());
            terms[j].states.push(m);
            terms[j].states.sort();
        }
    }
    let line_comments = ["//", "#", "--"];
    let block_comments = [("(*", "*)"), ("{-", "-}"), ("{{", "}}"), ("#", "#"), ("/*", "*/"), ("<!--", "-->")];
    let mut comment_samples: Vec<String> = vec![];
    let mut directives = |rng: &mut Rng, me: usize, top: bool| -> String {
        let ind = if top { "" } else { "    " };
        let mut s = String::new();
        if rng.chance(1, 3) {
            let c = *rng.pick(&line_comments);
            s.push_str(&format!("{ind}%line_comment '{c}'\n"));
            comment_samples.push(format!("{c} x\n"));
            comment_samples.push(format!("{c}a\r"));
        }
        if rng.chance(1, 3) {
            let (a, b) = *rng.pick(&block_comments);
            s.push_str(&format!("{ind}%block_comment '{a}' '{b}'\n"));
            comment_samples.push(format!("{a} c {b}"));
            comment_samples.push(format!("{a}{b}"));
            comment_samples.push(a.to_string());
        }
        if rng.chance(1, 4) {
            s.push_str(&format!("{ind}%auto_newline_off\n"));
        }
        if rng.chance(1, 4) {
            s.push_str(&format!("{ind}%auto_ws_off\n"));
        }
        if rng.chance(1, 3) {
            s.push_str(&format!("{ind}%allow_unmatched\n"));
        }
        let mine: Vec<&TermGen> = terms.iter().filter(|t| t.states.contains(&me)).collect();
        if !mine.is_empty() && rng.chance(1, 4) {
            s.push_str(&format!("{ind}%skip {}\n", rng.pick(&mine).name));
        }
        if nmodes > 1 && !mine.is_empty() {
            let mut used: Vec<String> = vec![];
            for _ in 0..rng.range(0, 2) {
                let t = rng.pick(&mine).name.clone();
                if used.contains(&t) {
                    continue;
                }
                used.push(t.clone());
                let target = &mode_names[rng.below(nmodes)];
                match rng.below(3) {
                    0 => s.push_str(&format!("{ind}%on {t} %enter {target}\n")),
                    1 => s.push_str(&format!("{ind}%on {t} %push {target}\n")),
                    _ => s.push_str(&format!("{ind}%on {t} %pop\n")),
                }
            }
        }
        s
    };
    let mut par = String::from("%start S\n");
    par.push_str(&directives(rng, 0, true));
    for m in 1..nmodes {
        par.push_str(&format!("%scanner {} {{\n", mode_names[m]));
        par.push_str(&directives(rng, m, false));
        par.push_str("}\n");
    }
    par.push_str("%%\nS: { ");
    par.push_str(&terms.iter().map(|t| t.name.clone()).collect::<Vec<_>>().join(" | "));
    par.push_str(" };\n");
    for t in &terms {
        let st = if t.states == vec![0] && rng.chance(1, 2) {
            String::new()
        } else {
            format!("<{}>", t.states.iter().map(|s| mode_names[*s].clone()).collect::<Vec<_>>().join(", "))
        };
        let la = t.lookahead.as_ref().map(|l| format!(" {l}")).unwrap_or_default();
        par.push_str(&format!("{}: {}{}{};\n", t.name, st, t.lit, la));
    }
    (par, terms, comment_samples)
}

fn gen_text(rng: &mut Rng, terms: &[TermGen], comments: &[String], allow_max: bool) -> String {
    let mut s = String::new();
    let n = rng.range(0, 12);
    let ws = [" ", "  ", "\t", "\n", "\r\n", "\r", " \n ", "\u{a0}", "\u{2028}", "\u{b}"];
    let junk = ["?", "@", "a", "b", "c", "x", "=", "é", "0", "日", "~", "\u{10FFFE}", ".", "_"];
    for _ in 0..n {
        match rng.below(10) {
            0..=4 => {
                let t = rng.pick(terms);
                s.push_str(rng.pick(&t.samples[..]).as_str());
            }
            5 | 6 => s.push_str(*rng.pick(&ws[..])),
            7 => {
                if !comments.is_empty() {
                    s.push_str(rng.pick(comments).as_str());
                } else {
                    s.push_str(*rng.pick(&ws[..]));
                }
            }
            _ => s.push_str(*rng.pick(&junk[..])),
        }
        if rng.chance(1, 2) {
            s.push_str(*rng.pick(&ws[..]));
        }
    }
    if allow_max && rng.chance(1, 2) {
        let pos = if s.is_empty() { 0 } else { rng.below(s.chars().count() + 1) };
        let mut t: Vec<char> = s.chars().collect();
        t.insert(pos, '\u{10FFFF}');
        s = t.into_iter().collect();
    }
    s
}

/// Finding F25 (scnr2: an empty FIRST alternative is dropped): one dedicated grammar.
const EMPTY_ALT_PAR: &str = "%start S\n%%\nS: { A | B };\nA: /x(|a)y/;\nB: /[a-z]+/;\n";

pub fn generate(seed: u64, thorough: bool) -> Vec<String> {
    let mut rng = Rng::new(seed ^ 0xC13);
    let mut out = vec![];
    if let Ok(d) = describe(EMPTY_ALT_PAR) {
        if let Ok(word) = &d.word {
            for t in ["xy", "xay", "xy xay q"] {
                out.push(format!("scan 1 0 {} {} {}", cps(EMPTY_ALT_PAR), word, cps(t)));
            }
        }
    }
    let ngram = if thorough { 2500 } else { 150 };
    let ntext = if thorough { 40 } else { 14 };
    for gi in 0..ngram {
        let (par, terms, comments) = gen_par(&mut rng);
        let Ok(d) = describe(&par) else {
            // rejected by parol: no scanner to test (both sides answer `bad-op`; counted by the orchestrator)
            out.push("note:grammar-rejected-by-parol".to_string());
            continue;
        };
        let word = match &d.word {
            Ok(w) => w.clone(),
            Err(e) => {
                out.push(format!("skipped:unsupported-regex:{e}"));
                continue;
            }
        };
        let parw = cps(&par);
        for (mi, c) in d.cfg.iter().enumerate() {
            let ts: String = if d.term_states.is_empty() {
                "-".into()
            } else {
                d.term_states.iter().map(|v| v.iter().map(|x| x.to_string()).collect::<Vec<_>>().join(".")).collect::<Vec<_>>().join(";")
            };
            out.push(format!(
                "order {} {} {} {} {} {} {} {} {}",
                parw, mi, c.0 as u8, c.1 as u8, c.2 as u8, c.3 as u8, c.4 as u8, ts, d.nnames
            ));
        }
        for ti in 0..ntext {
            // U+10FFFF (finding F21) only in a dedicated tenth of the grammars' last text
            let allow_max = gi % 10 == 0 && ti == ntext - 1;
            let text = gen_text(&mut rng, &terms, &comments, allow_max);
            let k = 1 + (ti % 4);
            let peek = (ti / 4) % 2;
            out.push(format!("scan {} {} {} {} {}", k, peek, parw, word, cps(&text)));
            if ti % 5 == 0 {
                // the same text with another k and schedule
                out.push(format!("scan {} {} {} {} {}", 1 + ((k + 1) % 4), 1 - peek, parw, word, cps(&text)));
            }
        }
    }
    out
}

/// `pv c13 mkcase <k> <peek> <par-file> <text>` prints the request line for a hand-written grammar
/// (for corpus files and experiments).
pub fn cli(args: &[String]) {
    if args.first().map(|s| s.as_str()) == Some("mkcase") && args.len() == 5 {
        let par = std::fs::read_to_string(&args[3]).expect("grammar file");
        match describe(&par) {
            Ok(d) => match &d.word {
                Ok(w) => println!("scan {} {} {} {} {}", args[1], args[2], cps(&par), w, cps(&args[4])),
                Err(e) => println!("skipped:unsupported-regex:{e}"),
            },
            Err(e) => println!("{e}"),
        }
        return;
    }
    standard_cli(args, generate, run_case)
}
