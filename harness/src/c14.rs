//! C14 token-stream clause: the REAL `TokenStream` on texts with non-ASCII characters, CR / LF / CRLF
//! mixes, comments and (with `%allow_unmatched`) unmatched stretches; every delivered token is
//! reported with offsets and line/column for the Lean statement `tokensContiguous`.
//! Case: `toks14 <parflags> <k> <texthex>`; reply: `<type:start:end:line:col,…>` (EOI excluded; type 65534 = gap token).
use crate::cfgenc::Gram;
use crate::llrun::{cached_build, hex, parse_par_flags, par_flags, unhex};
use crate::parsegen::*;
use crate::rng::Rng;
use crate::util::*;

fn fixed_gram() -> Gram {
    // S: "a" S | "b" ;   — the grammar is irrelevant for the token stream, it only fixes the terminals
    Gram::parse("0", "0:t5,n0;0:t6").unwrap()
}

pub fn run_case(w: &[&str]) -> Option<String> {
    match w {
        ["toks14", flags, k, text] => {
            let po = parse_par_flags(flags)?;
            let k: usize = k.parse().ok()?;
            let text = unhex(text)?;
            let par = par_text(&fixed_gram(), &po);
            let b = cached_build(&par, 2)?;
            let toks = b.tokens(&text, k).ok()?;
            let v: Vec<String> = toks.iter().map(|(t, _)| format!("{}:{}:{}:{}:{}", t.ty, t.start, t.end, t.line, t.col)).collect();
            Some(if v.is_empty() { "-".into() } else { v.join(",") })
        }
        _ => None,
    }
}

pub fn generate(seed: u64, thorough: bool) -> Vec<String> {
    let mut rng = Rng::new(seed ^ 0xC14);
    let mut out = vec![];
    let pieces = ["a", "b", " ", "  ", "\t", "\n", "\r\n", "\r", "// c\n", "// ü\r\n", "/* x */", "/* ü\n y */", "/**/", "z", "Ü", "€", "😀", "?", "a", "b"];
    let n = if thorough { 6000 } else { 800 };
    for i in 0..n {
        let po = ParOpts {
            lalr: i % 5 == 4,
            line_comment: i % 3 != 0,
            block_comment: i % 3 != 1,
            allow_unmatched: i % 2 == 0,
            auto_newline_off: i % 7 == 3,
            auto_ws_off: i % 11 == 5,
            skip_x: false,
        };
        let len = rng.range(0, 12);
        let mut text = String::new();
        for _ in 0..len {
            text.push_str(pieces[rng.below(pieces.len())]);
        }
        // k = 0 is what a grammar without any decision passes to TokenStream::new (finding F14)
        let k = rng.range(0, 3);
        out.push(format!("toks14 {} {} {}", par_flags(&po), k, hex(&text)));
    }
    out
}

pub fn cli(args: &[String]) {
    standard_cli(args, generate, run_case)
}
