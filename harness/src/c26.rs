//! C26: "parol never panics on any grammar text".
//!
//! Two independent parts live here.
//!
//! **(1) Regenerated panic-site census (tie of the PROOF part).**  `pv c26 sites` scans the current
//! sources of the *modelled* files of `crates/parol/src` for panic-capable constructs
//! (`panic!`, `unreachable!`/`unimplemented!`/`todo!`, `.unwrap()`, `.expect(`, `assert*!`,
//! `debug_assert*!`, indexing/slicing `x[..]`, the arithmetic operators `-` `/` `%` `<<` `>>` and
//! their assigning forms) outside `#[cfg(test)]` code and prints `file:line:kind:function`.
//! The protocol case `sites <file>` answers the per-(function, kind) counts of one file; the Lean
//! handler `sites` (`Panic.sitesHandler`) answers the same request from the table `ParolModel.Panic.panicSites`
//! (`lean/ParolModel/Model/PanicSites.lean`).  Both replies must be byte-identical: a new, moved
//! or removed panic site in a modelled file breaks the tie.
//!
//! **(2) EXPLORATION (not a proof) of everything that is not modelled** — the PAR front end and its
//! semantic actions, `GrammarConfig::try_from`, type deduction, symbol table, source rendering and
//! the external crate lalry: `x <gt> <k> <lang> <text>` runs the REAL generation pipeline
//! (`parol::build::GrammarGenerator::{parse, expand, post_process, write_output}`, the same four
//! steps `Builder::generate_parser` runs, with all output files discarded) stage by stage under
//! `catch_unwind`; a panic hook records the panic's `Location`.
//! Reply: `ok` | `err <stage>` | `panic <stage> <file:line> <first words of the panic message>`.
//!   gt   = `as` (text as is) | `ll` | `lr` (the `%grammar_type` directive is removed / replaced)
//!   k    = maximum lookahead (above MAX_K = 10 the Builder answers with an error: `err config`)
//!   lang = `rs` | `cs`
//!   text = bytes, `[A-Za-z0-9_]` literal, every other byte `%HH`, the empty text `%.`; bytes that
//!          are not UTF-8 are rendered lossily (U+FFFD) before they are handed to parol; the
//!          variant `xraw` hands the bytes over unchanged (parol reads the file itself).
//! `xapi <k> <text>` calls the public library functions directly (no Builder, no check of k).
//! `pv c26 xgen <seed> <tier>` prints the exploration cases, `pv c26 xrun` answers them,
//! `pv c26 shrink` minimises panicking cases (delta debugging on lines, tokens, characters).
use crate::rng::Rng;
use crate::util::*;
use std::cell::RefCell;
use std::collections::BTreeMap;
use std::io::{BufRead, Write};
use std::path::{Path, PathBuf};

// ------------------------------------------------------------------------------------------------
// repository

/// The repository the harness was built against: `[package.metadata.verif] repo` of the generated
/// Cargo.toml (written by checks/common.py), overridable with PAROL_REPO.
pub fn repo_path() -> PathBuf {
    if let Ok(p) = std::env::var("PAROL_REPO") {
        return PathBuf::from(p);
    }
    let manifest = concat!(env!("CARGO_MANIFEST_DIR"), "/Cargo.toml");
    if let Ok(s) = std::fs::read_to_string(manifest) {
        let mut in_section = false;
        for line in s.lines() {
            let l = line.trim();
            if l.starts_with('[') {
                in_section = l == "[package.metadata.verif]";
                continue;
            }
            if in_section && let Some(rest) = l.strip_prefix("repo") {
                if let Some(v) = rest.trim_start().strip_prefix('=') {
                    return PathBuf::from(v.trim().trim_matches('"'));
                }
            }
        }
    }
    PathBuf::from("/repo")
}

// ------------------------------------------------------------------------------------------------
// (1) panic-site census

/// The modelled files (relative to crates/parol/src).
pub const MODELLED: &[&str] = &[
    "transformation/canonicalization.rs",
    "transformation/left_factoring.rs",
    "transformation/lr_augmentation.rs",
    "grammar/cfg.rs",
    "analysis/productivity.rs",
    "analysis/reachability.rs",
    "analysis/left_recursion.rs",
    "analysis/first.rs",
    "analysis/follow.rs",
    "analysis/k_decision.rs",
    "analysis/k_tuple.rs",
    "analysis/k_tuples.rs",
    "analysis/compiled_terminal.rs",
    "analysis/lookahead_dfa.rs",
    "analysis/compiled_la_dfa.rs",
    "utils/mod.rs",
];

#[derive(Clone, Debug)]
pub struct Site {
    pub file: String,
    pub line: usize,
    pub kind: &'static str,
    pub func: String,
}

/// Removes string/char literal contents and `//` comments from one line. `in_block` carries an open
/// `/* */` comment, `in_str` an open (multi-line) string literal.
fn strip_line(line: &str, in_block: &mut bool, in_str: &mut bool) -> String {
    let b: Vec<char> = line.chars().collect();
    let mut out = String::new();
    let mut i = 0;
    while i < b.len() {
        let c = b[i];
        if *in_block {
            if c == '*' && i + 1 < b.len() && b[i + 1] == '/' {
                *in_block = false;
                i += 2;
            } else {
                i += 1;
            }
            continue;
        }
        if *in_str {
            if c == '\\' {
                i += 2;
                continue;
            }
            if c == '"' {
                *in_str = false;
                out.push('"');
            }
            i += 1;
            continue;
        }
        if c == '"' {
            *in_str = true;
            out.push('"');
            i += 1;
            continue;
        }
        if c == '\'' {
            // char literal 'x' / '\x' / '\u{..}' (a lifetime has no closing quote nearby)
            if i + 2 < b.len() && b[i + 1] != '\\' && b[i + 2] == '\'' {
                out.push_str("' '");
                i += 3;
                continue;
            }
            if i + 1 < b.len() && b[i + 1] == '\\' {
                if let Some(j) = (i + 2..b.len().min(i + 12)).find(|&j| b[j] == '\'' && j > i + 2) {
                    out.push_str("' '");
                    i = j + 1;
                    continue;
                }
            }
        }
        if c == '/' && i + 1 < b.len() && b[i + 1] == '/' {
            break;
        }
        if c == '/' && i + 1 < b.len() && b[i + 1] == '*' {
            *in_block = true;
            i += 2;
            continue;
        }
        out.push(c);
        i += 1;
    }
    out
}

fn is_ident(c: char) -> bool {
    c.is_ascii_alphanumeric() || c == '_'
}

/// occurrences of `name!` followed (after optional spaces) by `(`, with a word boundary in front
fn count_macro(s: &[char], name: &str) -> usize {
    let n: Vec<char> = name.chars().collect();
    let mut cnt = 0;
    let mut i = 0;
    while i + n.len() < s.len() {
        if s[i..i + n.len()] == n[..] && s[i + n.len()] == '!' && (i == 0 || !is_ident(s[i - 1])) {
            let mut j = i + n.len() + 1;
            while j < s.len() && s[j] == ' ' {
                j += 1;
            }
            if j < s.len() && s[j] == '(' {
                cnt += 1;
            }
            i += n.len();
        } else {
            i += 1;
        }
    }
    cnt
}

fn count_sub(s: &str, pat: &str) -> usize {
    s.matches(pat).count()
}

/// kinds found on one (stripped) line, with multiplicity
fn line_kinds(s: &str) -> Vec<&'static str> {
    let cs: Vec<char> = s.chars().collect();
    let mut k = vec![];
    for _ in 0..count_macro(&cs, "panic") {
        k.push("panic!");
    }
    for m in ["unreachable", "unimplemented", "todo"] {
        for _ in 0..count_macro(&cs, m) {
            k.push("unreachable!");
        }
    }
    for _ in 0..count_sub(s, ".unwrap()") {
        k.push("unwrap");
    }
    for _ in 0..count_sub(s, ".expect(") {
        k.push("expect");
    }
    for m in ["debug_assert", "debug_assert_eq", "debug_assert_ne"] {
        for _ in 0..count_macro(&cs, m) {
            k.push("debug_assert");
        }
    }
    for m in ["assert", "assert_eq", "assert_ne"] {
        for _ in 0..count_macro(&cs, m) {
            k.push("assert");
        }
    }
    // indexing / slicing: `[` directly after an identifier character, `)` or `]`
    for i in 1..cs.len() {
        if cs[i] == '[' && (is_ident(cs[i - 1]) || cs[i - 1] == ')' || cs[i - 1] == ']') {
            k.push("index");
        }
    }
    // arithmetic that can panic (overflow checks on: underflow; always: division by zero, shift
    // amount ≥ width): binary operators written with surrounding spaces (rustfmt)
    const OPS: [&str; 10] = ["<<=", ">>=", "-=", "/=", "%=", "<<", ">>", "-", "/", "%"];
    for i in 1..cs.len() {
        if cs[i] != ' ' || !(is_ident(cs[i - 1]) || cs[i - 1] == ')' || cs[i - 1] == ']') {
            continue;
        }
        for op in OPS {
            let o: Vec<char> = op.chars().collect();
            let e = i + 1 + o.len();
            if e + 1 < cs.len()
                && cs[i + 1..e] == o[..]
                && cs[e] == ' '
                && (is_ident(cs[e + 1]) || cs[e + 1] == '(' || cs[e + 1] == '!')
            {
                k.push("arithmetic");
                break;
            }
        }
    }
    k
}

/// `impl<…> Trait for Type<…> {` / `impl Type {` → `Type`
fn impl_type(line: &str) -> Option<String> {
    let l = line.trim_start();
    let rest = l.strip_prefix("impl")?;
    if !(rest.starts_with(' ') || rest.starts_with('<')) {
        return None;
    }
    // drop generic parameter lists
    let mut depth = 0i32;
    let mut flat = String::new();
    for c in rest.chars() {
        match c {
            '<' => depth += 1,
            '>' => depth -= 1,
            _ if depth == 0 => flat.push(c),
            _ => {}
        }
    }
    let flat = flat.replace('{', " ");
    let part = match flat.find(" for ") {
        Some(p) => flat[p + 5..].to_string(),
        None => flat,
    };
    let w = part.split_whitespace().next()?.trim_start_matches('&');
    let name = w.rsplit("::").next()?.to_string();
    if name.is_empty() { None } else { Some(name) }
}

/// `fn name` on the line (after visibility / qualifiers), with its indentation
fn fn_decl(line: &str) -> Option<(usize, String)> {
    let indent = line.len() - line.trim_start().len();
    let mut l = line.trim_start();
    loop {
        let mut changed = false;
        for q in ["pub(crate) ", "pub(super) ", "pub ", "const ", "async ", "unsafe ", "extern \"C\" "] {
            if let Some(r) = l.strip_prefix(q) {
                l = r;
                changed = true;
            }
        }
        if !changed {
            break;
        }
    }
    let r = l.strip_prefix("fn ")?;
    let name: String = r.chars().take_while(|c| is_ident(*c)).collect();
    if name.is_empty() { None } else { Some((indent, name)) }
}

pub fn scan_file(repo: &Path, rel: &str) -> Option<Vec<Site>> {
    let p = repo.join("crates/parol/src").join(rel);
    let text = std::fs::read_to_string(p).ok()?;
    let mut sites = vec![];
    let (mut in_block, mut in_str) = (false, false);
    let mut cur_impl: Option<(usize, String)> = None;
    let mut fns: Vec<(usize, String)> = vec![];
    for (ln, line) in text.lines().enumerate() {
        let t = line.trim_start();
        if !in_block && !in_str && t.starts_with("#[cfg(test)]") {
            break; // unit tests follow
        }
        let indent = line.len() - t.len();
        if !in_block && !in_str {
            if let Some(ty) = impl_type(line) {
                cur_impl = Some((indent, ty));
            }
            if let Some((ind, name)) = fn_decl(line) {
                while fns.last().is_some_and(|f| f.0 >= ind) {
                    fns.pop();
                }
                fns.push((ind, name));
            }
        }
        let s = strip_line(line, &mut in_block, &mut in_str);
        let func = match (&cur_impl, fns.first()) {
            (Some((_, ty)), Some((_, f))) => format!("{ty}::{f}"),
            (None, Some((_, f))) => f.clone(),
            _ => "top-level".to_string(),
        };
        for k in line_kinds(&s) {
            sites.push(Site { file: rel.to_string(), line: ln + 1, kind: k, func: func.clone() });
        }
        // a closing brace at the indentation of the innermost function / impl ends it
        if !in_block && !in_str && t.starts_with('}') {
            while fns.last().is_some_and(|f| f.0 >= indent) {
                fns.pop();
            }
            if cur_impl.as_ref().is_some_and(|i| i.0 >= indent) && fns.is_empty() {
                cur_impl = None;
            }
        }
    }
    Some(sites)
}

/// reply of the protocol case `sites <file>`: `<function>/<kind>=<count>` sorted, joined by `,`
pub fn sites_reply(repo: &Path, rel: &str) -> String {
    match scan_file(repo, rel) {
        None => "no-such-file".to_string(),
        Some(sites) => {
            let mut m: BTreeMap<(String, &'static str), usize> = BTreeMap::new();
            for s in sites {
                *m.entry((s.func, s.kind)).or_insert(0) += 1;
            }
            if m.is_empty() {
                "-".to_string()
            } else {
                m.iter().map(|((f, k), c)| format!("{f}/{k}={c}")).collect::<Vec<_>>().join(",")
            }
        }
    }
}

pub fn run_case(w: &[&str]) -> Option<String> {
    match w {
        ["sites", file] => Some(sites_reply(&repo_path(), file)),
        ["x", ..] | ["xraw", ..] => Some(explore_case(w)),
        ["xapi", ..] => Some(api_case(w)),
        _ => None,
    }
}

/// Cases of the standard flow: one per modelled file.
pub fn generate(_seed: u64, _thorough: bool) -> Vec<String> {
    MODELLED.iter().map(|f| format!("sites {f}")).collect()
}

// ------------------------------------------------------------------------------------------------
// wire format of grammar texts (bytes)

pub fn enc_bytes(b: &[u8]) -> String {
    if b.is_empty() {
        return "%.".to_string();
    }
    let mut o = String::with_capacity(b.len() * 2);
    for &c in b {
        if c.is_ascii_alphanumeric() || c == b'_' {
            o.push(c as char);
        } else {
            o.push_str(&format!("%{c:02X}"));
        }
    }
    o
}

pub fn dec_bytes(w: &str) -> Option<Vec<u8>> {
    if w == "%." {
        return Some(vec![]);
    }
    let b = w.as_bytes();
    let mut o = Vec::with_capacity(b.len());
    let mut i = 0;
    while i < b.len() {
        if b[i] == b'%' {
            if i + 3 > b.len() {
                return None;
            }
            let h = std::str::from_utf8(&b[i + 1..i + 3]).ok()?;
            o.push(u8::from_str_radix(h, 16).ok()?);
            i += 3;
        } else if b[i].is_ascii_alphanumeric() || b[i] == b'_' {
            o.push(b[i]);
            i += 1;
        } else {
            return None;
        }
    }
    Some(o)
}

// ------------------------------------------------------------------------------------------------
// (2) the real pipeline under catch_unwind

thread_local! {
    static LAST_PANIC: RefCell<Option<String>> = const { RefCell::new(None) };
}

/// `…/crates/parol/src/analysis/k_tuple.rs` → `parol/src/analysis/k_tuple.rs`;
/// `…/registry/src/<index>/lalry-0.1.0/src/lib.rs` → `lalry-0.1.0/src/lib.rs`;
/// `/rustc/<hash>/library/core/src/…` → `library/core/src/…`
pub fn canon_location(file: &str) -> String {
    let f = file.replace('\\', "/");
    if let Some(p) = f.find("/crates/") {
        return f[p + 8..].to_string();
    }
    if let Some(p) = f.find("/registry/src/") {
        let r = &f[p + 14..];
        if let Some(q) = r.find('/') {
            return r[q + 1..].to_string();
        }
    }
    if let Some(p) = f.find("/library/") {
        return f[p + 1..].to_string();
    }
    if let Some(p) = f.find("harness/src/") {
        return f[p..].to_string();
    }
    f
}

/// first words of a panic message as one protocol word (`[A-Za-z0-9]`, others `_`, ≤ 48 characters)
fn message_word(m: &str) -> String {
    let mut o = String::new();
    let mut last_us = true;
    for c in m.chars() {
        if o.len() >= 48 {
            break;
        }
        if c.is_ascii_alphanumeric() {
            o.push(c);
            last_us = false;
        } else if !last_us {
            o.push('_');
            last_us = true;
        }
    }
    let o = o.trim_end_matches('_').to_string();
    if o.is_empty() { "no_message".to_string() } else { o }
}

pub fn install_hook() {
    std::panic::set_hook(Box::new(|info| {
        let loc = match info.location() {
            Some(l) => format!("{}:{}", canon_location(l.file()), l.line()),
            None => "unknown:0".to_string(),
        };
        let msg = if let Some(s) = info.payload().downcast_ref::<&str>() {
            message_word(s)
        } else if let Some(s) = info.payload().downcast_ref::<String>() {
            message_word(s)
        } else {
            "no_message".to_string()
        };
        LAST_PANIC.with(|c| *c.borrow_mut() = Some(format!("{loc} {msg}")));
    }));
}

fn guarded<T>(stage: &'static str, f: impl FnOnce() -> Result<T, String>) -> Result<T, String> {
    LAST_PANIC.with(|c| *c.borrow_mut() = None);
    match std::panic::catch_unwind(std::panic::AssertUnwindSafe(f)) {
        Ok(Ok(v)) => Ok(v),
        Ok(Err(_)) => Err(format!("err {stage}")),
        Err(_) => {
            let loc = LAST_PANIC.with(|c| c.borrow_mut().take()).unwrap_or_else(|| "unknown:0 no_message".into());
            Err(format!("panic {stage} {loc}"))
        }
    }
}

fn is_ws(c: u8) -> bool {
    c == b' ' || c == b'\t' || c == b'\n' || c == b'\r'
}

/// Removes every `%grammar_type '<raw string>'` declaration and, for `lr`, inserts
/// `%grammar_type 'LALR(1)'` after the first `%start <identifier>`. Texts without a recognisable
/// `%start` declaration are left alone.
pub fn force_grammar_type(text: &str, gt: &str) -> String {
    if gt == "as" {
        return text.to_string();
    }
    let b = text.as_bytes();
    let mut out: Vec<u8> = Vec::with_capacity(b.len() + 32);
    let pat = b"%grammar_type";
    let mut i = 0;
    while i < b.len() {
        if b[i..].starts_with(pat) {
            let mut j = i + pat.len();
            while j < b.len() && is_ws(b[j]) {
                j += 1;
            }
            if j < b.len() && b[j] == b'\'' {
                let mut e = j + 1;
                while e < b.len() && b[e] != b'\'' {
                    if b[e] == b'\\' {
                        e += 1;
                    }
                    e += 1;
                }
                if e < b.len() {
                    i = e + 1;
                    continue;
                }
            }
        }
        out.push(b[i]);
        i += 1;
    }
    let mut s = String::from_utf8_lossy(&out).into_owned();
    if gt == "lr" {
        if let Some(p) = s.find("%start") {
            let sb = s.as_bytes();
            let mut j = p + 6;
            while j < sb.len() && is_ws(sb[j]) {
                j += 1;
            }
            let st = j;
            while j < sb.len() && (sb[j].is_ascii_alphanumeric() || sb[j] == b'_') {
                j += 1;
            }
            if j > st {
                s.insert_str(j, "\n%grammar_type 'LALR(1)'\n");
            }
        }
    }
    s
}

fn scratch_file() -> PathBuf {
    let d = std::env::temp_dir().join(format!("pv_c26_{}", std::process::id()));
    let _ = std::fs::create_dir_all(&d);
    d.join("g.par")
}

/// Runs the four steps of `GrammarGenerator::generate_parser` on the file content `bytes`.
pub fn run_pipeline(bytes: &[u8], k: usize, lang: &str) -> String {
    use parol::build::Builder;
    let path = scratch_file();
    if std::fs::write(&path, bytes).is_err() {
        return "harness-error write".to_string();
    }
    let mut builder = Builder::with_explicit_output_dir(std::env::temp_dir());
    builder.disable_output_sanity_checks();
    builder.grammar_file(&path);
    builder.user_type_name("Gr").user_trait_module_name("gr");
    if builder.max_lookahead(k).is_err() {
        // `Builder::max_lookahead` refuses k > MAX_K with an error
        return "err config".to_string();
    }
    if lang == "cs" {
        builder.language(parol::Language::CSharp);
    }
    let mut generator = match builder.begin_generation_with(None) {
        Ok(g) => g,
        Err(_) => return "harness-error builder".to_string(),
    };
    let r = guarded("parse", || generator.parse().map_err(|e| e.to_string()))
        .and_then(|_| guarded("expand", || generator.expand().map_err(|e| e.to_string())))
        .and_then(|_| guarded("analyse", || generator.post_process().map_err(|e| e.to_string())))
        .and_then(|_| guarded("generate", || generator.write_output().map_err(|e| e.to_string())));
    // dropping a half-built generator must not panic either
    let d = guarded("drop", || {
        drop(generator);
        Ok(())
    });
    match (r, d) {
        (Err(e), _) => e,
        (Ok(()), Err(e)) => e,
        (Ok(()), Ok(())) => "ok".to_string(),
    }
}

/// `xapi <k> <text>`: the public library functions called one after the other, as the documentation
/// of `parol` suggests for tools (`obtain_grammar_config_from_string`, `check_and_transform_grammar`,
/// `calculate_lookahead_dfas(cfg, k)` / `calculate_lalr1_parse_table`), without the `Builder`; here the
/// lookahead limit is not checked against MAX_K by anybody.
fn api_case(w: &[&str]) -> String {
    let (k, text) = match w {
        ["xapi", k, text] => (*k, *text),
        _ => return "bad-op".to_string(),
    };
    let Ok(k) = k.parse::<usize>() else { return "bad-op".to_string() };
    let Some(bytes) = dec_bytes(text) else { return "bad-op".to_string() };
    let s = String::from_utf8_lossy(&bytes).into_owned();
    let r = guarded("parse", || parol::obtain_grammar_config_from_string(&s, false).map_err(|e| e.to_string()))
        .and_then(|mut gc| {
            guarded("expand", || {
                let cfg = parol::generators::check_and_transform_grammar(&gc.cfg, gc.grammar_type)
                    .map_err(|e| e.to_string())?;
                gc.update_cfg(cfg);
                Ok(gc)
            })
        })
        .and_then(|gc| {
            guarded("analyse", || match gc.grammar_type {
                parol::parser::parol_grammar::GrammarType::LLK => {
                    parol::calculate_lookahead_dfas(&gc, k).map(|_| ()).map_err(|e| e.to_string())
                }
                parol::parser::parol_grammar::GrammarType::LALR1 => {
                    parol::calculate_lalr1_parse_table(&gc).map(|_| ()).map_err(|e| e.to_string())
                }
            })
        });
    match r {
        Ok(()) => "ok".to_string(),
        Err(e) => e,
    }
}

fn explore_case(w: &[&str]) -> String {
    if w.first() == Some(&"xapi") {
        return api_case(w);
    }
    let (raw, gt, k, lang, text) = match w {
        ["x", gt, k, lang, text] => (false, *gt, *k, *lang, *text),
        ["xraw", gt, k, lang, text] => (true, *gt, *k, *lang, *text),
        _ => return "bad-op".to_string(),
    };
    let Ok(k) = k.parse::<usize>() else { return "bad-op".to_string() };
    if !matches!(gt, "as" | "ll" | "lr") || !matches!(lang, "rs" | "cs") {
        return "bad-op".to_string();
    }
    let Some(bytes) = dec_bytes(text) else { return "bad-op".to_string() };
    if raw {
        return run_pipeline(&bytes, k, lang);
    }
    let s = String::from_utf8_lossy(&bytes).into_owned();
    let s = force_grammar_type(&s, gt);
    run_pipeline(s.as_bytes(), k, lang)
}

// ------------------------------------------------------------------------------------------------
// a tokenizer of PAR text for token-level mutation and shrinking (layout is not preserved)

pub fn par_tokens(s: &str) -> Vec<String> {
    let c: Vec<char> = s.chars().collect();
    let mut out = vec![];
    let mut i = 0;
    while i < c.len() {
        let ch = c[i];
        if ch.is_whitespace() {
            i += 1;
            continue;
        }
        let start = i;
        if ch == '/' && i + 1 < c.len() && c[i + 1] == '/' {
            while i < c.len() && c[i] != '\n' {
                i += 1;
            }
            // line comments are dropped (they would swallow the rest of the re-joined line)
            continue;
        }
        if ch == '/' && i + 1 < c.len() && c[i + 1] == '*' {
            i += 2;
            while i + 1 < c.len() && !(c[i] == '*' && c[i + 1] == '/') {
                i += 1;
            }
            i = (i + 2).min(c.len());
            out.push(c[start..i].iter().collect());
            continue;
        }
        if ch == '"' || ch == '\'' || ch == '/' {
            i += 1;
            while i < c.len() && c[i] != ch {
                if c[i] == '\\' {
                    i += 1;
                }
                i += 1;
            }
            i = (i + 1).min(c.len());
            out.push(c[start..i].iter().collect());
            continue;
        }
        if ch == '%' {
            i += 1;
            if i < c.len() && c[i] == '%' {
                i += 1;
            } else {
                while i < c.len() && is_ident(c[i]) {
                    i += 1;
                }
            }
            out.push(c[start..i].iter().collect());
            continue;
        }
        if is_ident(ch) {
            while i < c.len() && is_ident(c[i]) {
                i += 1;
            }
            out.push(c[start..i].iter().collect());
            continue;
        }
        if i + 1 < c.len() {
            let two: String = c[i..i + 2].iter().collect();
            if two == "::" || two == "?=" || two == "?!" {
                out.push(two);
                i += 2;
                continue;
            }
        }
        out.push(ch.to_string());
        i += 1;
    }
    out
}

fn join_tokens(t: &[String]) -> String {
    let mut s = String::new();
    for (i, x) in t.iter().enumerate() {
        if i > 0 {
            s.push(if x == "%start" || x == "%%" || t[i - 1] == ";" || t[i - 1] == "%%" { '\n' } else { ' ' });
        }
        s.push_str(x);
    }
    s.push('\n');
    s
}

// ------------------------------------------------------------------------------------------------
// case generators

/// every *.par file of the repository (sorted by path; `target` directories skipped)
pub fn par_files(repo: &Path) -> Vec<(String, Vec<u8>)> {
    fn walk(d: &Path, out: &mut Vec<PathBuf>) {
        let Ok(rd) = std::fs::read_dir(d) else { return };
        let mut es: Vec<PathBuf> = rd.filter_map(|e| e.ok()).map(|e| e.path()).collect();
        es.sort();
        for p in es {
            let name = p.file_name().and_then(|n| n.to_str()).unwrap_or("");
            if p.is_dir() {
                if name == "target" || name == ".git" {
                    continue;
                }
                walk(&p, out);
            } else if name.ends_with(".par") {
                out.push(p);
            }
        }
    }
    let mut ps = vec![];
    walk(repo, &mut ps);
    ps.into_iter()
        .filter_map(|p| {
            let b = std::fs::read(&p).ok()?;
            let rel = p.strip_prefix(repo).ok()?.to_string_lossy().into_owned();
            Some((rel, b))
        })
        .collect()
}

const STRAY: &[&str] = &[
    "%start X", "%title \"t\"", "%comment \"c\"", "%user_type A = B::C", "%nt_type S = T::U", "%t_type T::V",
    "%grammar_type 'LALR(1)'", "%grammar_type 'bogus'", "%grammar_type 'll(k)'", "%line_comment '#'",
    "%block_comment '<' '>'", "%auto_newline_off", "%auto_ws_off", "%skip A, B", "%on A %enter B", "%on A %push B",
    "%on A, B %pop", "%allow_unmatched", "%scanner X { %auto_ws_off }", "%scanner INITIAL { }", "%%", "%pop", "%enter",
    "%push Y", "%unknown", "%", "%scanner X {", "}", "<X, Y>", "<INITIAL>", "?= 'a'", "?! /b/", "@m", ": T::U", "^", "::",
];

const BRACKETS: &[&str] = &["(", ")", "[", "]", "{", "}", "<", ">", "|", ";", ":"];

fn mutate_bytes(rng: &mut Rng, src: &[u8]) -> Vec<u8> {
    let mut b = src.to_vec();
    let n = match rng.below(10) {
        0..=4 => 1,
        5..=7 => rng.range(2, 4),
        _ => rng.range(5, 20),
    };
    for _ in 0..n {
        match rng.below(9) {
            0 | 1 => {
                if !b.is_empty() {
                    let i = rng.below(b.len());
                    b[i] ^= 1 << rng.below(8);
                }
            }
            2 => {
                if !b.is_empty() {
                    let i = rng.below(b.len());
                    b[i] = rng.below(256) as u8;
                }
            }
            3 => {
                let i = rng.below(b.len() + 1);
                b.insert(i, rng.below(256) as u8);
            }
            4 => {
                // insert an interesting byte
                let i = rng.below(b.len() + 1);
                let c = *rng.pick(b"\"'/\\%{}[]()<>|;:@^?=!,\n\r\t \0\x7f\xff\xc3\xe2\xf0*+.$#_09aZ");
                b.insert(i, c);
            }
            5 => {
                if !b.is_empty() {
                    let i = rng.below(b.len());
                    let hi = 1 + rng.below(8);
                    let l = rng.range(1, hi).min(b.len() - i);
                    b.drain(i..i + l);
                }
            }
            6 => {
                // duplicate a chunk
                if !b.is_empty() {
                    let i = rng.below(b.len());
                    let l = rng.range(1, 40).min(b.len() - i);
                    let chunk: Vec<u8> = b[i..i + l].to_vec();
                    let j = rng.below(b.len() + 1);
                    for (o, c) in chunk.into_iter().enumerate() {
                        b.insert(j + o, c);
                    }
                }
            }
            7 => {
                // truncate
                if !b.is_empty() && rng.chance(1, 2) {
                    let i = rng.below(b.len());
                    b.truncate(i);
                }
            }
            _ => {
                // swap two bytes
                if b.len() > 1 {
                    let i = rng.below(b.len());
                    let j = rng.below(b.len());
                    b.swap(i, j);
                }
            }
        }
    }
    b
}

fn mutate_tokens(rng: &mut Rng, src: &str) -> String {
    let mut t = par_tokens(src);
    let n = match rng.below(10) {
        0..=5 => 1,
        6..=8 => rng.range(2, 3),
        _ => rng.range(4, 8),
    };
    for _ in 0..n {
        if t.is_empty() {
            t.push(rng.pick(STRAY).to_string());
            continue;
        }
        match rng.below(11) {
            0 => {
                let i = rng.below(t.len());
                let j = rng.below(t.len());
                t.swap(i, j);
            }
            1 => {
                if t.len() > 1 {
                    let i = rng.below(t.len() - 1);
                    t.swap(i, i + 1);
                }
            }
            2 | 3 => {
                let i = rng.below(t.len());
                t.remove(i);
            }
            4 => {
                let i = rng.below(t.len());
                let x = t[i].clone();
                t.insert(i, x);
            }
            5 => {
                // unbalanced bracket
                let i = rng.below(t.len() + 1);
                t.insert(i, rng.pick(BRACKETS).to_string());
            }
            6 => {
                // remove one bracket
                let idx: Vec<usize> = (0..t.len()).filter(|&i| BRACKETS.contains(&t[i].as_str())).collect();
                if !idx.is_empty() {
                    t.remove(*rng.pick(&idx));
                }
            }
            7 | 8 => {
                // stray directive / decoration
                let i = rng.below(t.len() + 1);
                let stray: &str = *rng.pick(STRAY);
                for (o, x) in par_tokens(stray).into_iter().enumerate() {
                    t.insert(i + o, x);
                }
            }
            9 => {
                // replace an identifier by another token's text (undefined / duplicate names)
                let i = rng.below(t.len());
                let j = rng.below(t.len());
                t[i] = t[j].clone();
            }
            _ => {
                // duplicate a whole production / declaration (up to the next `;`)
                let i = rng.below(t.len());
                let e = (i..t.len()).find(|&j| t[j] == ";").map(|j| j + 1).unwrap_or(t.len());
                let chunk: Vec<String> = t[i..e].to_vec();
                let at = rng.below(t.len() + 1);
                for (o, x) in chunk.into_iter().enumerate() {
                    t.insert(at + o, x);
                }
            }
        }
    }
    join_tokens(&t)
}

// ---- structured valid grammars with annotations

use crate::ebnfenc::{F, random_ebnf};

/// Prolog flags of the structured generator (one bit each; all 2^9 combinations are cycled through).
pub const FLAG_NAMES: &[&str] = &[
    "line_comment", "block_comment", "auto_newline_off", "auto_ws_off", "allow_unmatched", "t_type", "nt_type",
    "user_type", "scanner_states",
];

struct Deco<'a> {
    rng: &'a mut Rng,
    /// decorate symbols (cut, member names, user types, lookahead, terminal kinds, scanner prefixes)
    symbols: bool,
    states: bool,
    user_type: bool,
}

impl Deco<'_> {
    fn term(&mut self, a: usize) -> String {
        let mut s = String::new();
        if self.states && self.rng.chance(1, 6) {
            s.push_str(*self.rng.pick(&["<St1>", "<INITIAL, St1>", "<St1, St2>", "<INITIAL>"]));
        }
        let kind = if self.symbols { self.rng.below(3) } else { 0 };
        match kind {
            0 => s.push_str(&format!("\"t{a}\"")),
            1 => s.push_str(&format!("'t{a}'")),
            _ => s.push_str(&format!("/t{a}/")),
        }
        if self.symbols && self.rng.chance(1, 8) {
            s.push_str(*self.rng.pick(&[" ?= 'x'", " ?! \"y\"", " ?= /[0-9]+/", " ?! 't5'"]));
        }
        if self.symbols {
            s.push_str(&self.ast_control());
        }
        s
    }
    fn ast_control(&mut self) -> String {
        match self.rng.below(12) {
            0 => "^".to_string(),
            1 => format!("@m{}", self.rng.below(3)),
            2 => format!("@m{} : {}", self.rng.below(3), if self.user_type { "UT" } else { "crate::T" }),
            3 => format!(" : {}", if self.user_type { "UT" } else { "a::b::C" }),
            _ => String::new(),
        }
    }
    fn factor(&mut self, f: &F) -> String {
        match f {
            F::T(a) => self.term(*a),
            F::N(n, clipped) => {
                if *clipped {
                    format!("{n}^")
                } else if self.symbols {
                    format!("{n}{}", self.ast_control())
                } else {
                    n.clone()
                }
            }
            F::G(a) => format!("( {} )", self.alts(a)),
            F::O(a) => format!("[ {} ]", self.alts(a)),
            F::R(a) => format!("{{ {} }}", self.alts(a)),
        }
    }
    fn alts(&mut self, a: &[Vec<F>]) -> String {
        a.iter()
            .map(|alt| alt.iter().map(|f| self.factor(f)).collect::<Vec<_>>().join(" "))
            .collect::<Vec<_>>()
            .join(" | ")
    }
}

/// PAR text of a random EBNF grammar with the prolog `flags` and (if `symbols`) decorated symbols.
pub fn structured_grammar(rng: &mut Rng, flags: usize, symbols: bool, lalr: bool) -> String {
    let clashy = rng.chance(1, 2);
    let (start, prods) = random_ebnf(rng, clashy);
    let has = |i: usize| flags & (1 << i) != 0;
    let mut s = format!("%start {start}\n%title \"g\"\n%comment \"c\"\n");
    if lalr {
        s.push_str("%grammar_type 'LALR(1)'\n");
    }
    if has(7) {
        s.push_str("%user_type UT = crate::user::Ty\n");
    }
    if has(6) {
        s.push_str(&format!("%nt_type {} = crate::N::T\n", prods[0].0));
    }
    if has(5) {
        s.push_str("%t_type crate::Tok\n");
    }
    if has(0) {
        s.push_str("%line_comment '//'\n");
    }
    if has(1) {
        s.push_str("%block_comment '/*' '*/'\n");
    }
    if has(2) {
        s.push_str("%auto_newline_off\n");
    }
    if has(3) {
        s.push_str("%auto_ws_off\n");
    }
    if has(4) {
        s.push_str("%allow_unmatched\n");
    }
    if has(8) {
        s.push_str("%on Tk0 %enter St1\n%on Tk1 %push St2\n");
        if rng.chance(1, 2) {
            s.push_str("%skip Tk2\n");
        }
        s.push_str("%scanner St1 {\n  %auto_ws_off\n  %on Tk0 %enter INITIAL\n");
        if rng.chance(1, 2) {
            s.push_str("  %line_comment '#'\n  %allow_unmatched\n");
        }
        s.push_str("}\n%scanner St2 {\n  %on Tk1 %pop\n");
        if rng.chance(1, 2) {
            s.push_str("  %block_comment '<!--' '-->'\n  %auto_newline_off\n  %skip Tk2\n");
        }
        s.push_str("}\n");
    }
    s.push_str("%%\n");
    let mut d = Deco { rng, symbols, states: has(8), user_type: has(7) };
    for (l, a) in &prods {
        s.push_str(&format!("{l}: {};\n", d.alts(a)));
    }
    if has(8) {
        // token aliases (primary non-terminals) the scanner directives refer to
        s.push_str(&format!("{}: Tk0 | Tk1 | Tk2 | ;\n", prods[0].0));
        s.push_str("Tk0: <INITIAL, St1>\"k0\";\nTk1: <INITIAL, St2>'k1';\nTk2: <INITIAL, St2>/k2/;\n");
    }
    s
}

// ---- adversarial families

fn adversarial(thorough: bool) -> Vec<(String, Vec<usize>)> {
    // (text, lookahead limits to try for LL; LALR is always tried)
    let mut v: Vec<(String, Vec<usize>)> = vec![];
    let all_k = vec![1, 2, 3, 4, 5];
    let mut add = |s: String, ks: &[usize]| v.push((s, ks.to_vec()));
    // huge alternations
    for n in if thorough { vec![50, 400, 1500] } else { vec![50, 400] } {
        let alts: Vec<String> = (0..n).map(|i| format!("\"t{i}\"")).collect();
        add(format!("%start S\n%%\nS: {};\n", alts.join(" | ")), &[1, 5]);
        let alts: Vec<String> = (0..n).map(|i| format!("\"a\" \"t{i}\"")).collect();
        add(format!("%start S\n%%\nS: {};\n", alts.join(" | ")), &[1, 2]);
    }
    // the same alternative many times (LL conflict at every k; LALR reduce/reduce)
    add(format!("%start S\n%%\nS: {};\n", vec!["\"a\""; 30].join(" | ")), &all_k);
    // deep nesting of groups / optionals / repetitions / mixed. Canonicalisation of nested optionals
    // and repetitions is (at least) quadratic in the depth and lalry's table construction cubic:
    // depth 1000 takes minutes, so only groups and the production chain go that deep.
    for d in if thorough { vec![10, 60, 250, 1000] } else { vec![10, 60, 250] } {
        for (o, c) in [("(", ")"), ("[", "]"), ("{", "}")] {
            if d > 250 && o != "(" {
                continue;
            }
            add(format!("%start S\n%%\nS: {} \"a\" {};\n", vec![o; d].join(" "), vec![c; d].join(" ")), &[1, 3]);
        }
        if d <= 250 {
            let mut open = String::new();
            let mut close = String::new();
            for i in 0..d {
                let (o, c) = [("( \"x\" ", " )"), ("[ \"y\" ", " ]"), ("{ \"z\" ", " }")][i % 3];
                open.push_str(o);
                close.insert_str(0, c);
            }
            add(format!("%start S\n%%\nS: {open}\"a\"{close};\n"), &[1, 3]);
        }
        // deep right recursion through many non-terminals
        let mut s = String::from("%start N0\n%%\n");
        for i in 0..d {
            s.push_str(&format!("N{i}: \"a{i}\" N{} | ;\n", i + 1));
        }
        s.push_str(&format!("N{d}: \"end\";\n"));
        add(s, &[1, 2]);
    }
    // many terminals, around the 12-bit limit of the packed k-tuples (finding F10)
    for n in [1000usize, 4085, 4088, 4089, 4090, 4091, 4095, 4100, 5000] {
        if !thorough && (n == 4085 || n == 4091 || n == 5000) {
            continue;
        }
        let ts: Vec<String> = (0..n).map(|i| format!("'t{i}'")).collect();
        add(format!("%start A\n%%\nA: {} | 't0';\n", ts.join(" ")), &[1]);
    }
    // empty productions and empty grammars
    for s in [
        "%start S\n%%\nS: ;\n",
        "%start S\n%%\nS: | ;\n",
        "%start S\n%%\nS: | | | ;\n",
        "%start S\n%%\nS: A B; A: ; B: ;\n",
        "%start S\n%%\nS: A A A; A: | \"a\";\n",
        "%start S\n%%\n",
        "%start S\n",
        "%start S %%",
        "%%\nS: \"a\";\n",
        "",
        "%start S\n%%\nS: () ;\n",
        "%start S\n%%\nS: [] ;\n",
        "%start S\n%%\nS: {} ;\n",
        "%start S\n%%\nS: ( | ) ;\n",
        "%start S\n%%\nS: { [ ( ) ] } ;\n",
        "%start S\n%%\nS: \"\";\n",
        "%start S\n%%\nS: '';\n",
        "%start S\n%%\nS: //;\n",
        "%start S\n%%\nS: \"a\" ?= \"\";\n",
    ] {
        add(s.to_string(), &[1, 3]);
    }
    // undefined / duplicate / unreachable / non-productive non-terminals, odd start symbols
    for s in [
        "%start S\n%%\nS: A;\n",
        "%start S\n%%\nS: \"a\" A B C;\n",
        "%start X\n%%\nS: \"a\";\n",
        "%start S\n%%\nS: \"a\"; S: \"a\";\n",
        "%start S\n%%\nS: \"a\"; S: \"b\"; S: ;\nS: ;\n",
        "%start S\n%%\nS: \"a\"; A: \"b\";\n",
        "%start S\n%%\nS: S;\n",
        "%start S\n%%\nS: S S;\n",
        "%start S\n%%\nS: A; A: S;\n",
        "%start S\n%%\nS: A | \"a\"; A: S;\n",
        "%start S\n%%\nS: S \"a\" | \"a\";\n",
        "%start S\n%%\nS: A S \"a\" | \"a\"; A: ;\n",
        "%start S\n%%\nS: {S};\n",
        "%start S\n%%\nS: [S];\n",
        "%start S\n%%\nS: [S] S;\n",
        "%start S\n%%\nS: { {S} } [ [S] ] ( (S) | );\n",
        "%start SList\n%%\nS: {\"a\"};\n",
        "%start SOpt\n%%\nS: [\"a\"];\n",
        "%start NList\n%%\nN: { \"a\" N \"b\" };\n",
        "%start S\n%%\nS: {\"a\"} SList; SList: \"b\";\n",
        "%start S\n%%\nS: \"a\" S0; S0: \"b\" S1; S1: S | ;\n",
        "%start S\n%start T\n%%\nS: \"a\"; T: \"b\";\n",
        "%start S\n%%\nS: T; T: \"a\"; T: \"a\" \"b\"; T: \"a\" \"b\" \"c\";\n",
        "%start S\n%%\nS: \"a\" \"b\" | \"a\" \"c\" | \"d\" \"e\" | \"d\" \"f\";\n",
        "%start _\n%%\n_: \"a\" __; __: \"b\";\n",
        "%start S\n%%\nS: Self; Self: \"self\" Crate; Crate: \"crate\";\n",
        "%start S\n%%\nS: a_b AB Ab; a_b: \"x\"; AB: \"y\"; Ab: \"z\";\n",
        "%start S\n%%\nS: Token Result Box Vec Option; Token: \"a\" \"b\"; Result: \"c\" \"d\"; Box: \"e\" \"f\"; Vec: \"g\" \"h\"; Option: \"i\" \"j\";\n",
    ] {
        add(s.to_string(), &all_k);
    }
    // scanner states: duplicate names, unknown states, %pop without %push, transitions on undefined /
    // non-primary non-terminals, INITIAL redefined
    for s in [
        "%start S\n%scanner A { }\n%scanner A { }\n%%\nS: \"a\";\n",
        "%start S\n%scanner A { %auto_ws_off }\n%scanner A { %auto_newline_off }\n%%\nS: <A>\"a\";\n",
        "%start S\n%scanner INITIAL { %auto_ws_off }\n%%\nS: \"a\";\n",
        "%start S\n%on T %enter Nowhere\n%%\nS: T; T: \"a\";\n",
        "%start S\n%on T %push Nowhere\n%%\nS: T; T: \"a\";\n",
        "%start S\n%on T %pop\n%%\nS: T; T: \"a\";\n",
        "%start S\n%on Undefined %enter A\n%scanner A { }\n%%\nS: \"a\";\n",
        "%start S\n%on S %enter A\n%scanner A { %on S %enter INITIAL }\n%%\nS: \"a\" \"b\";\n",
        "%start S\n%on T, T, T %enter A\n%on T %push A\n%on T %pop\n%scanner A { %on T %pop }\n%%\nS: T; T: <INITIAL, A>\"a\";\n",
        "%start S\n%scanner A { %on T %enter B }\n%scanner B { %on T %enter C }\n%%\nS: T; T: <A, B>\"a\";\n",
        "%start S\n%%\nS: <Nowhere>\"a\";\n",
        "%start S\n%%\nS: <A, A, A>\"a\";\n%scanner A { }\n",
        "%start S\n%skip T\n%%\nS: T; T: \"a\";\n",
        "%start S\n%skip S\n%%\nS: \"a\" \"b\";\n",
        "%start S\n%skip Undefined, Undefined\n%%\nS: \"a\";\n",
        "%start S\n%skip T\n%skip T\n%scanner A { %skip T, T }\n%%\nS: T U; T: <INITIAL, A>\"a\"; U: \"b\";\n",
        "%start S\n%skip T\n%%\nS: T; T: \"a\"; U: T;\n",
        "%start S\n%skip Hash\n%grammar_type 'LALR(1)'\n%%\nS: \"a\" \"b\" | Hash; Hash: \"#\";\n",
        "%start S\n%line_comment '//'\n%line_comment '#'\n%block_comment 'a' 'b'\n%block_comment '(*' '*)'\n%%\nS: \"a\";\n",
        "%start S\n%line_comment ''\n%block_comment '' ''\n%%\nS: \"a\";\n",
        "%start S\n%line_comment /(/\n%block_comment /[/ /)/\n%%\nS: \"a\";\n",
        "%start S\n%t_type A\n%t_type B\n%nt_type S = X\n%nt_type S = Y\n%nt_type Undefined = Z\n%user_type U = V\n%user_type U = W\n%%\nS: \"a\" : U;\n",
        "%start S\n%grammar_type 'LALR(1)'\n%grammar_type 'LL(k)'\n%%\nS: \"a\";\n",
        "%start S\n%grammar_type 'SLR(7)'\n%%\nS: \"a\";\n",
        "%start S\n%grammar_type ''\n%%\nS: \"a\";\n",
        "%start S\n%%\nS: T@x T@x T@x; T: \"a\"@x : U@x;\n",
        "%start S\n%%\nS: \"a\"^^;\n",
        "%start S\n%%\nS: \"a\"^ \"b\"^ T^; T: \"c\"^;\n",
        "%start S\n%%\nS: \"a\" ?= \"b\" ?= \"c\";\n",
        "%start S\n%%\nS: \"a\" ?= 'b' | \"a\" ?! 'b' | \"a\";\n",
        "%start S\n%%\nS: T U; T: \"a\"; U: \"a\";\n",
        "%start S\n%%\nS: T U; T: \"a\"; U: 'a';\n",
        "%start S\n%%\nS: 'a.b' \"a.b\" /a.b/;\n",
    ] {
        add(s.to_string(), &[1, 2]);
    }
    // grammars with LALR(1) conflicts (lalry: finding F13) and the F1/F12 witnesses
    for s in [
        "%start S\n%grammar_type 'LALR(1)'\n%%\nS: S S | \"a\" | ;\n",
        "%start S\n%grammar_type 'LALR(1)'\n%%\nS: \"a\" [S];\n",
        "%start S\n%grammar_type 'LALR(1)'\n%%\nS: A; A: S | \"a\";\n",
        "%start S\n%grammar_type 'LALR(1)'\n%%\nS: '(' L ')'; L: S | ;\n",
        "%start S\n%grammar_type 'LALR(1)'\n%%\nS: S S | \"a\";\n",
        "%start S\n%grammar_type 'LALR(1)'\n%%\nS: S | \"a\";\n",
        "%start S\n%grammar_type 'LALR(1)'\n%%\nS: S;\n",
        "%start S\n%grammar_type 'LALR(1)'\n%%\nS: | S;\n",
        "%start S\n%grammar_type 'LALR(1)'\n%%\nS: A A; A: | A;\n",
        "%start S\n%grammar_type 'LALR(1)'\n%%\nS: A | B; A: ; B: ;\n",
        "%start S\n%grammar_type 'LALR(1)'\n%%\nS: A \"a\" | B \"a\"; A: \"x\"; B: \"x\";\n",
        "%start S\n%grammar_type 'LALR(1)'\n%%\nS: \"if\" S | \"if\" S \"else\" S | \"x\";\n",
        "%start S\n%grammar_type 'LALR(1)'\n%%\nS: S \"+\" S | S \"*\" S | \"n\";\n",
        "%start E\n%grammar_type 'LALR(1)'\n%%\nE: E E E | E E | \"a\" | ;\n",
        "%start S\n%grammar_type 'LALR(1)'\n%%\nS: {S} | [S] \"a\";\n",
        "%start S\n%grammar_type 'LALR(1)'\n%%\nS: {\"a\"} {\"a\"};\n",
        "%start S\n%grammar_type 'LALR(1)'\n%%\nS: T T; T: S | ;\n",
        "%start S\n%grammar_type 'LALR(1)'\n%%\nS: A S | ; A: ;\n",
    ] {
        add(s.to_string(), &[1]);
    }
    // invalid / hostile regular expressions in terminals
    for r in [
        "(", ")", "[", "[a", "a{", "a{2,1}", "*", "+", "?", "a**", "\\", "\\p{Foo}", "(?P<n>a)", "(?i)a", "(?s).", "\\b", "^a$",
        "a{1000}", "(a{100}){100}", "[\\s--\\n]", "\\u{110000}", "\\xZZ", "[z-a]", "(?=a)", "(?<!a)b", "\\1", "a|", "|", "()",
        "\\Q", "[[:foo:]]", "\\d+\\.\\d*", "\u{10FFFF}", "\u{0}", "a\nb",
    ] {
        add(format!("%start S\n%%\nS: /{r}/;\n"), &[1]);
        add(format!("%start S\n%%\nS: \"{r}\" | \"x\";\n"), &[1]);
        add(format!("%start S\n%line_comment /{r}/\n%%\nS: \"a\" ?= /{r}/;\n"), &[1]);
    }
    // very long tokens / names
    let long = "a".repeat(if thorough { 100_000 } else { 20_000 });
    add(format!("%start {long}\n%%\n{long}: \"{long}\";\n"), &[1]);
    add(format!("%start S\n%%\nS: \"a\" : {};\n", vec!["m"; 3000].join("::")), &[1]);
    add(format!("%start S\n%%\nS: {};\n", vec!["S"; 2000].join(" ")), &[1]);
    add(format!("%start S\n%%\nS: {} \"a\";\n", vec!["[\"b\"]"; if thorough { 14 } else { 10 }].join(" ")), &[1, 5]);
    add(format!("%start S\n%%\nS: {} ;\n", vec!["{\"b\"}"; 12].join(" ")), &[1, 5]);
    v
}

/// lookahead limits at and beyond MAX_K = 10: through the Builder (k > 10 must be an error) and
/// through the public functions (nobody checks the limit there)
fn limit_cases(out: &mut Vec<String>) {
    for g in [
        "%start S\n%%\nS: \"a\" | \"a\";\n",
        "%start S\n%%\nS: \"a\" \"b\" | \"a\" \"c\";\n",
        "%start S\n%%\nS: A \"x\" | A \"y\"; A: \"a\" \"a\" \"a\" \"a\" \"a\" \"a\" \"a\" \"a\" \"a\" \"a\" \"a\";\n",
        "%start S\n%grammar_type 'LALR(1)'\n%%\nS: \"a\" | \"b\";\n",
    ] {
        let e = enc_bytes(g.as_bytes());
        for k in [0usize, 6, 9, 10, 11, 12, 100, 1_000_000] {
            out.push(format!("x as {k} rs {e}"));
        }
        for k in [0usize, 1, 10, 11, 12, 64] {
            out.push(format!("xapi {k} {e}"));
        }
    }
}

fn push_all_configs(out: &mut Vec<String>, text: &[u8], ks: &[usize], lalr: bool, cs: bool) {
    let e = enc_bytes(text);
    for k in ks {
        out.push(format!("x ll {k} rs {e}"));
    }
    if lalr {
        out.push(format!("x lr 1 rs {e}"));
    }
    if cs {
        out.push(format!("x ll {} cs {e}", ks.last().copied().unwrap_or(3)));
        if lalr {
            out.push(format!("x lr 1 cs {e}"));
        }
    }
}

/// The exploration cases of one run.
pub fn generate_exploration(seed: u64, thorough: bool) -> Vec<String> {
    let repo = repo_path();
    let files = par_files(&repo);
    let mut rng = Rng::new(seed ^ 0xC26);
    let mut out = vec![];
    let all_k = [1usize, 2, 3, 4, 5];
    // (0) every repository grammar unmutated: as is with its own grammar type (k = 1..5 cycling, and 5)
    for (i, (_, b)) in files.iter().enumerate() {
        let e = enc_bytes(b);
        out.push(format!("x as {} rs {e}", 1 + i % 5));
        if thorough {
            out.push(format!("x as 5 rs {e}"));
            out.push(format!("x ll {} rs {e}", 1 + (i + 2) % 5));
            out.push(format!("x lr 1 rs {e}"));
            out.push(format!("x as 3 cs {e}"));
        } else if i % 4 == 0 {
            out.push(format!("x lr 1 rs {e}"));
            out.push(format!("x as 3 cs {e}"));
        }
    }
    // files small enough to run all configurations on their mutants
    let small: Vec<&(String, Vec<u8>)> = files.iter().filter(|f| f.1.len() <= 4000).collect();
    // (a) byte-level mutations (thorough: every file 6 times)
    let rounds = if thorough { 6 } else { 1 };
    for r in 0..rounds {
        for (i, (_, b)) in files.iter().enumerate() {
            // quick: every file gets either a byte-level or a token-level mutant (alternating with the seed)
            if !thorough && (i + seed as usize) % 2 != 0 {
                continue;
            }
            let m = mutate_bytes(&mut rng, b);
            let e = enc_bytes(&m);
            let k = 1 + (i + r) % 5;
            out.push(format!("x as {k} rs {e}"));
            if (i + r) % 3 == 0 {
                out.push(format!("x lr 1 rs {e}"));
            }
            if (i + r) % 7 == 0 {
                out.push(format!("xraw as {k} rs {e}"));
            }
        }
    }
    if !small.is_empty() {
        for _ in 0..if thorough { 400 } else { 25 } {
            let f = rng.pick(&small);
            let m = mutate_bytes(&mut rng, &f.1);
            push_all_configs(&mut out, &m, &all_k, true, false);
        }
    }
    // (b) token-level mutations
    for r in 0..rounds {
        for (i, (_, b)) in files.iter().enumerate() {
            if !thorough && (i + seed as usize) % 2 == 0 {
                continue;
            }
            let s = String::from_utf8_lossy(b);
            let m = mutate_tokens(&mut rng, &s);
            let e = enc_bytes(m.as_bytes());
            let k = 1 + (i + r + 1) % 5;
            out.push(format!("x as {k} rs {e}"));
            if (i + r) % 3 == 1 {
                out.push(format!("x lr 1 rs {e}"));
            }
            if (i + r) % 11 == 0 {
                out.push(format!("x as {k} cs {e}"));
            }
        }
    }
    if !small.is_empty() {
        for _ in 0..if thorough { 400 } else { 25 } {
            let f = rng.pick(&small);
            let m = mutate_tokens(&mut rng, &String::from_utf8_lossy(&f.1));
            push_all_configs(&mut out, m.as_bytes(), &all_k, true, false);
        }
    }
    // (c) structured valid grammars, every combination of the prolog flags
    let nflags = FLAG_NAMES.len();
    let combos = 1usize << nflags;
    let n = if thorough { combos * 3 } else { combos / 4 };
    for i in 0..n {
        // quick: every fourth combination per run, offset by the seed so that all are reached
        let flags = if thorough { i % combos } else { (4 * i + (seed as usize & 3)) % combos };
        let symbols = i % 3 != 0;
        let g = structured_grammar(&mut rng, flags, symbols, false);
        let ks: Vec<usize> = if thorough { all_k.to_vec() } else { vec![1 + i % 5] };
        push_all_configs(&mut out, g.as_bytes(), &ks, true, i % 8 == 0);
    }
    limit_cases(&mut out);
    // (d) adversarial families
    for (g, ks) in adversarial(thorough) {
        let big = g.len() > 30_000;
        push_all_configs(&mut out, g.as_bytes(), &ks, true, !big && g.len() % 5 == 0);
    }
    out
}

// ------------------------------------------------------------------------------------------------
// shrinking (delta debugging)

fn ddmin<T: Clone>(items: Vec<T>, test: &mut dyn FnMut(&[T]) -> bool, budget: &mut usize) -> Vec<T> {
    let mut cur = items;
    let mut n = 2usize;
    while cur.len() >= 2 && *budget > 0 {
        let chunk = cur.len().div_ceil(n);
        let mut reduced = false;
        let mut start = 0;
        while start < cur.len() && *budget > 0 {
            let end = (start + chunk).min(cur.len());
            let cand: Vec<T> = cur[..start].iter().chain(cur[end..].iter()).cloned().collect();
            *budget -= 1;
            if !cand.is_empty() && test(&cand) {
                cur = cand;
                n = n.saturating_sub(1).max(2);
                reduced = true;
                break;
            }
            start = end;
        }
        if !reduced {
            if n >= cur.len() {
                break;
            }
            n = (n * 2).min(cur.len());
        }
    }
    cur
}

/// signature of a reply that shrinking must preserve: stage and panic location
fn same_failure(a: &str, b: &str) -> bool {
    a == b
}

/// Shrinks the text of an `x`/`xraw`/`xapi` case whose reply is `panic …` (same stage, same
/// location). Returns the shrunk case (always with the grammar type written into the text) and its
/// reply.
pub fn shrink_case(w: &[&str]) -> Option<(String, String)> {
    let (api, gt, k, lang, text) = match w {
        ["x" | "xraw", gt, k, lang, text] => (false, *gt, *k, *lang, *text),
        ["xapi", k, text] => (true, "as", *k, "rs", *text),
        _ => return None,
    };
    let k: usize = k.parse().ok()?;
    let bytes = dec_bytes(text)?;
    let base = String::from_utf8_lossy(&bytes).into_owned();
    // the grammar type is made explicit in the text so that the shrunk grammar is self-contained
    let full = force_grammar_type(&base, gt);
    let mk_case = |s: &str| {
        if api {
            format!("xapi {k} {}", enc_bytes(s.as_bytes()))
        } else {
            format!("x as {k} {lang} {}", enc_bytes(s.as_bytes()))
        }
    };
    let run = |s: &str| {
        let c = mk_case(s);
        let words: Vec<&str> = c.split(' ').collect();
        explore_case(&words)
    };
    let target = run(&full);
    if !target.starts_with("panic") {
        // not a panic (or not reproducible with the grammar type made explicit): unchanged
        return Some((w.join(" "), explore_case(w)));
    }
    // number of pipeline runs spent on shrinking: fixed per text size (deterministic), none for very
    // large texts (a grammar that needs thousands of terminals cannot get small anyway)
    let mut budget = if full.len() > 16_000 { 0 } else { (2_000_000 / full.len().max(1)).clamp(40, 1500) };
    // lines
    let lines: Vec<String> = full.split_inclusive('\n').map(|s| s.to_string()).collect();
    let lines = ddmin(lines, &mut |c| same_failure(&run(&c.concat()), &target), &mut budget);
    let mut cur = lines.concat();
    // tokens
    let toks = par_tokens(&cur);
    if !toks.is_empty() && same_failure(&run(&join_tokens(&toks)), &target) {
        let toks = ddmin(toks, &mut |c| same_failure(&run(&join_tokens(c)), &target), &mut budget);
        cur = join_tokens(&toks);
    }
    // characters inside tokens (white space stays, so that the result remains readable)
    if cur.chars().count() <= 400 {
        let cs: Vec<char> = cur.chars().collect();
        let idx: Vec<usize> = (0..cs.len()).filter(|&i| !cs[i].is_whitespace()).collect();
        let render = |keep: &[usize]| -> String {
            let mut k = keep.iter().peekable();
            let mut o = String::new();
            for (i, c) in cs.iter().enumerate() {
                if c.is_whitespace() {
                    o.push(*c);
                } else if k.peek() == Some(&&i) {
                    o.push(*c);
                    k.next();
                }
            }
            o
        };
        let kept = ddmin(idx, &mut |c| same_failure(&run(&render(c)), &target), &mut budget);
        cur = render(&kept);
        // squeeze runs of blanks left behind by removed tokens
        let mut sq = String::new();
        for line in cur.lines() {
            let l = line.split_whitespace().collect::<Vec<_>>().join(" ");
            if !l.is_empty() {
                sq.push_str(&l);
                sq.push('\n');
            }
        }
        if same_failure(&run(&sq), &target) {
            cur = sq;
        }
    }
    Some((mk_case(&cur), target))
}

// ------------------------------------------------------------------------------------------------
// command line

pub fn cli(args: &[String]) {
    match args.first().map(|s| s.as_str()) {
        Some("sites") => {
            let repo = repo_path();
            for f in MODELLED {
                match scan_file(&repo, f) {
                    None => println!("{f}:0:missing-file:-"),
                    Some(sites) => {
                        for s in sites {
                            println!("{}:{}:{}:{}", s.file, s.line, s.kind, s.func);
                        }
                    }
                }
            }
        }
        Some("xgen") => {
            let seed: u64 = args.get(1).and_then(|s| s.parse().ok()).unwrap_or(0);
            let thorough = args.get(2).map(|s| s == "thorough").unwrap_or(false);
            let mut s = String::new();
            for c in generate_exploration(seed, thorough) {
                s.push_str(&c);
                s.push('\n');
            }
            std::io::stdout().write_all(s.as_bytes()).unwrap();
        }
        Some("xrun") => {
            install_hook();
            let stdin = std::io::stdin();
            for line in stdin.lock().lines() {
                let line = line.unwrap();
                let words: Vec<&str> = line.split_whitespace().collect();
                let reply = match std::panic::catch_unwind(|| explore_case(&words)) {
                    Ok(r) => r,
                    Err(_) => "panic harness unknown:0 no_message".to_string(),
                };
                println!("@@ {reply}");
                std::io::stdout().flush().unwrap();
            }
        }
        Some("shrink") => {
            install_hook();
            let stdin = std::io::stdin();
            for line in stdin.lock().lines() {
                let line = line.unwrap();
                let words: Vec<&str> = line.split_whitespace().collect();
                match shrink_case(&words) {
                    Some((case, reply)) => println!("@@ {reply} ## {case}"),
                    None => println!("@@ bad-op"),
                }
                std::io::stdout().flush().unwrap();
            }
        }
        // debugging aid: `pv c26 show <case words…>` prints the decoded text and the reply
        Some("show") => {
            install_hook();
            let w: Vec<&str> = args[1..].iter().map(|s| s.as_str()).collect();
            if let Some(b) = w.last().and_then(|t| dec_bytes(t)) {
                println!("{}", String::from_utf8_lossy(&b));
            }
            println!("=> {}", explore_case(&w));
        }
        // debugging aid: `pv c26 file <gt> <k> <lang> <path>`
        Some("file") => {
            install_hook();
            let b = std::fs::read(&args[4]).expect("file");
            let e = enc_bytes(&b);
            println!("=> {}", explore_case(&["x", &args[1], &args[2], &args[3], &e]));
        }
        _ => standard_cli(args, generate, run_case),
    }
}
