//! C03d: parol's whole LALR(1) path up to the table construction, tied to the Lean function
//! `parolLRGrammar` (lean/ParolModel/Model/FrontToBackLR.lean), and the REAL LALR(1) tables for the
//! oracle `parol-lr-check` (the hypotheses of `parol_lr_end_to_end`, Props/C03d.lean, evaluated on
//! real tables against the MODEL's grammar).
//!
//! Case line: `parol-lr-grammar <start> <ebnf>` — an EBNF grammar in the one-word encoding of
//! `ebnfenc.rs` (terminal `n` is the string literal `"t<n>"`). The harness renders it as PAR text
//! with `%grammar_type 'LALR(1)'` and runs the REAL pipeline in-process, exactly as
//! `parol::build::GrammarGenerator` composes it: `obtain_grammar_config_from_string` (parser →
//! `ParolGrammar` → `GrammarConfig::try_from` → `transform_productions(…, LALR1)`),
//! `check_and_transform_grammar(cfg, LALR1)` (two checks, `augment_grammar`), `update_cfg`.
//! Reply: the transformed grammar `<start> <prods>` (encoding of Model/CfgProto.lean) numbered with
//! the two functions `GrammarLalr::from(&Cfg)` uses (`get_non_terminal_index_function`,
//! `get_terminal_index_function`), i.e. exactly the grammar lalry sees; or `err <kind>[:<names>]`.
//!
//! Second request (implementation only; its reply is the tail of the oracle request):
//! `parol-lr-table <start> <ebnf>` → `<conflicts> <start> <prods> <rows>`: the number of resolved
//! conflicts and the real table of `calculate_lalr1_parse_table` +
//! `generate_lalr1_parser_export_model` in the encoding of `lrrun::enc_lr_tables`; or `err <kind>`.
use crate::ebnfenc::*;
use crate::rng::Rng;
use crate::util::*;
use parol::analysis::lalr1_parse_table::LRAction;
use parol::analysis::GrammarAnalysisError;
use parol::generators::parser_generator::generate_lalr1_parser_export_model;
use parol::grammar::cfg::{NonTerminalIndexFn, TerminalIndexFn};
use parol::parser::parol_grammar::GrammarType;
use parol::{
    calculate_lalr1_parse_table, check_and_transform_grammar, obtain_grammar_config_from_string, Cfg,
    GrammarConfig, Symbol, Terminal,
};
use parol_runtime::ParolError;

fn check_err_kind(e: &ParolError) -> String {
    let names = |v: Vec<&String>| v.iter().map(|s| s.as_str()).collect::<Vec<_>>().join(",");
    match e {
        ParolError::UserError(e) => match e.downcast_ref::<GrammarAnalysisError>() {
            Some(GrammarAnalysisError::NonProductiveNonTerminals { non_terminals }) => {
                format!("err np:{}", names(non_terminals.iter().map(|h| &h.hint).collect()))
            }
            Some(GrammarAnalysisError::UnreachableNonTerminals { non_terminals }) => {
                format!("err ur:{}", names(non_terminals.iter().map(|h| &h.hint).collect()))
            }
            Some(GrammarAnalysisError::LeftRecursion { recursions }) => {
                format!("err lr:{}", names(recursions.iter().map(|r| &r.name).collect()))
            }
            _ => "err check-other".into(),
        },
        _ => "err check-other".into(),
    }
}

/// front end + `check_and_transform_grammar(…, LALR1)` + `update_cfg`; `Err(reply)` for a refused
/// grammar
pub fn transformed_config_lr(st: &str, enc: &str) -> Option<Result<GrammarConfig, String>> {
    let par = enc_to_par("lr", st, enc)?;
    let mut gc = match obtain_grammar_config_from_string(&par, false) {
        Ok(gc) => gc,
        Err(e) => {
            let msg = e.chain().map(|c| c.to_string()).collect::<Vec<_>>().join(" / ");
            return Some(Err(
                if msg.contains("Empty Group not allowed")
                    || msg.contains("Empty Optionals not allowed")
                    || msg.contains("Empty Repetitions not allowed")
                    || msg.contains("Multiple token aliases")
                    || msg.contains("has no production")
                {
                    "err rejected".to_string()
                } else if msg.contains("Expected one alternation per production") {
                    "err finalize".to_string()
                } else {
                    format!("err front:{}", msg.replace(|c: char| !c.is_ascii_alphanumeric(), "_").chars().take(80).collect::<String>())
                },
            ));
        }
    };
    if gc.grammar_type != GrammarType::LALR1 || gc.cfg.st != st {
        return Some(Err("harness-error".into()));
    }
    let cfg = match check_and_transform_grammar(&gc.cfg, gc.grammar_type) {
        Ok(c) => c,
        Err(e) => return Some(Err(check_err_kind(&e))),
    };
    gc.update_cfg(cfg);
    Some(Ok(gc))
}

/// The grammar exactly as `GrammarLalr::from(&Cfg)` numbers it for lalry.
pub fn enc_numbered(cfg: &Cfg) -> String {
    let ti = cfg.get_terminal_index_function();
    let nti = cfg.get_non_terminal_index_function();
    let ps: Vec<String> = cfg
        .pr
        .iter()
        .map(|p| {
            let rhs: Vec<String> = p
                .get_r()
                .iter()
                .map(|s| match s {
                    Symbol::N(n, ..) => format!("n{}", nti.non_terminal_index(n)),
                    Symbol::T(Terminal::Trm(s, k, _, _, _, _, l)) => format!("t{}", ti.terminal_index(s, *k, l)),
                    _ => "!symbol".to_string(),
                })
                .collect();
            format!("{}:{}", nti.non_terminal_index(p.get_n_str()), rhs.join(","))
        })
        .collect();
    format!("{} {}", nti.non_terminal_index(&cfg.st), if ps.is_empty() { "-".to_string() } else { ps.join(";") })
}

/// `<conflicts> <start> <prods> <rows>` of the real table (encoding of `lrrun::enc_lr_tables`).
pub fn real_lr_table(mut gc: GrammarConfig) -> String {
    let r = std::panic::catch_unwind(std::panic::AssertUnwindSafe(|| calculate_lalr1_parse_table(&gc)));
    let (pt, conflicts) = match r {
        Err(_) => return "err lalr-panic".into(),
        Ok(Err(e)) => {
            return match e.downcast_ref::<GrammarAnalysisError>() {
                Some(GrammarAnalysisError::LALR1ParseTableConstructionFailed { .. }) => "err lalr-conflict".into(),
                _ if e.to_string().contains("involves the accept action") => "err lalr-accept-conflict".into(),
                _ => format!("err lalr-other:{}", e.to_string().replace(|c: char| !c.is_ascii_alphanumeric(), "_").chars().take(50).collect::<String>()),
            }
        }
        Ok(Ok(x)) => x,
    };
    gc.update_lookahead_size(1);
    let model = match generate_lalr1_parser_export_model(&gc, &pt) {
        Ok(m) => m,
        Err(e) => return format!("err export:{}", e.to_string().replace(|c: char| !c.is_ascii_alphanumeric(), "_").chars().take(50).collect::<String>()),
    };
    let ps: Vec<String> = model
        .productions
        .iter()
        .enumerate()
        .map(|(i, p)| {
            let push = gc.cfg.pr[i].2 == parol::grammar::ProductionAttribute::AddToCollection;
            format!("{}:{}:{}", p.lhs_index, p.rhs.len(), if push { 1 } else { 0 })
        })
        .collect();
    let sts: Vec<String> = pt
        .states
        .iter()
        .map(|st| {
            let acts: Vec<String> = st
                .actions
                .iter()
                .map(|(t, a)| match a {
                    LRAction::Shift(s) => format!("{t}:S:{s}"),
                    LRAction::Reduce(n, p) => format!("{t}:R:{n}:{p}"),
                    LRAction::Accept => format!("{t}:A"),
                })
                .collect();
            let gotos: Vec<String> = st.gotos.iter().map(|(n, s)| format!("{n}:{s}")).collect();
            format!(
                "{}/{}",
                if acts.is_empty() { "-".to_string() } else { acts.join("+") },
                if gotos.is_empty() { "-".to_string() } else { gotos.join("+") }
            )
        })
        .collect();
    format!(
        "{} {} {} {}",
        conflicts.len(),
        model.start_symbol_index,
        if ps.is_empty() { "-".into() } else { ps.join(";") },
        if sts.is_empty() { "-".into() } else { sts.join(";") }
    )
}

pub fn run_case(w: &[&str]) -> Option<String> {
    match w {
        ["parol-lr-grammar", st, enc] => Some(match transformed_config_lr(st, enc)? {
            Ok(gc) => enc_numbered(&gc.cfg),
            Err(reply) => reply,
        }),
        ["parol-lr-table", st, enc] => Some(match transformed_config_lr(st, enc)? {
            Ok(gc) => real_lr_table(gc),
            Err(reply) => reply,
        }),
        // diagnostic view: the augmented productions with names, the name table, the terminals
        ["parol-lr-named", st, enc] => Some(match transformed_config_lr(st, enc)? {
            Ok(gc) => {
                let names: Vec<String> = gc.cfg.get_non_terminal_set().into_iter().collect();
                let terms: Vec<String> = gc
                    .cfg
                    .get_ordered_terminals()
                    .iter()
                    .map(|t| t.0.strip_prefix('t').unwrap_or("?").to_string())
                    .collect();
                format!(
                    "ok {} {} {} {}",
                    gc.cfg.st,
                    show_prs(&gc.cfg.pr),
                    names.join(","),
                    if terms.is_empty() { "-".to_string() } else { terms.join(",") }
                )
            }
            Err(reply) => reply,
        }),
        _ => None,
    }
}

// ------------------------------------------------------------------------------------------------
// generators

/// LR-specific variations of a random EBNF grammar: a left-recursive alternative, the start symbol
/// on a right-hand side, a second production for the start symbol (all three force
/// `augment_grammar` to add `S' → S`), and start symbols whose names end in digits (the numeric
/// suffix rule of `generate_name`: `N00` is augmented by `N0`, `S9` by `S10`).
fn lr_tweaks(rng: &mut Rng, st: &mut String, prods: &mut Vec<(String, Vec<Vec<F>>)>) {
    if prods.is_empty() {
        return;
    }
    if rng.chance(1, 3) {
        let i = rng.below(prods.len());
        let name = prods[i].0.clone();
        let t = 5 + rng.below(4);
        let mut alt = vec![F::N(name, false), F::T(t)];
        if rng.chance(1, 3) {
            alt.push(F::N(rng.pick(prods).0.clone(), false));
        }
        prods[i].1.insert(0, alt);
    }
    if rng.chance(1, 4) {
        let i = rng.below(prods.len());
        let k = rng.below(prods[i].1.len());
        let inner = vec![vec![F::T(5 + rng.below(4)), F::N(st.clone(), false)]];
        let f = match rng.below(3) {
            0 => F::G(inner),
            1 => F::O(inner),
            _ => F::R(inner),
        };
        prods[i].1[k].push(f);
    }
    if rng.chance(1, 6) {
        prods.push((st.clone(), vec![vec![F::T(5 + rng.below(4))]]));
    }
    if rng.chance(1, 5) {
        // rename the start symbol to a name with a numeric suffix, sometimes with the successor
        // names taken
        let new = rng.pick(&["S9", "S09", "N1", "S18446744073709551615", "T0"]).to_string();
        if !prods.iter().any(|(n, _)| *n == new) {
            let old = st.clone();
            fn ren(alts: &mut Vec<Vec<F>>, old: &str, new: &str) {
                for a in alts.iter_mut() {
                    for f in a.iter_mut() {
                        match f {
                            F::N(n, _) if n == old => *n = new.to_string(),
                            F::G(x) | F::O(x) | F::R(x) => ren(x, old, new),
                            _ => {}
                        }
                    }
                }
            }
            for (n, alts) in prods.iter_mut() {
                if *n == old {
                    *n = new.clone();
                }
                ren(alts, &old, &new);
            }
            *st = new;
        }
    }
}

pub fn fixed_cases() -> Vec<String> {
    [
        // the non-vacuity example of Props/C03d.lean: S: {"a"} "b" | "c"; (two start productions:
        // augmented by S0; left-recursive repetition helper)
        "parol-lr-grammar S S:{5},6|7",
        // kept: one start production, start symbol not used
        "parol-lr-grammar S S:5,[6],{7}",
        // start symbol on a right-hand side (finding F1: must be augmented)
        "parol-lr-grammar S S:5,[S]",
        "parol-lr-grammar S S:5,{6,S},7",
        // left recursion is fine for LALR(1)
        "parol-lr-grammar E E:E,5,T|T;T:T,6,P|P;P:7|8,E,9",
        // numeric suffixes of the start symbol's name
        "parol-lr-grammar N00 N00:5|6",
        "parol-lr-grammar S9 S9:5|S10;S10:6",
        "parol-lr-grammar S S:5|S0,S1;S0:6;S1:7",
        "parol-lr-grammar S007 S007:5|6,S7;S7:7",
        // helper name clashes shift the alphabetical numbering
        "parol-lr-grammar S S:{5},SList;SList:6",
        "parol-lr-grammar A A:[5],AOpt|6;AOpt:6,[7]",
        // nested brackets, groups
        "parol-lr-grammar S S:{(5|[6],7)},8",
        "parol-lr-grammar S S:5,[6|7],{8|9,S},(5|6)",
        // rejected ones: unreachable, non-productive, undefined start; left recursion only is NOT rejected
        "parol-lr-grammar S S:5;T:6",
        "parol-lr-grammar S S:5,T;T:T,6",
        "parol-lr-grammar S T:5",
        "parol-lr-grammar S S:S,5|6",
        // not LALR(1): conflicts (table construction fails or resolves)
        "parol-lr-grammar S S:A,5|B,6;A:7;B:7",
        "parol-lr-grammar S S:5,S,S|6",
        // cyclic grammar (finding F24 territory for the runtime; the table is still validated)
        "parol-lr-grammar S S:A|5;A:S",
    ]
    .iter()
    .map(|s| s.to_string())
    .collect()
}

pub fn generate(seed: u64, thorough: bool) -> Vec<String> {
    let mut rng = Rng::new(seed ^ 0xC03D);
    let mut out = fixed_cases();
    let mut seen: std::collections::HashSet<String> = out.iter().cloned().collect();
    let want = if thorough { 2000 } else { 400 };
    let (mut accepted, mut rejected, mut tries) = (0usize, 0usize, 0usize);
    let (mut conflicting, mut not_lalr) = (0usize, 0usize);
    while accepted < want && tries < want * 60 {
        tries += 1;
        let (mut st, mut prods) = match tries % 5 {
            0 => random_ebnf(&mut rng, tries % 10 == 0),
            1 | 2 => crate::c01d::random_ll_ebnf(&mut rng, true),
            _ => crate::c01d::random_ll_ebnf(&mut rng, false),
        };
        lr_tweaks(&mut rng, &mut st, &mut prods);
        let enc = show_ebnf(&prods);
        if enc.len() > 300 {
            continue;
        }
        let line = format!("parol-lr-grammar {st} {enc}");
        if seen.contains(&line) {
            continue;
        }
        let words: Vec<&str> = line.split(' ').collect();
        let reply = std::panic::catch_unwind(|| run_case(&words)).ok().flatten();
        match reply {
            Some(r) if !r.starts_with("err") && r != "harness-error" => {
                // the real table decides how the case counts: conflict-free tables (the ones the full
                // theorem speaks about) make up at least two thirds; big automata are left out (the
                // validators and the word enumeration of the oracle are quadratic in the table)
                let twords = ["parol-lr-table", words[1], words[2]];
                let t = std::panic::catch_unwind(|| run_case(&twords)).ok().flatten().unwrap_or_default();
                let tw: Vec<&str> = t.split(' ').collect();
                if tw.len() == 4 && tw[0] != "err" {
                    if tw[3].split(';').count() > 40 {
                        continue;
                    }
                    if tw[0] != "0" {
                        if conflicting * 3 >= accepted + 30 {
                            continue;
                        }
                        conflicting += 1;
                    }
                } else {
                    if not_lalr * 10 >= accepted + 50 {
                        continue;
                    }
                    not_lalr += 1;
                }
                accepted += 1
            }
            _ => {
                // rejected grammars: at most a third of the cases
                if rejected * 2 >= accepted + 40 {
                    continue;
                }
                rejected += 1;
            }
        }
        seen.insert(line.clone());
        out.push(line);
    }
    out
}

pub fn cli(args: &[String]) {
    standard_cli(args, generate, run_case)
}
