use std::io::{BufRead, Write};

pub fn show_nats<T: std::fmt::Display>(v: &[T]) -> String {
    if v.is_empty() {
        "-".to_string()
    } else {
        v.iter().map(|x| x.to_string()).collect::<Vec<_>>().join(",")
    }
}

pub fn parse_nats<T: std::str::FromStr>(s: &str) -> Option<Vec<T>> {
    if s == "-" {
        return Some(vec![]);
    }
    s.split(',').map(|x| x.parse::<T>().ok()).collect()
}

/// Runs `f` on every stdin line inside `catch_unwind`; a panic becomes the reply `panic`.
pub fn run_lines(f: impl Fn(&[&str]) -> Option<String> + std::panic::RefUnwindSafe) {
    let stdin = std::io::stdin();
    std::panic::set_hook(Box::new(|_| {}));
    for line in stdin.lock().lines() {
        let line = line.unwrap();
        let words: Vec<&str> = line.split_whitespace().collect();
        let r = std::panic::catch_unwind(|| f(&words));
        let reply = match r {
            Ok(Some(s)) => s,
            Ok(None) => "bad-op".to_string(),
            Err(_) => "panic".to_string(),
        };
        // Replies are prefixed and written through the same line-buffered stdout handle the code
        // under test uses (parol reports resolved LALR conflicts with println!), so that lines never
        // interleave; the orchestrator keeps only the `@@ ` lines.
        println!("@@ {reply}");
    }
    std::io::stdout().flush().unwrap();
}

/// Standard command line of a property module: `gen <seed> <quick|thorough>` prints cases,
/// `run` answers cases from stdin.
pub fn standard_cli(
    args: &[String],
    generate: impl Fn(u64, bool) -> Vec<String>,
    run_case: impl Fn(&[&str]) -> Option<String> + std::panic::RefUnwindSafe,
) {
    match args.first().map(|s| s.as_str()) {
        Some("gen") => {
            // generators probe the real pipeline under catch_unwind: keep panics silent
            std::panic::set_hook(Box::new(|_| {}));
            let seed: u64 = args.get(1).and_then(|s| s.parse().ok()).unwrap_or(0);
            let thorough = args.get(2).map(|s| s == "thorough").unwrap_or(false);
            // case lines are prefixed for the same reason as replies (see `run_lines`)
            let cases = generate(seed, thorough);
            let mut s = String::new();
            for c in cases {
                s.push_str("@@ ");
                s.push_str(&c);
                s.push('\n');
            }
            std::io::stdout().write_all(s.as_bytes()).unwrap();
        }
        Some("run") => run_lines(run_case),
        _ => {
            eprintln!("usage: gen <seed> <quick|thorough> | run");
            std::process::exit(2);
        }
    }
}
