//! Lowering of `regex-syntax` HIR (the parser scnr2 itself uses, with the same default
//! configuration: `regex_syntax::parse`) to the model's `Re` (lean/ParolModel/Model/Regex.lean):
//! classes over code points, concatenation, alternation, star. Bounded repetitions are unrolled
//! the way scnr2's NFA builder does. Look-around assertions, non-greedy repetitions and non-ASCII
//! byte classes are unsupported (the case is then skipped and counted).
use regex_syntax::hir::{Class, Hir, HirKind};

#[derive(Clone, Debug, PartialEq, Eq)]
pub enum Re {
    Empty,
    Eps,
    Cls(Vec<(u32, u32)>),
    Cat(Box<Re>, Box<Re>),
    Alt(Box<Re>, Box<Re>),
    Star(Box<Re>),
}

pub fn seq(mut v: Vec<Re>) -> Re {
    match v.len() {
        0 => Re::Eps,
        1 => v.pop().unwrap(),
        _ => {
            let first = v.remove(0);
            Re::Cat(Box::new(first), Box::new(seq(v)))
        }
    }
}

pub fn alts(mut v: Vec<Re>) -> Re {
    match v.len() {
        0 => Re::Empty,
        1 => v.pop().unwrap(),
        _ => {
            let first = v.remove(0);
            Re::Alt(Box::new(first), Box::new(alts(v)))
        }
    }
}

pub fn lower(h: &Hir) -> Result<Re, String> {
    match h.kind() {
        HirKind::Empty => Ok(Re::Eps),
        HirKind::Literal(l) => {
            let s = std::str::from_utf8(&l.0).map_err(|_| "non-utf8-literal".to_string())?;
            Ok(seq(s.chars().map(|c| Re::Cls(vec![(c as u32, c as u32)])).collect()))
        }
        HirKind::Class(Class::Unicode(c)) => Ok(Re::Cls(
            c.ranges().iter().map(|r| (r.start() as u32, r.end() as u32)).collect(),
        )),
        HirKind::Class(Class::Bytes(c)) => {
            if c.is_ascii() {
                Ok(Re::Cls(c.ranges().iter().map(|r| (r.start() as u32, r.end() as u32)).collect()))
            } else {
                Err("byte-class".into())
            }
        }
        HirKind::Look(_) => Err("look".into()),
        HirKind::Repetition(r) => {
            if !r.greedy {
                return Err("non-greedy".into());
            }
            let sub = lower(&r.sub)?;
            let mut parts: Vec<Re> = vec![];
            for _ in 0..r.min {
                parts.push(sub.clone());
            }
            match r.max {
                Some(max) => {
                    if max < r.min || max - r.min > 64 {
                        return Err("repetition-bounds".into());
                    }
                    for _ in r.min..max {
                        parts.push(Re::Alt(Box::new(sub.clone()), Box::new(Re::Eps)));
                    }
                }
                None => parts.push(Re::Star(Box::new(sub.clone()))),
            }
            if r.min > 64 {
                return Err("repetition-bounds".into());
            }
            Ok(seq(parts))
        }
        HirKind::Capture(c) => lower(&c.sub),
        HirKind::Concat(hs) => Ok(seq(hs.iter().map(lower).collect::<Result<Vec<_>, _>>()?)),
        HirKind::Alternation(hs) => Ok(alts(hs.iter().map(lower).collect::<Result<Vec<_>, _>>()?)),
    }
}

/// Parses a regex text exactly as scnr2 does and lowers it.
pub fn lower_str(rx: &str) -> Result<Re, String> {
    let hir = regex_syntax::parse(rx).map_err(|_| "regex-syntax-error".to_string())?;
    lower(&hir)
}

/// If the regex is a literal string (as a delimiter should be): its characters.
pub fn literal_meaning(rx: &str) -> Option<Vec<u32>> {
    let hir = regex_syntax::parse(rx).ok()?;
    match hir.kind() {
        HirKind::Literal(l) => {
            let s = std::str::from_utf8(&l.0).ok()?;
            Some(s.chars().map(|c| c as u32).collect())
        }
        // a one-character class written as a literal (e.g. case-insensitive flags) is not literal
        _ => None,
    }
}

impl Re {
    /// One-word protocol encoding (prefix notation), see Model/Regex.lean.
    pub fn enc(&self) -> String {
        let mut s = String::new();
        self.enc_into(&mut s);
        s
    }
    fn enc_into(&self, s: &mut String) {
        match self {
            Re::Empty => s.push('z'),
            Re::Eps => s.push('e'),
            Re::Cls(rs) => {
                s.push('[');
                for (i, (a, b)) in rs.iter().enumerate() {
                    if i > 0 {
                        s.push(',');
                    }
                    s.push_str(&format!("{a}-{b}"));
                }
                s.push(']');
            }
            Re::Cat(a, b) => {
                s.push('.');
                a.enc_into(s);
                b.enc_into(s);
            }
            Re::Alt(a, b) => {
                s.push('|');
                a.enc_into(s);
                b.enc_into(s);
            }
            Re::Star(a) => {
                s.push('*');
                a.enc_into(s);
            }
        }
    }
    /// Lean term of type `ParolModel.Re`.
    pub fn lean(&self) -> String {
        match self {
            Re::Empty => "Re.empty".into(),
            Re::Eps => "Re.eps".into(),
            Re::Cls(rs) => format!(
                "(Re.cls ⟨[{}], false⟩)",
                rs.iter().map(|(a, b)| format!("({a}, {b})")).collect::<Vec<_>>().join(", ")
            ),
            Re::Cat(a, b) => format!("(Re.cat {} {})", a.lean(), b.lean()),
            Re::Alt(a, b) => format!("(Re.alt {} {})", a.lean(), b.lean()),
            Re::Star(a) => format!("(Re.star {})", a.lean()),
        }
    }
    pub fn size(&self) -> usize {
        match self {
            Re::Empty | Re::Eps | Re::Cls(_) => 1,
            Re::Cat(a, b) | Re::Alt(a, b) => 1 + a.size() + b.size(),
            Re::Star(a) => 1 + a.size(),
        }
    }
}

pub fn cps(s: &str) -> String {
    crate::util::show_nats(&s.chars().map(|c| c as u32).collect::<Vec<_>>())
}

pub fn from_cps(s: &str) -> Option<String> {
    let v: Vec<u32> = crate::util::parse_nats(s)?;
    v.into_iter().map(char::from_u32).collect()
}

/// Lean string literal.
pub fn lean_str(s: &str) -> String {
    let mut o = String::from("\"");
    for c in s.chars() {
        match c {
            '"' => o.push_str("\\\""),
            '\\' => o.push_str("\\\\"),
            '\n' => o.push_str("\\n"),
            '\r' => o.push_str("\\r"),
            '\t' => o.push_str("\\t"),
            c if (c as u32) < 0x20 || (c as u32) == 0x7f => o.push_str(&format!("\\x{:02x}", c as u32)),
            c => o.push(c),
        }
    }
    o.push('"');
    o
}
