//! C33: generated identifiers are unique and valid.
//!
//! (a) Differential tie on the pure naming functions (all reached through public paths):
//!     `camel|snake|esckw|purge <s>`, `unused <0|1> <s>` -> `NamingHelper::*`;
//!     `tname <s>` -> `generate_terminal_name(s, None, None, &Cfg::default())` (the private inner
//!     `generate_name`); `gname33 <names> <i>` -> `utils::generate_name` as reached through
//!     `augment_grammar` (exclusions = non-terminal set, preferred = start symbol);
//!     `tnames <cfg> <prods> <terms>` -> `lexer_generator::generate_terminal_names(&GrammarConfig)` and
//!     `GrammarConfig::generate_terminal_names()` on a `Cfg` built from `<cfg>`; `<prods>`/`<terms>` are
//!     the summaries the Lean model works on, re-derived here with the real `TerminalKind::expand` /
//!     `Cfg::get_ordered_terminals` and compared (reply `summary-mismatch` if they differ).
//! (b) `src <par-text>`: the parser and user-trait sources are generated in-process with the real
//!     generators; identifiers are extracted per scope from the token stream of the generated text and
//!     printed as facts (`S:<mode>:<scope>:<names>` — names of one scope, `P:<label>:<a=b,…>` — a
//!     relation that has to be functional and injective). The decision is made by the Lean oracles
//!     `names-check` / `pairs-check` (see checks/c33.py).
//!
//! Strings on the wire: `[A-Za-z0-9_]` literal, other characters `%HH` / `%{H…}`, empty string `%.`.
use crate::rng::Rng;
use crate::util::*;
use parol::generators::naming_helper::NamingHelper;
use parol::parser::parol_grammar::LookaheadExpression;
use parol::{Cfg, GrammarConfig, Pr, Symbol, SymbolAttribute, Terminal, TerminalKind};
use std::collections::BTreeMap;

// ------------------------------------------------------------------------------------------------
// wire format

pub fn enc(s: &str) -> String {
    if s.is_empty() {
        return "%.".to_string();
    }
    let mut o = String::new();
    for c in s.chars() {
        if c.is_ascii_alphanumeric() || c == '_' {
            o.push(c);
        } else if (c as u32) < 256 {
            o.push_str(&format!("%{:02X}", c as u32));
        } else {
            o.push_str(&format!("%{{{:X}}}", c as u32));
        }
    }
    o
}

pub fn dec(w: &str) -> Option<String> {
    if w == "%." {
        return Some(String::new());
    }
    if w.is_empty() {
        return None;
    }
    let cs: Vec<char> = w.chars().collect();
    let mut o = String::new();
    let mut i = 0;
    while i < cs.len() {
        let c = cs[i];
        if c == '%' {
            if i + 1 < cs.len() && cs[i + 1] == '{' {
                let j = (i + 2..cs.len()).find(|&j| cs[j] == '}')?;
                let h: String = cs[i + 2..j].iter().collect();
                o.push(char::from_u32(u32::from_str_radix(&h, 16).ok()?)?);
                i = j + 1;
            } else if i + 2 < cs.len() {
                let h: String = cs[i + 1..i + 3].iter().collect();
                o.push(char::from_u32(u32::from_str_radix(&h, 16).ok()?)?);
                i += 3;
            } else {
                return None;
            }
        } else if c.is_ascii_alphanumeric() || c == '_' {
            o.push(c);
            i += 1;
        } else {
            return None;
        }
    }
    Some(o)
}

pub fn enc_list<S: AsRef<str>>(l: &[S]) -> String {
    if l.is_empty() {
        "-".to_string()
    } else {
        l.iter().map(|s| enc(s.as_ref())).collect::<Vec<_>>().join(",")
    }
}

pub fn dec_list(w: &str) -> Option<Vec<String>> {
    if w == "-" {
        return Some(vec![]);
    }
    w.split(',').map(dec).collect()
}

/// Characters on which the Lean model is exact: ASCII and '§'.
fn in_scope(s: &str) -> bool {
    s.chars().all(|c| (c as u32) < 128 || c == '§')
}

// ------------------------------------------------------------------------------------------------
// direct Cfg encoding for `tnames`: productions `lhs:sym+sym…` joined by `;`,
// sym = `n/<name>` | `t/<kind>/<text>` | `t/<kind>/<text>/<p|n>/<kind>/<pattern>`, kind = l|x|r

fn kind_char(k: TerminalKind) -> char {
    match k {
        TerminalKind::Legacy => 'l',
        TerminalKind::Regex => 'x',
        TerminalKind::Raw => 'r',
    }
}

fn kind_of(c: &str) -> Option<TerminalKind> {
    match c {
        "l" => Some(TerminalKind::Legacy),
        "x" => Some(TerminalKind::Regex),
        "r" => Some(TerminalKind::Raw),
        _ => None,
    }
}

fn la_key(l: &Option<LookaheadExpression>) -> String {
    match l {
        None => "~".to_string(),
        Some(l) => enc(&format!(
            "{}{}{}",
            if l.is_positive { '+' } else { '-' },
            kind_char(l.kind),
            l.pattern
        )),
    }
}

fn sym_enc(s: &Symbol) -> String {
    match s {
        Symbol::N(n, ..) => format!("n/{}", enc(n)),
        Symbol::T(Terminal::Trm(t, k, _, _, _, _, l)) => match l {
            None => format!("t/{}/{}", kind_char(*k), enc(t)),
            Some(l) => format!(
                "t/{}/{}/{}/{}/{}",
                kind_char(*k),
                enc(t),
                if l.is_positive { 'p' } else { 'n' },
                kind_char(l.kind),
                enc(&l.pattern)
            ),
        },
        _ => "?".to_string(),
    }
}

fn cfg_enc(cfg: &Cfg) -> String {
    if cfg.pr.is_empty() {
        return "-".to_string();
    }
    cfg.pr
        .iter()
        .map(|p| {
            format!(
                "{}:{}",
                enc(&p.get_n()),
                p.get_r().iter().map(sym_enc).collect::<Vec<_>>().join("+")
            )
        })
        .collect::<Vec<_>>()
        .join(";")
}

fn sym_dec(w: &str) -> Option<Symbol> {
    let p: Vec<&str> = w.split('/').collect();
    match p.as_slice() {
        ["n", n] => Some(Symbol::n(&dec(n)?)),
        ["t", k, t] => Some(Symbol::T(Terminal::Trm(
            dec(t)?,
            kind_of(k)?,
            vec![0],
            SymbolAttribute::None,
            None,
            None,
            None,
        ))),
        ["t", k, t, sign, lk, pat] => Some(Symbol::T(Terminal::Trm(
            dec(t)?,
            kind_of(k)?,
            vec![0],
            SymbolAttribute::None,
            None,
            None,
            Some(LookaheadExpression {
                is_positive: match *sign {
                    "p" => true,
                    "n" => false,
                    _ => return None,
                },
                pattern: dec(pat)?,
                kind: kind_of(lk)?,
            }),
        ))),
        _ => None,
    }
}

fn cfg_dec(w: &str) -> Option<Cfg> {
    if w == "-" {
        return Some(Cfg::default());
    }
    let mut cfg: Option<Cfg> = None;
    for p in w.split(';') {
        let (l, r) = p.split_once(':')?;
        let l = dec(l)?;
        let rhs: Vec<Symbol> = if r.is_empty() {
            vec![]
        } else {
            r.split('+').map(sym_dec).collect::<Option<Vec<_>>>()?
        };
        let c = cfg.take().unwrap_or_else(|| Cfg::with_start_symbol(&l));
        cfg = Some(c.add_pr(Pr::new(&l, rhs)));
    }
    cfg
}

/// `<prods>` summary: `lhs` or `lhs=expanded=la` joined by `;` (what `primary_non_terminal` looks at).
fn prod_summary(cfg: &Cfg) -> String {
    if cfg.pr.is_empty() {
        return "-".to_string();
    }
    cfg.pr
        .iter()
        .map(|p| {
            if p.len() == 1 {
                if let Symbol::T(Terminal::Trm(t, k, _, _, _, _, l)) = &p.get_r()[0] {
                    return format!("{}={}={}", enc(&p.get_n()), enc(&k.expand(t)), la_key(l));
                }
            }
            enc(&p.get_n())
        })
        .collect::<Vec<_>>()
        .join(";")
}

/// `<terms>` summary: `raw=expanded=la` joined by `;` in the order of `get_ordered_terminals`.
fn term_summary(cfg: &Cfg) -> String {
    let ts = cfg.get_ordered_terminals();
    if ts.is_empty() {
        return "-".to_string();
    }
    ts.iter()
        .map(|(t, k, l, _)| format!("{}={}={}", enc(t), enc(&k.expand(t)), la_key(l)))
        .collect::<Vec<_>>()
        .join(";")
}

fn cfg_in_scope(cfg: &Cfg) -> bool {
    cfg.pr.iter().all(|p| {
        in_scope(&p.get_n())
            && p.get_r().iter().all(|s| match s {
                Symbol::N(n, ..) => in_scope(n),
                Symbol::T(Terminal::Trm(t, k, _, _, _, _, l)) => {
                    in_scope(t)
                        && in_scope(&k.expand(t))
                        && l.as_ref().map(|l| in_scope(&l.pattern)).unwrap_or(true)
                }
                _ => true,
            })
    })
}

// ------------------------------------------------------------------------------------------------
// the implementation side of the protocol

fn pure1(w: &str, f: impl Fn(&str) -> String) -> Option<String> {
    let s = dec(w)?;
    if !in_scope(&s) {
        return Some("out-of-scope".to_string());
    }
    Some(enc(&f(&s)))
}

pub fn run_case(w: &[&str]) -> Option<String> {
    match w {
        ["camel", s] => pure1(s, NamingHelper::to_upper_camel_case),
        ["snake", s] => pure1(s, NamingHelper::to_lower_snake_case),
        ["esckw", s] => pure1(s, |s| NamingHelper::escape_rust_keyword(s.to_string())),
        ["purge", s] => pure1(s, NamingHelper::purge_name),
        ["unused", u, s] => {
            let used = match *u {
                "1" => true,
                "0" => false,
                _ => return None,
            };
            pure1(s, |s| NamingHelper::add_unused_indicator(used, s))
        }
        ["tname", s] => pure1(s, |s| {
            parol::generators::generate_terminal_name(s, None, None, &Cfg::default())
        }),
        ["gname33", names, i] => {
            let names = dec_list(names)?;
            let i: usize = i.parse().ok()?;
            let start = names.get(i)?.clone();
            if !names.iter().all(|n| in_scope(n)) {
                return Some("out-of-scope".to_string());
            }
            // every listed name becomes a non-terminal; the start symbol occurs on right-hand sides, so
            // that `augment_grammar` always generates a new start symbol with
            // `generate_name(non_terminal_set, start)`
            let mut cfg = Cfg::with_start_symbol(&start);
            for n in &names {
                cfg = cfg.add_pr(Pr::new(n, vec![Symbol::n(&start)]));
            }
            let aug = parol::augment_grammar(&cfg);
            if aug.pr.len() != cfg.pr.len() + 1 {
                return Some("not-augmented".to_string());
            }
            Some(enc(&aug.st))
        }
        ["tnames", c, ps, ts] => {
            let cfg = cfg_dec(c)?;
            if !cfg_in_scope(&cfg) {
                return Some("out-of-scope".to_string());
            }
            if prod_summary(&cfg) != *ps || term_summary(&cfg) != *ts {
                return Some("summary-mismatch".to_string());
            }
            let gc = GrammarConfig::new(cfg, 1);
            let a = parol::generators::generate_terminal_names(&gc);
            let b: Vec<String> = gc.generate_terminal_names().into_iter().map(|(_, n)| n).collect();
            Some(format!("{} {}", enc_list(&a), enc_list(&b)))
        }
        ["src", par] => Some(src_case(&dec(par)?)),
        _ => None,
    }
}

// ------------------------------------------------------------------------------------------------
// (b) generated sources

pub struct Sources {
    pub parser: String,
    pub user_trait: String,
    pub node_kind_terminals: Vec<String>,
    /// non-terminal names of the expanded grammar (for attributing failures to known findings)
    pub non_terminals: Vec<String>,
    /// expanded terminal texts
    pub terminals: Vec<String>,
}

fn classify_err(e: &anyhow::Error) -> &'static str {
    let s = format!("{e:?}");
    if s.contains("Multiple token aliases") {
        "token-alias"
    } else if s.contains("Failed parsing") || s.contains("syntax") || s.contains("Syntax") {
        "syntax"
    } else {
        "analysis"
    }
}

/// parser + user-trait text for one PAR grammar, produced by the real generators (no rustfmt).
pub fn generate_sources(par: &str) -> Result<Sources, String> {
    use parol::build::Builder;
    use parol::generators::{GrammarTypeInfo, UserTraitGenerator};
    let mut gc =
        parol::obtain_grammar_config_from_string(par, false).map_err(|e| {
            if std::env::var("C33_DEBUG").is_ok() {
                eprintln!("{e:?}");
            }
            classify_err(&e).to_string()
        })?;
    let cfg = parol::generators::check_and_transform_grammar(&gc.cfg, gc.grammar_type)
        .map_err(|_| "transform".to_string())?;
    gc.update_cfg(cfg);
    let mut builder = Builder::with_explicit_output_dir(std::env::temp_dir());
    builder.user_type_name("Gr").user_trait_module_name("gr");
    let node_kind_terminals: Vec<String> =
        gc.generate_terminal_names().into_iter().map(|(_, n)| n).collect();
    let non_terminals: Vec<String> = gc.cfg.get_non_terminal_set().into_iter().collect();
    let terminals: Vec<String> =
        gc.cfg.get_ordered_terminals().iter().map(|(t, k, _, _)| k.expand(t)).collect();
    match gc.grammar_type {
        parol::parser::parol_grammar::GrammarType::LLK => {
            let la = parol::calculate_lookahead_dfas(&gc, 5).map_err(|_| "not-llk".to_string())?;
            let k = la.values().map(|d| d.k).max().unwrap_or(0);
            gc.update_lookahead_size(k);
            let lexer = parol::generators::generate_lexer_source(&gc, &builder)
                .map_err(|_| "lexer-gen".to_string())?;
            let mut ti = GrammarTypeInfo::try_new("Gr").map_err(|_| "type-info".to_string())?;
            let user_trait = UserTraitGenerator::new(&gc)
                .generate_user_trait_source(&builder, gc.grammar_type, &mut ti)
                .map_err(|_| "trait-gen".to_string())?;
            let parser = parol::generators::generate_parser_source(&gc, &lexer, &builder, &la, true)
                .map_err(|_| "parser-gen".to_string())?;
            Ok(Sources { parser, user_trait, node_kind_terminals, non_terminals, terminals })
        }
        parol::parser::parol_grammar::GrammarType::LALR1 => {
            let (table, _) =
                parol::calculate_lalr1_parse_table(&gc).map_err(|_| "not-lalr".to_string())?;
            gc.update_lookahead_size(1);
            let lexer = parol::generators::generate_lexer_source(&gc, &builder)
                .map_err(|_| "lexer-gen".to_string())?;
            let mut ti = GrammarTypeInfo::try_new("Gr").map_err(|_| "type-info".to_string())?;
            let user_trait = UserTraitGenerator::new(&gc)
                .generate_user_trait_source(&builder, gc.grammar_type, &mut ti)
                .map_err(|_| "trait-gen".to_string())?;
            let parser =
                parol::generators::generate_lalr1_parser_source(&gc, &lexer, &builder, &table, true)
                    .map_err(|_| "parser-gen".to_string())?;
            Ok(Sources { parser, user_trait, node_kind_terminals, non_terminals, terminals })
        }
    }
}

fn src_case(par: &str) -> String {
    match generate_sources(par) {
        Err(e) => format!("reject {e}"),
        Ok(s) => {
            let facts = extract_facts(&s);
            format!("ok {}", facts.join(" "))
        }
    }
}

// ------------------------------------------------------------------------------------------------
// a small Rust tokenizer (layout independent; doc comments are kept because the generated adapters
// are located through them)

#[derive(Clone, Debug, PartialEq)]
pub enum Tok {
    Id(String),
    Doc(String),
    Str(String),
    Life(String),
    Num(String),
    P(String),
}

impl Tok {
    fn is_p(&self, p: &str) -> bool {
        matches!(self, Tok::P(q) if q == p)
    }
    fn is_id(&self, s: &str) -> bool {
        matches!(self, Tok::Id(q) if q == s)
    }
    fn id(&self) -> Option<&str> {
        match self {
            Tok::Id(s) => Some(s),
            _ => None,
        }
    }
}

fn id_start(c: char) -> bool {
    c == '_' || c.is_alphabetic()
}
fn id_cont(c: char) -> bool {
    c == '_' || c.is_alphanumeric()
}

pub fn tokenize(src: &str) -> Vec<Tok> {
    let cs: Vec<char> = src.chars().collect();
    let n = cs.len();
    let mut i = 0;
    let mut out = vec![];
    while i < n {
        let c = cs[i];
        if c.is_whitespace() {
            i += 1;
        } else if c == '/' && i + 1 < n && cs[i + 1] == '/' {
            let j = (i..n).find(|&j| cs[j] == '\n').unwrap_or(n);
            if i + 2 < n && cs[i + 2] == '/' && !(i + 3 < n && cs[i + 3] == '/') {
                out.push(Tok::Doc(cs[i + 3..j].iter().collect::<String>().trim().to_string()));
            }
            i = j;
        } else if c == '/' && i + 1 < n && cs[i + 1] == '*' {
            let mut j = i + 2;
            while j + 1 < n && !(cs[j] == '*' && cs[j + 1] == '/') {
                j += 1;
            }
            i = (j + 2).min(n);
        } else if c == 'r' && i + 1 < n && (cs[i + 1] == '"' || (cs[i + 1] == '#' && {
            let mut j = i + 1;
            while j < n && cs[j] == '#' {
                j += 1;
            }
            j < n && cs[j] == '"'
        })) {
            // raw string r"…" / r#"…"#
            let mut j = i + 1;
            let mut hashes = 0;
            while cs[j] == '#' {
                hashes += 1;
                j += 1;
            }
            j += 1;
            let st = j;
            loop {
                if j >= n {
                    break;
                }
                if cs[j] == '"' && (1..=hashes).all(|h| j + h < n && cs[j + h] == '#') {
                    break;
                }
                j += 1;
            }
            out.push(Tok::Str(cs[st..j.min(n)].iter().collect()));
            i = (j + 1 + hashes).min(n);
        } else if c == 'r' && i + 2 < n && cs[i + 1] == '#' && id_start(cs[i + 2]) {
            let mut j = i + 2;
            while j < n && id_cont(cs[j]) {
                j += 1;
            }
            out.push(Tok::Id(cs[i..j].iter().collect()));
            i = j;
        } else if id_start(c) {
            let mut j = i;
            while j < n && id_cont(cs[j]) {
                j += 1;
            }
            out.push(Tok::Id(cs[i..j].iter().collect()));
            i = j;
        } else if c.is_ascii_digit() {
            let mut j = i;
            while j < n && id_cont(cs[j]) {
                j += 1;
            }
            out.push(Tok::Num(cs[i..j].iter().collect()));
            i = j;
        } else if c == '"' {
            let mut j = i + 1;
            let mut s = String::new();
            while j < n && cs[j] != '"' {
                if cs[j] == '\\' && j + 1 < n {
                    s.push(cs[j]);
                    j += 1;
                }
                s.push(cs[j]);
                j += 1;
            }
            out.push(Tok::Str(s));
            i = j + 1;
        } else if c == '\'' {
            // lifetime or char literal
            if i + 1 < n && id_start(cs[i + 1]) {
                let mut j = i + 1;
                while j < n && id_cont(cs[j]) {
                    j += 1;
                }
                if j < n && cs[j] == '\'' {
                    out.push(Tok::Str(cs[i + 1..j].iter().collect()));
                    i = j + 1;
                } else {
                    out.push(Tok::Life(cs[i + 1..j].iter().collect()));
                    i = j;
                }
            } else {
                let mut j = i + 1;
                while j < n && cs[j] != '\'' {
                    if cs[j] == '\\' {
                        j += 1;
                    }
                    j += 1;
                }
                out.push(Tok::Str(cs[(i + 1).min(n)..j.min(n)].iter().collect()));
                i = j + 1;
            }
        } else {
            let two: String = cs[i..(i + 2).min(n)].iter().collect();
            if two == "::" || two == "->" || two == "=>" {
                out.push(Tok::P(two));
                i += 2;
            } else {
                out.push(Tok::P(c.to_string()));
                i += 1;
            }
        }
    }
    out
}

/// index of the token that closes the bracket opened at `open` (`{`/`(`/`[`), or `t.len()`
fn matching(t: &[Tok], open: usize) -> usize {
    let (o, c) = match &t[open] {
        Tok::P(p) if p == "{" => ("{", "}"),
        Tok::P(p) if p == "(" => ("(", ")"),
        Tok::P(p) if p == "[" => ("[", "]"),
        _ => return open,
    };
    let mut d = 0usize;
    for (j, tk) in t.iter().enumerate().skip(open) {
        if tk.is_p(o) {
            d += 1;
        } else if tk.is_p(c) {
            d -= 1;
            if d == 0 {
                return j;
            }
        }
    }
    t.len()
}

/// Splits the token range (lo, hi) (exclusive bounds = contents of a bracket) at top-level commas
/// (nesting by (), [], {} and <>).
fn split_commas(t: &[Tok], lo: usize, hi: usize) -> Vec<(usize, usize)> {
    let mut res = vec![];
    let mut d = 0i32;
    let mut st = lo;
    for j in lo..hi {
        match &t[j] {
            Tok::P(p) if p == "(" || p == "[" || p == "{" || p == "<" => d += 1,
            Tok::P(p) if p == ")" || p == "]" || p == "}" || p == ">" => d -= 1,
            Tok::P(p) if p == "," && d == 0 => {
                res.push((st, j));
                st = j + 1;
            }
            _ => {}
        }
    }
    if st < hi {
        res.push((st, hi));
    }
    res
}

/// Strips `#[…]` attributes and a `pub` / `pub(crate)` prefix.
fn skip_attrs_vis(t: &[Tok], mut i: usize, hi: usize) -> usize {
    loop {
        if i < hi && t[i].is_p("#") {
            let mut j = i + 1;
            if j < hi && t[j].is_p("!") {
                j += 1;
            }
            if j < hi && t[j].is_p("[") {
                i = matching(t, j) + 1;
                continue;
            }
        }
        if i < hi && t[i].is_id("pub") {
            i += 1;
            if i < hi && t[i].is_p("(") {
                i = matching(t, i) + 1;
            }
            continue;
        }
        return i;
    }
}

/// the name expected at position i: an identifier, or "" if something else stands there
fn name_at(t: &[Tok], i: usize) -> String {
    t.get(i).and_then(|x| x.id()).unwrap_or("").to_string()
}

#[derive(Default, Debug)]
pub struct Facts {
    /// (mode, scope label, names)
    pub scopes: Vec<(String, String, Vec<String>)>,
    /// relation label -> pairs
    pub rel: BTreeMap<String, Vec<(String, String)>>,
}

fn first_word_of_production(doc: &str) -> String {
    // "`ListOpt /* Option<T>::Some */: Items : Numbers;`" -> "ListOpt"
    doc.trim_start_matches('`').chars().take_while(|c| id_cont(*c) || *c == '#').collect()
}

fn fn_params(t: &[Tok], open: usize, close: usize) -> Vec<String> {
    let mut ps = vec![];
    for (a, b) in split_commas(t, open + 1, close) {
        let mut i = a;
        while i < b && (t[i].is_p("&") || t[i].is_id("mut") || matches!(t[i], Tok::Life(_))) {
            i += 1;
        }
        if i < b && t[i].is_id("self") {
            continue;
        }
        ps.push(name_at(t, i));
    }
    ps
}

/// last identifier inside a variant payload `( … )` that is not a wrapper
fn payload_core(t: &[Tok], lo: usize, hi: usize) -> String {
    let mut core = String::new();
    for tk in &t[lo..hi] {
        if let Tok::Id(s) = tk {
            core = s.clone();
        }
    }
    core
}

pub fn extract_trait_facts(src: &str, f: &mut Facts) {
    let t = tokenize(src);
    let n = t.len();
    let mut types: Vec<String> = vec![];
    let mut ast_enum = String::from("ASTType");
    let mut enum_payload: BTreeMap<(String, String), String> = BTreeMap::new();
    let mut docs: Vec<String> = vec![];
    let mut impl_no = 0;
    let mut pushes: Vec<(String, String)> = vec![]; // (lhs, variant) resolved after the scan
    let mut i = 0;
    let rel = |f: &mut Facts, l: &str, a: &str, b: &str| {
        f.rel.entry(l.to_string()).or_default().push((a.to_string(), b.to_string()));
    };
    while i < n {
        match &t[i] {
            Tok::Doc(d) => {
                docs.push(d.clone());
                i += 1;
            }
            Tok::P(p) if p == "#" => {
                i = skip_attrs_vis(&t, i, n).max(i + 1);
            }
            Tok::Id(k) if k == "pub" => i += 1,
            Tok::Id(k) if k == "use" => {
                let end = (i..n).find(|&j| t[j].is_p(";")).unwrap_or(n);
                for j in i + 1..end {
                    if let Tok::Id(s) = &t[j] {
                        let next_is_path = j + 1 < end && t[j + 1].is_p("::");
                        let renamed = j + 1 < end && t[j + 1].is_id("as");
                        if !next_is_path && !renamed && s != "as" && s != "self"
                            && s.chars().next().map(|c| c.is_uppercase()).unwrap_or(false)
                        {
                            types.push(s.clone());
                        }
                    }
                }
                docs.clear();
                i = end + 1;
            }
            Tok::Id(k) if k == "struct" || k == "enum" || k == "trait" || k == "type" => {
                let kind = k.clone();
                let name = name_at(&t, i + 1);
                types.push(name.clone());
                for d in &docs {
                    if let Some(nt) = d.strip_prefix("Type derived for non-terminal ") {
                        rel(f, "nt-type", nt.trim(), &name);
                    }
                    if d.starts_with("Deduced ASTType") {
                        ast_enum = name.clone();
                    }
                }
                let doc_nt: Option<String> = None;
                let _ = doc_nt;
                docs.clear();
                // body
                let mut j = i + 1;
                while j < n && !t[j].is_p("{") && !t[j].is_p(";") {
                    j += 1;
                }
                if j >= n || t[j].is_p(";") {
                    i = j + 1;
                    continue;
                }
                let close = matching(&t, j);
                if kind == "struct" {
                    let mut fields = vec![];
                    for (a, b) in split_commas(&t, j + 1, close) {
                        let a = skip_attrs_vis(&t, a, b);
                        if a < b {
                            fields.push(name_at(&t, a));
                        }
                    }
                    f.scopes.push(("id".into(), format!("struct.{name}"), fields));
                } else if kind == "enum" {
                    let mut variants = vec![];
                    for (a, b) in split_commas(&t, j + 1, close) {
                        let a = skip_attrs_vis(&t, a, b);
                        if a < b {
                            let v = name_at(&t, a);
                            if a + 1 < b && t[a + 1].is_p("(") {
                                let c = matching(&t, a + 1);
                                enum_payload.insert((name.clone(), v.clone()), payload_core(&t, a + 2, c));
                            }
                            variants.push(v);
                        }
                    }
                    f.scopes.push(("id".into(), format!("enum.{name}"), variants));
                } else if kind == "trait" {
                    // methods with their doc comments
                    let mut methods = vec![];
                    let mut k = j + 1;
                    let mut ds: Vec<String> = vec![];
                    while k < close {
                        match &t[k] {
                            Tok::Doc(d) => {
                                ds.push(d.clone());
                                k += 1;
                            }
                            Tok::Id(s) if s == "fn" => {
                                let m = name_at(&t, k + 1);
                                methods.push(m.clone());
                                let po = (k..close).find(|&x| t[x].is_p("(")).unwrap_or(close);
                                let pc = if po < close { matching(&t, po) } else { close };
                                for d in &ds {
                                    if let Some(nt) = d.strip_prefix("Semantic action for non-terminal ") {
                                        let nt = nt.trim().trim_matches('\'');
                                        rel(f, "nt-method", nt, &m);
                                        // `_arg : & T <'t>`
                                        if let Some(x) = (po..pc).find(|&x| t[x].is_id("_arg")) {
                                            let mut y = x + 1;
                                            while y < pc && (t[y].is_p(":") || t[y].is_p("&")) {
                                                y += 1;
                                            }
                                            let ty: String = {
                                                // everything up to `<` or `)` joined (shows broken names)
                                                let mut s = String::new();
                                                while y < pc && !t[y].is_p("<") {
                                                    match &t[y] {
                                                        Tok::Id(q) | Tok::P(q) | Tok::Num(q) => s.push_str(q),
                                                        _ => {}
                                                    }
                                                    y += 1;
                                                }
                                                s
                                            };
                                            rel(f, "nt-type", nt, &ty);
                                        }
                                    }
                                }
                                ds.clear();
                                // skip to body end
                                let mut b = pc;
                                while b < close && !t[b].is_p("{") && !t[b].is_p(";") {
                                    b += 1;
                                }
                                k = if b < close && t[b].is_p("{") { matching(&t, b) + 1 } else { b + 1 };
                            }
                            _ => k += 1,
                        }
                    }
                    f.scopes.push(("id".into(), format!("trait.{name}"), methods));
                }
                i = close + 1;
            }
            Tok::Id(k) if k == "impl" => {
                impl_no += 1;
                let mut j = i + 1;
                while j < n && !t[j].is_p("{") {
                    j += 1;
                }
                if j >= n {
                    break;
                }
                let close = matching(&t, j);
                let mut methods = vec![];
                let mut k = j + 1;
                let mut ds: Vec<String> = vec![];
                while k < close {
                    match &t[k] {
                        Tok::Doc(d) => {
                            ds.push(d.clone());
                            k += 1;
                        }
                        Tok::Id(s) if s == "fn" => {
                            let m = name_at(&t, k + 1);
                            methods.push(m.clone());
                            let po = (k..close).find(|&x| t[x].is_p("(")).unwrap_or(close);
                            let pc = if po < close { matching(&t, po) } else { close };
                            f.scopes.push((
                                "id".into(),
                                format!("params.impl{impl_no}.{}", methods.len()),
                                fn_params(&t, po, pc),
                            ));
                            let mut b = pc;
                            while b < close && !t[b].is_p("{") {
                                b += 1;
                            }
                            let bc = if b < close { matching(&t, b) } else { close };
                            // adapter of a production?
                            let mut lhs: Option<String> = None;
                            for (x, d) in ds.iter().enumerate() {
                                if d.starts_with("Semantic action for production ") {
                                    if let Some(p) = ds[x + 1..].iter().find(|d| d.starts_with('`')) {
                                        lhs = Some(first_word_of_production(p));
                                    }
                                }
                            }
                            if let Some(lhs) = lhs {
                                let mut built: Option<String> = None;
                                for x in b..bc {
                                    // self . user_grammar . m (
                                    if t[x].is_id("user_grammar") && x >= 2 && t[x - 2].is_id("self") && t[x - 1].is_p(".")
                                        && x + 3 < bc && t[x + 1].is_p(".") && t[x + 3].is_p("(")
                                    {
                                        rel(f, "nt-method", &lhs, &name_at(&t, x + 2));
                                    }
                                    // <AstEnum> :: V
                                    if t[x].is_id(&ast_enum) && x + 2 < bc && t[x + 1].is_p("::") {
                                        let v = name_at(&t, x + 2);
                                        rel(f, "nt-variant", &lhs, &v);
                                        pushes.push((lhs.clone(), v));
                                    }
                                    // let <x>_built = Ty {   |   let <x>_built = Ty :: V (
                                    if t[x].is_id("let") && x + 4 < bc && t[x + 2].is_p("=")
                                        && t[x + 1].id().map(|s| s.ends_with("_built")).unwrap_or(false)
                                    {
                                        let ty = name_at(&t, x + 3);
                                        // `Ty { … }` or `Ty::Variant(…)` (not `Vec::new()`)
                                        let ctor = t[x + 4].is_p("::")
                                            && t.get(x + 5).and_then(|q| q.id()).and_then(|q| q.chars().next())
                                                .map(|c| !c.is_lowercase()).unwrap_or(false);
                                        if t[x + 4].is_p("{") || ctor {
                                            built = Some(ty);
                                        } else if !t[x + 3].id().is_some() {
                                            built = Some(String::new());
                                        }
                                    }
                                }
                                if let Some(b) = built {
                                    rel(f, "nt-type", &lhs, &b);
                                }
                            }
                            ds.clear();
                            k = bc + 1;
                        }
                        _ => k += 1,
                    }
                }
                f.scopes.push(("id".into(), format!("impl{impl_no}"), methods));
                docs.clear();
                i = close + 1;
            }
            _ => {
                i += 1;
            }
        }
    }
    // the type carried by the pushed ASTType variant must be the type of the production's non-terminal
    for (lhs, v) in pushes {
        if let Some(core) = enum_payload.get(&(ast_enum.clone(), v.clone())) {
            rel(f, "nt-type", &lhs, core);
        } else {
            rel(f, "nt-type", &lhs, &format!("<no variant {v}>"));
        }
    }
    f.scopes.push(("id".into(), "types".into(), types));
}

/// string literals of `pub const <name> : … = & [ … ] ;`
fn const_strings(t: &[Tok], name: &str) -> Option<Vec<String>> {
    let i = (0..t.len()).find(|&i| t[i].is_id("const") && t.get(i + 1).map(|x| x.is_id(name)).unwrap_or(false))?;
    let eq = (i..t.len()).find(|&j| t[j].is_p("="))?;
    let open = (eq..t.len()).find(|&j| t[j].is_p("["))?;
    let close = matching(t, open);
    Some(t[open + 1..close].iter().filter_map(|x| if let Tok::Str(s) = x { Some(s.clone()) } else { None }).collect())
}

fn extract_facts(s: &Sources) -> Vec<String> {
    let mut f = Facts::default();
    extract_trait_facts(&s.user_trait, &mut f);
    let pt = tokenize(&s.parser);
    match const_strings(&pt, "TERMINAL_NAMES") {
        Some(v) => f.scopes.push(("nm".into(), "TERMINAL_NAMES".into(), v)),
        None => f.scopes.push(("nm".into(), "TERMINAL_NAMES.missing".into(), vec![String::new()])),
    }
    match const_strings(&pt, "NON_TERMINALS") {
        Some(v) => f.scopes.push(("uniq".into(), "NON_TERMINALS".into(), v)),
        None => f.scopes.push(("nm".into(), "NON_TERMINALS.missing".into(), vec![String::new()])),
    }
    f.scopes.push(("id".into(), "TerminalKind".into(), s.node_kind_terminals.clone()));
    let mut out = vec![];
    for (mode, label, names) in &f.scopes {
        out.push(format!("S:{mode}:{}:{}", enc(label), enc_list(names)));
    }
    for (label, pairs) in &f.rel {
        let mut ps: Vec<String> = vec![];
        for (a, b) in pairs {
            let p = format!("{}={}", enc(a), enc(b));
            if !ps.contains(&p) {
                ps.push(p);
            }
        }
        out.push(format!("P:{}:{}", enc(label), if ps.is_empty() { "-".to_string() } else { ps.join(",") }));
    }
    out.push(format!("N:{}", enc_list(&s.non_terminals)));
    out.push(format!("T:{}", enc_list(&s.terminals)));
    out
}

// ------------------------------------------------------------------------------------------------
// case generation

const KW: &[&str] = &[
    "abstract", "as", "async", "await", "become", "box", "break", "const", "continue", "crate", "do", "dyn",
    "else", "enum", "extern", "false", "final", "fn", "for", "gen", "if", "impl", "in", "let", "loop", "macro",
    "match", "mod", "move", "mut", "override", "priv", "pub", "ref", "return", "Self", "self", "static", "struct",
    "super", "trait", "true", "try", "type", "typeof", "union", "unsafe", "unsized", "use", "virtual", "where",
    "while", "yield", "raw", "safe", "auto", "default", "item", "ty",
];

fn all_strings(alpha: &[char], max_len: usize) -> Vec<String> {
    let mut res = vec![String::new()];
    let mut frontier = vec![String::new()];
    for _ in 0..max_len {
        let mut next = vec![];
        for s in &frontier {
            for a in alpha {
                let mut t = s.clone();
                t.push(*a);
                next.push(t);
            }
        }
        res.extend(next.iter().cloned());
        frontier = next;
    }
    res
}

fn rand_string(rng: &mut Rng, alpha: &[char], lo: usize, hi: usize) -> String {
    let n = rng.range(lo, hi);
    (0..n).map(|_| *rng.pick(alpha)).collect()
}

fn capitalize(s: &str) -> String {
    let mut c = s.chars();
    match c.next() {
        Some(f) => f.to_ascii_uppercase().to_string() + c.as_str(),
        None => String::new(),
    }
}

fn rand_la(rng: &mut Rng) -> Option<LookaheadExpression> {
    if rng.chance(1, 8) {
        Some(LookaheadExpression {
            is_positive: rng.chance(1, 2),
            pattern: rng.pick(&["a", "\\+", "b"]).to_string(),
            kind: *rng.pick(&[TerminalKind::Legacy, TerminalKind::Regex, TerminalKind::Raw]),
        })
    } else {
        None
    }
}

/// D-tie cases on the pure functions.
pub fn generate(seed: u64, thorough: bool) -> Vec<String> {
    let mut out: Vec<String> = vec![];
    let mut rng = Rng::new(seed);
    // --- NamingHelper: exhaustive small scope + keyword forms + random
    let n = if thorough { 5 } else { 4 };
    for s in all_strings(&['a', 'B', '1', '_'], n) {
        out.push(format!("camel {}", enc(&s)));
        out.push(format!("snake {}", enc(&s)));
    }
    for s in all_strings(&['r', '#', 'Z', '9'], 3) {
        out.push(format!("camel {}", enc(&s)));
        out.push(format!("snake {}", enc(&s)));
        out.push(format!("unused 0 {}", enc(&s)));
    }
    for kw in KW {
        let forms = [
            kw.to_string(),
            capitalize(kw),
            kw.to_uppercase(),
            format!("r#{kw}"),
            format!("{kw}_"),
            format!("_{kw}"),
            format!("{kw}1"),
            format!("{}_{}", kw, kw),
        ];
        for f in &forms {
            for op in ["camel", "snake", "esckw", "purge"] {
                out.push(format!("{op} {}", enc(f)));
            }
            out.push(format!("unused 0 {}", enc(f)));
            out.push(format!("unused 1 {}", enc(f)));
        }
    }
    let ident_alpha: Vec<char> = "abzABZ019__#r".chars().collect();
    let ascii: Vec<char> = (0u8..128).map(|b| b as char).chain(std::iter::once('§')).collect();
    let nrand = if thorough { 4000 } else { 700 };
    for _ in 0..nrand {
        let s = rand_string(&mut rng, &ident_alpha, 0, 10);
        out.push(format!("camel {}", enc(&s)));
        out.push(format!("snake {}", enc(&s)));
        let t = rand_string(&mut rng, &ascii, 0, 8);
        out.push(format!("purge {}", enc(&t)));
        out.push(format!("camel {}", enc(&t)));
        out.push(format!("snake {}", enc(&t)));
    }
    // --- inner generate_name of generate_terminal_name
    for c in &ascii {
        out.push(format!("tname {}", enc(&c.to_string())));
    }
    for s in all_strings(&['a', 'Z', '1', '_', '+', '\\', ' ', '-', '.'], 2) {
        out.push(format!("tname {}", enc(&s)));
    }
    for s in ["ERROR_TOKEN", "UNMATCHABLE_TOKEN", "", "é", "x²", "\\u{0027}", "\\s+", "[a-z]+", "0|[1-9][0-9]*"] {
        out.push(format!("tname {}", enc(s)));
    }
    for _ in 0..(if thorough { 6000 } else { 900 }) {
        let s = rand_string(&mut rng, &ascii, 1, 8);
        out.push(format!("tname {}", enc(&s)));
    }
    // --- utils::generate_name through augment_grammar
    let bases = [
        "A", "S", "A1", "A01", "A9", "A10", "A_1", "1", "", "Ab0", "A18446744073709551616", "A007", "x99", "A0",
        "a_b", "AB", "9", "09",
    ];
    for _ in 0..(if thorough { 3000 } else { 500 }) {
        let base = rng.pick(&bases).to_string();
        let prefix: String = {
            let t = base.trim_end_matches(|c: char| c.is_ascii_digit());
            t.to_string()
        };
        let mut names = vec![base.clone()];
        let lo = rng.below(3);
        for k in 0..rng.below(7) {
            if rng.chance(3, 4) {
                names.push(format!("{prefix}{}", lo + k));
            }
        }
        for _ in 0..rng.below(3) {
            names.push(rng.pick(&bases).to_string());
        }
        if rng.chance(1, 4) {
            names.push(format!("{prefix}0{}", rng.below(3)));
        }
        // shuffle
        for i in (1..names.len()).rev() {
            let j = rng.below(i + 1);
            names.swap(i, j);
        }
        let idx = names.iter().position(|n| *n == base).unwrap();
        out.push(format!("gname33 {} {}", enc_list(&names), idx));
    }
    // --- generate_terminal_names on direct Cfg values
    let nts = [
        "S", "A", "B", "a_b", "AB", "Ab", "Plus", "Error", "Newline", "NewLine", "EndOfInput", "Whitespace", "_",
        "A1", "A_1", "Esc", "If", "r#if", "LineComment", "line_comment", "Plus0",
    ];
    let texts = [
        "+", "\\+", "a", "A", "a1", "1", "if", "ERROR_TOKEN", "UNMATCHABLE_TOKEN", " ", "_", "a b", "a-b", "\\\\", ".",
        "§", "{", "\\{", "new_line", "plus", "Plus", "\\s+", "a.b", "==", "=", "\\u{0027}", "\r\n", "error",
    ];
    let kinds = [TerminalKind::Legacy, TerminalKind::Regex, TerminalKind::Raw];
    for _ in 0..(if thorough { 3000 } else { 500 }) {
        let np = rng.range(1, 7);
        let mut cfg: Option<Cfg> = None;
        for _ in 0..np {
            let lhs = rng.pick(&nts).to_string();
            let len = if rng.chance(1, 2) { 1 } else { rng.below(4) };
            let mut rhs = vec![];
            for _ in 0..len {
                if len == 1 || rng.chance(2, 3) {
                    rhs.push(Symbol::T(Terminal::Trm(
                        rng.pick(&texts).to_string(),
                        *rng.pick(&kinds),
                        vec![0],
                        SymbolAttribute::None,
                        None,
                        None,
                        rand_la(&mut rng),
                    )));
                } else {
                    rhs.push(Symbol::n(nts[rng.below(nts.len())]));
                }
            }
            let c = cfg.take().unwrap_or_else(|| Cfg::with_start_symbol(&lhs));
            cfg = Some(c.add_pr(Pr::new(&lhs, rhs)));
        }
        let cfg = cfg.unwrap();
        out.push(format!("tnames {} {} {}", cfg_enc(&cfg), prod_summary(&cfg), term_summary(&cfg)));
    }
    out
}

// --- PAR grammars for the source checker, biased towards name collisions

struct NtPool {
    label: &'static str,
    names: &'static [&'static str],
}

const POOLS: &[NtPool] = &[
    NtPool { label: "plain", names: &["A", "B", "Item", "Expr", "my_rule", "X9", "Abc", "D_e_f"] },
    NtPool { label: "numeric", names: &["A1", "A01", "A2", "A10", "A1_0", "B1", "B_2", "A_", "C0", "C00"] },
    NtPool { label: "helper", names: &["SList", "SOpt", "SGroup", "AList", "AOpt", "AGroup", "SList0", "ASuffix"] },
    NtPool { label: "keyword", names: &["Type", "type", "Fn", "match", "Box", "Loop", "Mod", "Gen", "Try", "Union", "Async", "Dyn", "r_type", "Let", "Yield", "While"] },
    NtPool { label: "framework", names: &["Token", "ASTType", "Vec", "Option", "Trace", "Context", "Push", "Pop", "New", "Children", "ProdNum", "UserGrammar", "ItemStack"] },
    NtPool { label: "camel", names: &["a_b", "AB", "Ab", "A_b", "aB", "ab", "A_B", "A1", "A_1", "a1", "S_list", "SList"] },
    NtPool { label: "underscore", names: &["_", "__", "A", "B"] },
    NtPool { label: "selfish", names: &["Self", "Crate", "Super", "self", "A", "B"] },
    NtPool { label: "imports", names: &["Result", "ParserError", "GrAuto", "GrTrait", "ParseTreeType", "UserActionsTrait", "A"] },
];

const TERMS: &[&str] = &[
    "\"a\"", "'a'", "/a/", "\"b\"", "'b'", "\"\\+\"", "'+'", "/\\+/", "\"if\"", "'if'", "\"a1\"", "\"1\"", "'1'", "\"A\"",
    "\"a_b\"", "\"a-b\"", "'a b'", "\"\\*\"", "'*'", "\"==\"", "\"=\"", "'='", "\"type\"", "'type'", "\"x\"", "\"y\"",
    "\"z\"", "'.'", "\"\\.\"", "'a.b'", "\"a.b\"", "\"token\"", "\"0\"", "\"00\"",
];
const TERMS_SELF: &[&str] = &["\"self\"", "'super'", "\"crate\"", "\"Self\""];
const TERMS_WS: &[&str] = &["\" \"", "' '"];
const MEMBERS: &[&str] = &["type", "item", "a", "a0", "token", "r_fn", "Loop", "x_1", "X1", "context", "result"];

fn par_grammar(rng: &mut Rng, pool: &NtPool, extra_terms: &[&str], lalr: bool) -> String {
    let n = rng.range(1, pool.names.len().min(5));
    let mut names: Vec<String> = vec![];
    while names.len() < n {
        let c = rng.pick(pool.names).to_string();
        if !names.contains(&c) && c != "S" {
            names.push(c);
        }
    }
    let mut terms: Vec<&str> = TERMS.to_vec();
    terms.extend_from_slice(extra_terms);
    let pick_term = |rng: &mut Rng| -> String {
        if !extra_terms.is_empty() && rng.chance(1, 3) {
            rng.pick(extra_terms).to_string()
        } else {
            rng.pick(&terms).to_string()
        }
    };
    let mut g = String::from("%start S\n");
    if lalr {
        g.push_str("%grammar_type 'LALR(1)'\n");
    }
    if extra_terms.iter().any(|t| t.contains(' ')) {
        g.push_str("%auto_ws_off\n");
    }
    g.push_str("%%\n");
    // S references every other non-terminal, sometimes twice, sometimes inside [ ] or { }
    g.push_str("S:");
    for (i, nm) in names.iter().enumerate() {
        let reps = if rng.chance(1, 4) { 2 } else { 1 };
        for _ in 0..reps {
            match rng.below(8) {
                0 => g.push_str(&format!(" [ \"o{i}\" {nm} ]")),
                1 => g.push_str(&format!(" {{ \"r{i}\" {nm} }}")),
                2 => g.push_str(&format!(" {nm}@{}", rng.pick(MEMBERS))),
                _ => g.push_str(&format!(" {nm}")),
            }
        }
    }
    if rng.chance(1, 3) {
        g.push_str(&format!(" {}", pick_term(rng)));
    }
    g.push_str(";\n");
    for (i, nm) in names.iter().enumerate() {
        let alts = rng.range(1, 3);
        let mut used: Vec<String> = vec![];
        let mut alt_texts = vec![];
        for _ in 0..alts {
            // leading terminal unique within this non-terminal (by its text between the delimiters)
            let mut lead = pick_term(rng);
            let mut guard = 0;
            while used.iter().any(|u| u[1..u.len() - 1] == lead[1..lead.len() - 1]) && guard < 20 {
                lead = pick_term(rng);
                guard += 1;
            }
            if guard >= 20 {
                continue;
            }
            used.push(lead.clone());
            let mut a = format!(" {lead}");
            if rng.chance(1, 6) {
                a.push('^');
            } else if rng.chance(1, 6) {
                a.push_str(&format!("@{}", rng.pick(MEMBERS)));
            }
            for _ in 0..rng.below(3) {
                if rng.chance(1, 2) && i + 1 < names.len() {
                    let j = rng.range(i + 1, names.len() - 1);
                    a.push_str(&format!(" {}", names[j]));
                } else {
                    a.push_str(&format!(" {}", pick_term(rng)));
                }
            }
            alt_texts.push(a);
        }
        g.push_str(&format!("{nm}:{};\n", alt_texts.join(" |")));
    }
    g
}

/// `src` cases. The streams that are prone to a listed finding are capped so that they cannot crowd
/// out the rest of the exploration.
pub fn generate_src(seed: u64, thorough: bool) -> Vec<String> {
    let mut rng = Rng::new(seed ^ 0x33);
    let mut out = vec![];
    let scale = if thorough { 6 } else { 1 };
    let budget: &[(&str, usize)] = &[
        ("plain", 30), ("numeric", 40), ("helper", 40), ("keyword", 40), ("framework", 40),
        ("camel", 40), ("underscore", 8), ("selfish", 8), ("imports", 8),
    ];
    for (label, count) in budget {
        let pool = POOLS.iter().find(|p| p.label == *label).unwrap();
        for _ in 0..count * scale {
            let lalr = rng.chance(1, 6);
            out.push(format!("src {}", enc(&par_grammar(&mut rng, pool, &[], lalr))));
        }
    }
    let plain = &POOLS[0];
    for _ in 0..8 * scale {
        out.push(format!("src {}", enc(&par_grammar(&mut rng, plain, TERMS_SELF, false))));
    }
    for _ in 0..8 * scale {
        out.push(format!("src {}", enc(&par_grammar(&mut rng, plain, TERMS_WS, false))));
    }
    out
}

pub fn cli(args: &[String]) {
    match args.first().map(|s| s.as_str()) {
        // `src` cases only; every reply is prefixed with `@@ ` because parol itself prints to stdout
        // (LALR conflict resolution messages) while generating
        Some("runsrc") => {
            use std::io::BufRead;
            std::panic::set_hook(Box::new(|_| {}));
            for line in std::io::stdin().lock().lines() {
                let line = line.unwrap();
                let words: Vec<String> = line.split_whitespace().map(|s| s.to_string()).collect();
                let r = std::panic::catch_unwind(|| {
                    let w: Vec<&str> = words.iter().map(|s| s.as_str()).collect();
                    run_case(&w)
                });
                let reply = match r {
                    Ok(Some(s)) => s,
                    Ok(None) => "bad-op".to_string(),
                    Err(_) => "panic".to_string(),
                };
                println!("@@ {reply}");
            }
        }
        Some("gensrc") => {
            let seed: u64 = args.get(1).and_then(|s| s.parse().ok()).unwrap_or(0);
            let thorough = args.get(2).map(|s| s == "thorough").unwrap_or(false);
            for l in generate_src(seed, thorough) {
                println!("{l}");
            }
        }
        // debugging aid: `pv c33 show <file.par>` prints the generated sources
        Some("show") => {
            let par = std::fs::read_to_string(&args[1]).unwrap();
            match generate_sources(&par) {
                Ok(s) => {
                    println!("{}\n// ======== parser\n{}\n// ======== node kinds: {:?}", s.user_trait, s.parser, s.node_kind_terminals);
                }
                Err(e) => println!("reject {e}"),
            }
        }
        _ => standard_cli(args, generate, run_case),
    }
}
