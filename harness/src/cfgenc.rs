//! Numeric encoding of plain context-free grammars for the line protocol, conversion to
//! `parol::Cfg`, and a random generator of small BNF grammars.
//! Non-terminal `n<i>` is named `N<ii>` (two digits, so that alphabetical order = numeric order),
//! terminal `t<i>` has the text `t<i>` (legacy kind, scanner state 0).
use crate::rng::Rng;
use parol::{Cfg, Pr, Symbol, SymbolAttribute, Terminal};

#[derive(Clone, Debug, PartialEq, Eq, PartialOrd, Ord, Hash)]
pub enum Sym {
    T(usize),
    N(usize),
}

#[derive(Clone, Debug, PartialEq, Eq)]
pub struct Gram {
    pub start: usize,
    pub prods: Vec<(usize, Vec<Sym>)>,
}

pub fn nt_name(i: usize) -> String {
    format!("N{i:02}")
}

pub fn nt_index(name: &str) -> Option<usize> {
    name.strip_prefix('N')?.parse().ok()
}

pub fn t_text(i: usize) -> String {
    format!("t{i}")
}

pub fn t_index(text: &str) -> Option<usize> {
    text.strip_prefix('t')?.parse().ok()
}

impl Gram {
    pub fn show_prods(&self) -> String {
        if self.prods.is_empty() {
            return "-".into();
        }
        self.prods
            .iter()
            .map(|(l, r)| {
                format!(
                    "{}:{}",
                    l,
                    r.iter()
                        .map(|s| match s {
                            Sym::T(a) => format!("t{a}"),
                            Sym::N(a) => format!("n{a}"),
                        })
                        .collect::<Vec<_>>()
                        .join(",")
                )
            })
            .collect::<Vec<_>>()
            .join(";")
    }

    /// `<start> <prods>`
    pub fn show(&self) -> String {
        format!("{} {}", self.start, self.show_prods())
    }

    pub fn parse(start: &str, prods: &str) -> Option<Gram> {
        let start = start.parse().ok()?;
        let mut ps = vec![];
        if prods != "-" {
            for p in prods.split(';') {
                let (l, r) = p.split_once(':')?;
                let l = l.parse().ok()?;
                let mut rhs = vec![];
                if !r.is_empty() {
                    for s in r.split(',') {
                        if let Some(x) = s.strip_prefix('t') {
                            rhs.push(Sym::T(x.parse().ok()?));
                        } else if let Some(x) = s.strip_prefix('n') {
                            rhs.push(Sym::N(x.parse().ok()?));
                        } else {
                            return None;
                        }
                    }
                }
                ps.push((l, rhs));
            }
        }
        Some(Gram { start, prods: ps })
    }

    pub fn to_cfg(&self) -> Cfg {
        let mut cfg = Cfg::with_start_symbol(&nt_name(self.start));
        for (l, r) in &self.prods {
            let rhs = r
                .iter()
                .map(|s| match s {
                    Sym::T(a) => Symbol::T(Terminal::t(&t_text(*a), vec![0], SymbolAttribute::None)),
                    Sym::N(a) => Symbol::n(&nt_name(*a)),
                })
                .collect();
            cfg = cfg.add_pr(Pr::new(&nt_name(*l), rhs));
        }
        cfg
    }

    /// Back from a `Cfg` whose names follow the conventions (None otherwise).
    pub fn from_cfg(cfg: &Cfg) -> Option<Gram> {
        let start = nt_index(&cfg.st)?;
        let mut prods = vec![];
        for p in &cfg.pr {
            let l = nt_index(p.get_n_str())?;
            let mut rhs = vec![];
            for s in p.get_r() {
                match s {
                    Symbol::N(n, ..) => rhs.push(Sym::N(nt_index(n)?)),
                    Symbol::T(Terminal::Trm(t, ..)) => rhs.push(Sym::T(t_index(t)?)),
                    _ => return None,
                }
            }
            prods.push((l, rhs));
        }
        Some(Gram { start, prods })
    }

    /// Nullable non-terminals (least fixpoint).
    pub fn nullable(&self) -> std::collections::BTreeSet<usize> {
        let mut n = std::collections::BTreeSet::new();
        loop {
            let before = n.len();
            for (l, r) in &self.prods {
                if r.iter().all(|s| matches!(s, Sym::N(a) if n.contains(a))) {
                    n.insert(*l);
                }
            }
            if n.len() == before {
                return n;
            }
        }
    }

    /// Is there a non-terminal with A ⇒⁺ A (a cyclic grammar)? Such grammars are infinitely
    /// ambiguous; parol's LALR(1) path accepts them with resolved conflicts and the generated
    /// parser can then loop forever (finding F24).
    pub fn has_cycle(&self) -> bool {
        let nullable = self.nullable();
        let nts = self.nts();
        // unit edges A -> B if A: α B β with α, β nullable
        let mut edges: std::collections::BTreeSet<(usize, usize)> = Default::default();
        for (l, r) in &self.prods {
            for (i, s) in r.iter().enumerate() {
                if let Sym::N(b) = s {
                    let rest_nullable = r.iter().enumerate().all(|(j, x)| j == i || matches!(x, Sym::N(a) if nullable.contains(a)));
                    if rest_nullable {
                        edges.insert((*l, *b));
                    }
                }
            }
        }
        // transitive closure
        loop {
            let before = edges.len();
            let cur: Vec<(usize, usize)> = edges.iter().cloned().collect();
            for (a, b) in &cur {
                for (c, d) in &cur {
                    if b == c {
                        edges.insert((*a, *d));
                    }
                }
            }
            if edges.len() == before {
                break;
            }
        }
        nts.iter().any(|a| edges.contains(&(*a, *a)))
    }

    pub fn nts(&self) -> Vec<usize> {
        let mut v = vec![self.start];
        for (l, r) in &self.prods {
            v.push(*l);
            for s in r {
                if let Sym::N(a) = s {
                    v.push(*a);
                }
            }
        }
        v.sort();
        v.dedup();
        v
    }

    pub fn terminals(&self) -> Vec<usize> {
        let mut v = vec![];
        for (_, r) in &self.prods {
            for s in r {
                if let Sym::T(a) = s {
                    v.push(*a);
                }
            }
        }
        v.sort();
        v.dedup();
        v
    }
}

/// Parameters of the random BNF generator.
#[derive(Clone, Debug)]
pub struct GenCfg {
    pub max_nts: usize,
    pub max_terms: usize,
    pub max_prods_per_nt: usize,
    pub max_rhs: usize,
    /// probability (x/10) that a right-hand-side symbol is a non-terminal
    pub nt_bias: usize,
    /// allow non-terminals without productions / references to them
    pub allow_undefined: bool,
}

impl Default for GenCfg {
    fn default() -> Self {
        GenCfg { max_nts: 4, max_terms: 3, max_prods_per_nt: 3, max_rhs: 3, nt_bias: 4, allow_undefined: false }
    }
}

/// Random grammar; terminals are numbered from 5 (FIRST_USER_TOKEN). No filtering: the result may
/// be left-recursive, non-productive, have unreachable parts — callers filter as needed.
pub fn random_gram(rng: &mut Rng, c: &GenCfg) -> Gram {
    let n = rng.range(1, c.max_nts);
    let nt = rng.range(1, c.max_terms);
    let mut prods = vec![];
    for a in 0..n {
        let np = if c.allow_undefined && rng.chance(1, 10) { 0 } else { rng.range(1, c.max_prods_per_nt) };
        for _ in 0..np {
            let len = if rng.chance(1, 5) { 0 } else { rng.range(1, c.max_rhs) };
            let rhs = (0..len)
                .map(|_| {
                    if rng.below(10) < c.nt_bias {
                        let hi = if c.allow_undefined && rng.chance(1, 12) { n } else { n - 1 };
                        Sym::N(rng.range(0, hi))
                    } else {
                        Sym::T(5 + rng.below(nt))
                    }
                })
                .collect();
            prods.push((a, rhs));
        }
    }
    if rng.chance(1, 3) {
        // shuffle production order a little (parol keeps productions in textual order)
        for _ in 0..prods.len() {
            let i = rng.below(prods.len().max(1));
            let j = rng.below(prods.len().max(1));
            if !prods.is_empty() {
                prods.swap(i, j);
            }
        }
    }
    Gram { start: 0, prods }
}

/// All grammars with exactly `n` non-terminals over `nt` terminals with at most `max_prods`
/// productions in total, right-hand sides of length ≤ `max_rhs` (small-scope enumeration).
pub fn enumerate_grams(n: usize, nt: usize, max_prods: usize, max_rhs: usize) -> Vec<Gram> {
    let mut syms = vec![];
    for a in 0..n {
        syms.push(Sym::N(a));
    }
    for t in 0..nt {
        syms.push(Sym::T(5 + t));
    }
    let mut rhss: Vec<Vec<Sym>> = vec![vec![]];
    let mut frontier: Vec<Vec<Sym>> = vec![vec![]];
    for _ in 0..max_rhs {
        let mut next = vec![];
        for r in &frontier {
            for s in &syms {
                let mut x = r.clone();
                x.push(s.clone());
                next.push(x);
            }
        }
        rhss.extend(next.iter().cloned());
        frontier = next;
    }
    let mut all_prods = vec![];
    for a in 0..n {
        for r in &rhss {
            all_prods.push((a, r.clone()));
        }
    }
    // multisets of productions as non-decreasing index sequences
    let mut res = vec![];
    fn rec(all: &[(usize, Vec<Sym>)], from: usize, left: usize, cur: &mut Vec<(usize, Vec<Sym>)>, res: &mut Vec<Gram>) {
        res.push(Gram { start: 0, prods: cur.clone() });
        if left == 0 {
            return;
        }
        for i in from..all.len() {
            cur.push(all[i].clone());
            rec(all, i + 1, left - 1, cur, res);
            cur.pop();
        }
    }
    rec(&all_prods, 0, max_prods, &mut vec![], &mut res);
    res
}
