//! C04: LALR(1) conflicts are always reported. Case `lalr1 <start> <prods>`: the real pipeline on the
//! BNF grammar typed LALR(1); reply `lalr1` (table, no conflict reported) | `conflict` (error or at
//! least one resolved conflict reported) | `panic`. Plus the `lr …` runs of `lrrun` for grammars with
//! resolved conflicts (soundness of the resolved table).
use crate::cfgenc::{GenCfg, Gram, Sym, random_gram};
use crate::dynparse::*;
use crate::parsegen::*;
use crate::rng::Rng;
use crate::util::*;

fn outcome(g: &Gram) -> Option<String> {
    let po = ParOpts { lalr: true, ..Default::default() };
    let par = par_text(g, &po);
    let r = std::panic::catch_unwind(|| build(&par, 1));
    match r {
        Err(_) => Some("panic".into()),
        Ok(Ok(b)) => Some(if b.lr_conflicts == 0 { "lalr1".into() } else { "conflict".into() }),
        Ok(Err(e)) => match e.stage {
            "lalr" => Some("conflict".into()),
            _ => None, // rejected before table construction (not productive, unreachable, …): not a C04 case
        },
    }
}

pub fn run_case(w: &[&str]) -> Option<String> {
    match w.first() {
        Some(&"lalr1") => {
            let g = Gram::parse(w.get(1)?, w.get(2)?)?;
            Some(outcome(&g).unwrap_or_else(|| "rejected-before-lalr".into()))
        }
        Some(&"lr") => crate::lrrun::run_case(w),
        _ => None,
    }
}

/// Grammars biased to the LALR(1) border: random BNF plus classic shapes (dangling else, ambiguous
/// expressions, duplicated alternatives, LR(1)-but-not-LALR(1), nullable left-recursive lists sharing a
/// lookahead, cycles).
fn shaped(rng: &mut Rng) -> Gram {
    let t = |i: usize| Sym::T(5 + i);
    let n = |i: usize| Sym::N(i);
    let shapes: Vec<Vec<(usize, Vec<Sym>)>> = vec![
        // dangling else
        vec![(0, vec![t(0), n(0)]), (0, vec![t(0), n(0), t(1), n(0)]), (0, vec![t(2)])],
        // ambiguous expression
        vec![(0, vec![n(0), t(0), n(0)]), (0, vec![t(1)])],
        // unambiguous expression (LALR)
        vec![(0, vec![n(0), t(0), n(1)]), (0, vec![n(1)]), (1, vec![t(1)]), (1, vec![t(2), n(0), t(3)])],
        // duplicated alternative (reduce/reduce)
        vec![(0, vec![n(1)]), (0, vec![n(2)]), (1, vec![t(0)]), (2, vec![t(0)])],
        // LR(1) but not LALR(1)
        vec![(0, vec![t(0), n(1)]), (0, vec![t(1), n(1), t(2)]), (0, vec![t(0), n(2), t(2)]), (0, vec![t(1), n(2)]), (1, vec![t(3)]), (2, vec![t(3)])],
        // two nullable left-recursive lists
        vec![(0, vec![n(1), t(0)]), (0, vec![n(2), t(1)]), (1, vec![n(1), t(2)]), (1, vec![]), (2, vec![n(2), t(2)]), (2, vec![])],
        // cycle
        vec![(0, vec![n(1)]), (1, vec![n(0)]), (1, vec![t(0)])],
        // S: S S | a |
        vec![(0, vec![n(0), n(0)]), (0, vec![t(0)]), (0, vec![])],
        // LALR but not SLR
        vec![(0, vec![n(1), t(0), n(2)]), (0, vec![n(2)]), (1, vec![t(1), n(2)]), (1, vec![t(2)]), (2, vec![n(1)])],
        // recursive start symbol with one production
        vec![(0, vec![t(0), n(1), t(1)]), (1, vec![n(0)]), (1, vec![])],
    ];
    let mut g = Gram { start: 0, prods: shapes[rng.below(shapes.len())].clone() };
    // random perturbation
    for _ in 0..rng.below(3) {
        let nts = g.nts();
        let a = *rng.pick(&nts);
        let len = rng.below(3);
        let rhs = (0..len).map(|_| if rng.chance(1, 2) { Sym::N(*rng.pick(&nts)) } else { Sym::T(5 + rng.below(4)) }).collect();
        g.prods.push((a, rhs));
    }
    g
}

pub fn generate(seed: u64, thorough: bool) -> Vec<String> {
    std::panic::set_hook(Box::new(|_| {}));
    let mut rng = Rng::new(seed ^ 0xC04);
    let mut out = vec![];
    let mut seen = std::collections::HashSet::new();
    let n = if thorough { 6000 } else { 700 };
    let mut tries = 0;
    while out.len() < n && tries < n * 30 {
        tries += 1;
        let g = if rng.chance(1, 2) {
            shaped(&mut rng)
        } else {
            let gc = GenCfg { max_nts: rng.range(1, 4), max_terms: rng.range(1, 3), max_prods_per_nt: 3, max_rhs: rng.range(1, 3), nt_bias: rng.range(2, 6), allow_undefined: false };
            random_gram(&mut rng, &gc)
        };
        if !seen.insert(g.show()) {
            continue;
        }
        if outcome(&g).is_none() {
            continue;
        }
        out.push(format!("lalr1 {}", g.show()));
    }
    // soundness of resolved tables: the lr runs whose grammar has resolved conflicts
    for c in crate::lrrun::generate(seed.wrapping_add(4), thorough, "plain") {
        if c.rsplit(' ').next().map(|x| x != "0").unwrap_or(false) {
            out.push(c);
        }
    }
    out
}

pub fn cli(args: &[String]) {
    standard_cli(args, generate, run_case)
}
