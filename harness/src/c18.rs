//! C18 — all generated parts agree on terminal identity.
//!
//! Two kinds of cases:
//!  * `termidx <occurrences> <queries>` — tie D on the index function: the REAL
//!    `Cfg::get_ordered_terminals` / `Cfg::get_terminal_index_function` on a `Cfg` whose productions
//!    carry the given terminal occurrences, against the Lean model `orderedTerminals` / `termIdx`.
//!    Occurrence: `text/kind/states/lasign/lakind/latext` (kind `l` `".."`, `x` `/../`, `r` `'..'`;
//!    states `-` | `0.1`; lasign `-` | `p` | `n`). Reply: `<ordered terminals> <index per query>`
//!    (`x`: the `.unwrap()` panicked).
//!  * `tid <par> <k> <grammar> <directives> <skips> <stale-directives> <stale-skips> <scan-facts> <sentences> <A> <M> <S>` —
//!    translation validation per grammar: the transformed grammar with full terminal occurrences,
//!    the `%on`/`%skip` directives of the PAR text resolved to productions of the transformed grammar,
//!    what the scanner built from the generated `scanner!` text does with each plain terminal's own
//!    text, shortest sentences per production, and the three descriptions of `c21`. Judged by the
//!    Lean oracle `tid-check3`; `run` answers `same` iff it reproduces the line from `<par>`.
use crate::c21::*;
use crate::c33::{dec, enc};
use crate::dynparse::{ModeDesc, build_scanner};
use crate::rng::Rng;
use crate::util::*;
use parol::grammar::cfg::TerminalIndexFn;
use parol::parser::parol_grammar::LookaheadExpression;
use parol::{Cfg, Pr, Symbol, SymbolAttribute, Terminal, TerminalKind};
use scnr2::ScannerImpl;
use std::cell::RefCell;
use std::collections::{BTreeMap, BTreeSet, VecDeque};
use std::rc::Rc;

// -------------------------------------------------------------------------------------------------
// occurrences on the wire

fn kind_char(k: TerminalKind) -> char {
    match k {
        TerminalKind::Legacy => 'l',
        TerminalKind::Regex => 'x',
        TerminalKind::Raw => 'r',
    }
}
fn kind_of(c: &str) -> Option<TerminalKind> {
    match c {
        "l" => Some(TerminalKind::Legacy),
        "x" => Some(TerminalKind::Regex),
        "r" => Some(TerminalKind::Raw),
        _ => None,
    }
}
fn show_states(s: &[usize]) -> String {
    if s.is_empty() { "-".to_string() } else { s.iter().map(|x| x.to_string()).collect::<Vec<_>>().join(".") }
}

type Occ = (String, TerminalKind, Vec<usize>, Option<LookaheadExpression>);

fn enc_occ(t: &str, k: TerminalKind, s: &[usize], l: &Option<LookaheadExpression>) -> String {
    match l {
        None => format!("{}/{}/{}/-/-/-", enc(t), kind_char(k), show_states(s)),
        Some(l) => format!(
            "{}/{}/{}/{}/{}/{}",
            enc(t),
            kind_char(k),
            show_states(s),
            if l.is_positive { 'p' } else { 'n' },
            kind_char(l.kind),
            enc(&l.pattern)
        ),
    }
}

fn dec_occ(w: &str) -> Option<Occ> {
    let f: Vec<&str> = w.split('/').collect();
    if f.len() < 6 {
        return None;
    }
    let states = if f[2] == "-" { vec![] } else { f[2].split('.').map(|x| x.parse().ok()).collect::<Option<Vec<usize>>>()? };
    let la = match f[3] {
        "-" => None,
        s => Some(LookaheadExpression { is_positive: s == "p", pattern: dec(f[5])?, kind: kind_of(f[4])? }),
    };
    if f[3] != "-" && f[3] != "p" && f[3] != "n" {
        return None;
    }
    Some((dec(f[0])?, kind_of(f[1])?, states, la))
}

fn dec_occs(w: &str) -> Option<Vec<Occ>> {
    if w == "-" { Some(vec![]) } else { w.split(';').map(dec_occ).collect() }
}

fn trm(o: &Occ) -> Symbol {
    Symbol::T(Terminal::Trm(o.0.clone(), o.1, o.2.clone(), SymbolAttribute::None, None, None, o.3.clone()))
}

// -------------------------------------------------------------------------------------------------
// tie D: the index function

fn run_termidx(w: &[&str]) -> Option<String> {
    if w.len() != 3 {
        return None;
    }
    let occs = dec_occs(w[1])?;
    let qs = dec_occs(w[2])?;
    let mut cfg = Cfg::with_start_symbol("S");
    // productions of up to three symbols; `S` first so that the grammar has its start symbol
    let mut first = true;
    for ch in occs.chunks(3) {
        cfg = cfg.add_pr(Pr::new(if first { "S" } else { "A" }, ch.iter().map(trm).collect()));
        first = false;
    }
    if first {
        cfg = cfg.add_pr(Pr::new("S", vec![]));
    }
    let ord = cfg.get_ordered_terminals();
    let o = if ord.is_empty() {
        "-".to_string()
    } else {
        ord.iter().map(|(t, k, _, s)| format!("{}/{}/{}", enc(t), kind_char(*k), show_states(s))).collect::<Vec<_>>().join(";")
    };
    let ti = cfg.get_terminal_index_function();
    let r = if qs.is_empty() {
        "-".to_string()
    } else {
        qs.iter()
            .map(|q| {
                match std::panic::catch_unwind(std::panic::AssertUnwindSafe(|| ti.terminal_index(&q.0, q.1, &q.3))) {
                    Ok(i) => i.to_string(),
                    Err(_) => "x".to_string(),
                }
            })
            .collect::<Vec<_>>()
            .join(",")
    };
    Some(format!("{o} {r}"))
}

fn random_occ(rng: &mut Rng, texts: &[&str]) -> Occ {
    let kinds = [TerminalKind::Legacy, TerminalKind::Regex, TerminalKind::Raw];
    let la = if rng.chance(1, 3) {
        Some(LookaheadExpression { is_positive: rng.chance(1, 2), pattern: rng.pick(texts).to_string(), kind: *rng.pick(&kinds) })
    } else {
        None
    };
    let ns = rng.below(3);
    let mut states = vec![];
    for _ in 0..ns {
        let s = rng.below(3);
        if !states.contains(&s) {
            states.push(s);
        }
    }
    states.sort();
    (rng.pick(texts).to_string(), *rng.pick(&kinds), states, la)
}

fn gen_termidx(rng: &mut Rng, n: usize) -> Vec<String> {
    let pool = ["a", "b", "a.b", "a+", "", "if", "x y", "\\+"];
    let mut out = vec![];
    for i in 0..n {
        let nt = rng.range(1, 3);
        let texts: Vec<&str> = (0..nt).map(|_| *rng.pick(&pool)).collect();
        let len = if i < 4 { i } else { rng.range(1, 9) };
        let occs: Vec<Occ> = (0..len).map(|_| random_occ(rng, &texts)).collect();
        // queries: every occurrence (twice with other states), plus foreign ones
        let mut qs: Vec<Occ> = occs.clone();
        for _ in 0..rng.range(1, 4) {
            qs.push(random_occ(rng, &pool));
        }
        let e = |v: &[Occ]| {
            if v.is_empty() { "-".to_string() } else { v.iter().map(|o| enc_occ(&o.0, o.1, &o.2, &o.3)).collect::<Vec<_>>().join(";") }
        };
        out.push(format!("termidx {} {}", e(&occs), e(&qs)));
    }
    out
}

// -------------------------------------------------------------------------------------------------
// per grammar: occurrence grammar, directives, scan facts, sentences

/// the transformed grammar with full terminal occurrences
fn enc_grammar(p: &Pipe) -> Result<String, String> {
    let cfg = &p.gc.cfg;
    let nts: Vec<String> = cfg.get_non_terminal_set().into_iter().collect();
    let nt = |n: &str| nts.iter().position(|x| x == n).ok_or("grammar: unknown non-terminal".to_string());
    let mut prods = vec![];
    for pr in &cfg.pr {
        let mut syms = vec![];
        for s in pr.get_r() {
            match s {
                Symbol::N(n, ..) => syms.push(format!("n{}", nt(n)?)),
                Symbol::T(Terminal::Trm(t, k, st, _, _, _, l)) => syms.push(format!(
                    "t/{}/{}/{}",
                    enc_occ(t, *k, st, l),
                    enc(&k.expand(t)),
                    l.as_ref().map(|l| enc(&l.kind.expand(&l.pattern))).unwrap_or("-".to_string())
                )),
                _ => return Err("grammar: unexpected symbol".into()),
            }
        }
        prods.push(format!(
            "{}:{}:{}",
            nt(pr.get_n_str())?,
            if pr.2 == parol::grammar::ProductionAttribute::AddToCollection { 1 } else { 0 },
            syms.join("+")
        ));
    }
    Ok(if prods.is_empty() { "-".to_string() } else { prods.join(";") })
}

/// production of the transformed grammar that defines the primary non-terminal `name`
/// (first production `name: <one terminal>`), as the `terminal_finder` of `to_grammar_config.rs`
fn primary_production(cfg: &Cfg, name: &str) -> usize {
    cfg.pr
        .iter()
        .position(|p| p.get_n_str() == name && p.get_r().len() == 1 && matches!(p.get_r()[0], Symbol::T(Terminal::Trm(..))))
        .unwrap_or(999_999)
}

fn enc_directives(p: &Pipe) -> (String, String) {
    let cfg = &p.gc.cfg;
    let names: Vec<&str> = p.gc.scanner_configurations.iter().map(|s| s.scanner_name.as_str()).collect();
    let tr: Vec<String> = p
        .directives
        .iter()
        .map(|d| {
            if d.trans.is_empty() {
                "-".to_string()
            } else {
                d.trans
                    .iter()
                    .map(|(nt, kind, target)| {
                        let pr = primary_production(cfg, nt);
                        let tg = names.iter().position(|n| n == target).unwrap_or(999_999);
                        match kind {
                            0 => format!("{pr}:e:{tg}"),
                            1 => format!("{pr}:u:{tg}"),
                            _ => format!("{pr}:o"),
                        }
                    })
                    .collect::<Vec<_>>()
                    .join("+")
            }
        })
        .collect();
    let sk: Vec<String> = p
        .directives
        .iter()
        .map(|d| show_nats(&d.skips.iter().map(|nt| primary_production(cfg, nt)).collect::<Vec<_>>()))
        .collect();
    (if tr.is_empty() { "~".into() } else { tr.join(";") }, if sk.is_empty() { "~".into() } else { sk.join(";") })
}

/// The numbers `to_grammar_config.rs` computes for the directives: primary non-terminal looked up in
/// the UNTRANSFORMED grammar, index function of the UNTRANSFORMED grammar (used to attribute failures
/// to the listed finding F29: these numbers are kept although the transformation may renumber).
fn enc_directives_stale(p: &Pipe) -> (String, String) {
    let cfg = &p.pre_cfg;
    let ti = cfg.get_terminal_index_function();
    let names: Vec<&str> = p.gc.scanner_configurations.iter().map(|s| s.scanner_name.as_str()).collect();
    let num = |nt: &str| -> usize {
        cfg.pr
            .iter()
            .find_map(|pr| {
                if pr.get_n_str() == nt && pr.get_r().len() == 1 {
                    match &pr.get_r()[0] {
                        Symbol::T(Terminal::Trm(t, k, _, _, _, _, l)) => Some(ti.terminal_index(t, *k, l) as usize),
                        _ => None,
                    }
                } else {
                    None
                }
            })
            .unwrap_or(999_999)
    };
    let tr: Vec<String> = p
        .directives
        .iter()
        .map(|d| {
            if d.trans.is_empty() {
                "-".to_string()
            } else {
                d.trans
                    .iter()
                    .map(|(nt, kind, target)| {
                        let tg = names.iter().position(|n| n == target).unwrap_or(999_999);
                        match kind {
                            0 => format!("{}:e:{tg}", num(nt)),
                            1 => format!("{}:u:{tg}", num(nt)),
                            _ => format!("{}:o", num(nt)),
                        }
                    })
                    .collect::<Vec<_>>()
                    .join("+")
            }
        })
        .collect();
    let sk: Vec<String> =
        p.directives.iter().map(|d| show_nats(&d.skips.iter().map(|nt| num(nt)).collect::<Vec<_>>())).collect();
    (if tr.is_empty() { "~".into() } else { tr.join(";") }, if sk.is_empty() { "~".into() } else { sk.join(";") })
}

fn plain_text(t: &str, k: TerminalKind) -> bool {
    if t.is_empty() || t.len() > 40 {
        return false;
    }
    match k {
        // a raw terminal matches its own text; escapes (`\'`, `\u{..}`) are left to the structural check
        TerminalKind::Raw => t.chars().all(|c| c.is_ascii_graphic() && c != '\\' || c == ' '),
        // a regex without meta characters matches its own text
        _ => t.chars().all(|c| c.is_ascii_alphanumeric() || c == '_'),
    }
}

/// first match of a one-mode scanner on `text`: (type, start, end)
fn first_match(toks: &[Tok], text: &str) -> Result<Option<(usize, usize, usize)>, String> {
    let patterns = toks
        .iter()
        .map(|t| Ok((t.rx.clone().ok_or("no regex")?, t.ty, t.la.clone())))
        .collect::<Result<Vec<_>, String>>()?;
    let sc = build_scanner(vec![ModeDesc { name: "M".into(), patterns, transitions: vec![] }])?;
    let imp = Rc::new(RefCell::new(ScannerImpl::new(sc.modes)));
    let m = ScannerImpl::find_matches(imp, text, 0, *sc.match_function).next();
    Ok(m.map(|m| (m.token_type, m.span.start, m.span.end)))
}

/// What the scanner built from the GENERATED `scanner!` text (description `s`) does with the own
/// text of every plain terminal in each of its scanner states.
fn scan_facts(p: &Pipe, s: &Desc) -> String {
    let cfg = &p.gc.cfg;
    let ti = cfg.get_terminal_index_function();
    let ord = cfg.get_ordered_terminals();
    let mut facts = vec![];
    let mut done = BTreeSet::new();
    for (pi, pr) in cfg.pr.iter().enumerate() {
        for (j, sym) in pr.get_r().iter().enumerate() {
            let Symbol::T(Terminal::Trm(t, k, _, _, _, _, l)) = sym else { continue };
            let i = ti.terminal_index(t, *k, l) as usize;
            if !done.insert(i) {
                continue;
            }
            if !plain_text(t, *k) {
                continue;
            }
            let witness = match l {
                None => t.clone(),
                Some(l) if !l.is_positive => t.clone(),
                Some(l) if plain_text(&l.pattern, l.kind) => format!("{t}{}", l.pattern),
                Some(_) => continue,
            };
            let len = t.len();
            let states = ord.get(i - 5).map(|e| e.3.clone()).unwrap_or_default();
            for st in states {
                let Some(mode) = s.modes.get(st) else { continue };
                let Ok(full) = first_match(&mode.toks, &witness) else { continue };
                let full = match full {
                    Some((_, _, e)) if e > len => continue, // a longer match into the lookahead text: inconclusive
                    Some((ty, 0, e)) if e == len => Some(ty),
                    _ => None,
                };
                let alone = |ty: usize| -> Option<usize> {
                    let own: Vec<Tok> = mode.toks.iter().filter(|x| x.ty == ty).take(1).cloned().collect();
                    if own.is_empty() {
                        return None;
                    }
                    match first_match(&own, &witness) {
                        Ok(Some((ty, 0, e))) if e == len => Some(ty),
                        _ => None,
                    }
                };
                let single = alone(i);
                let winner_alone = match full {
                    Some(a) if a != i => alone(a) == Some(a),
                    _ => false,
                };
                let o = |x: Option<usize>| x.map(|v| v.to_string()).unwrap_or("x".to_string());
                facts.push(format!("{pi}.{j}:{st}:{}:{}:{}", o(full), o(single), if winner_alone { 1 } else { 0 }));
            }
        }
    }
    if facts.is_empty() { "-".to_string() } else { facts.join(";") }
}

/// Shortest sentences: for every production (reachable, productive) one sentence whose derivation
/// uses it, as lists of terminal positions `(production, symbol index)`.
fn sentences(p: &Pipe, max_count: usize, max_len: usize) -> String {
    let cfg = &p.gc.cfg;
    if p.conflicts > 0 {
        return "~".to_string(); // a table with resolved conflicts need not accept every sentence
    }
    let n = cfg.pr.len();
    // min yield per non-terminal
    let mut best: BTreeMap<String, Vec<(usize, usize)>> = BTreeMap::new();
    let expand = |best: &BTreeMap<String, Vec<(usize, usize)>>, pi: usize, from: usize, to: usize| -> Option<Vec<(usize, usize)>> {
        let mut v = vec![];
        for (j, s) in cfg.pr[pi].get_r().iter().enumerate().skip(from).take(to - from) {
            match s {
                Symbol::N(nm, ..) => v.extend(best.get(nm)?.iter().cloned()),
                Symbol::T(Terminal::Trm(..)) => v.push((pi, j)),
                _ => return None,
            }
        }
        Some(v)
    };
    loop {
        let mut changed = false;
        for pi in 0..n {
            let lhs = cfg.pr[pi].get_n();
            if let Some(v) = expand(&best, pi, 0, cfg.pr[pi].get_r().len()) {
                if best.get(&lhs).map(|b| v.len() < b.len()).unwrap_or(true) {
                    best.insert(lhs, v);
                    changed = true;
                }
            }
        }
        if !changed {
            break;
        }
    }
    // context of every non-terminal: (left, right) around it in a shortest sentential form
    let mut ctx: BTreeMap<String, (Vec<(usize, usize)>, Vec<(usize, usize)>)> = BTreeMap::new();
    ctx.insert(cfg.get_start_symbol().to_string(), (vec![], vec![]));
    let mut queue = VecDeque::from([cfg.get_start_symbol().to_string()]);
    while let Some(a) = queue.pop_front() {
        let (l, r) = ctx[&a].clone();
        for pi in 0..n {
            if cfg.pr[pi].get_n_str() != a {
                continue;
            }
            let len = cfg.pr[pi].get_r().len();
            for (j, s) in cfg.pr[pi].get_r().iter().enumerate() {
                if let Symbol::N(b, ..) = s {
                    if ctx.contains_key(b) {
                        continue;
                    }
                    let (Some(before), Some(after)) = (expand(&best, pi, 0, j), expand(&best, pi, j + 1, len)) else { continue };
                    let mut nl = l.clone();
                    nl.extend(before);
                    let mut nr = after;
                    nr.extend(r.iter().cloned());
                    ctx.insert(b.clone(), (nl, nr));
                    queue.push_back(b.clone());
                }
            }
        }
    }
    let mut out = vec![];
    for pi in 0..n {
        if out.len() >= max_count {
            break;
        }
        let Some((l, r)) = ctx.get(cfg.pr[pi].get_n_str()) else { continue };
        let Some(mid) = expand(&best, pi, 0, cfg.pr[pi].get_r().len()) else { continue };
        let mut s = l.clone();
        s.extend(mid);
        s.extend(r.iter().cloned());
        if s.len() > max_len {
            continue;
        }
        out.push(if s.is_empty() { "-".to_string() } else { s.iter().map(|(a, b)| format!("{a}.{b}")).collect::<Vec<_>>().join(",") });
    }
    out.sort();
    out.dedup();
    if out.is_empty() { "~".to_string() } else { out.join(";") }
}

pub fn make_tid(par: &str, k: usize) -> Option<String> {
    let p = std::panic::catch_unwind(|| pipeline(par, k)).ok()?.ok()?;
    let body = std::panic::catch_unwind(std::panic::AssertUnwindSafe(|| {
        let a = desc_analysis(&p);
        let m = desc_export(&p);
        let s = desc_source(&p);
        let g = enc_grammar(&p).unwrap_or_else(|e| format!("err:{}", enc(&e)));
        let (tr, sk) = enc_directives(&p);
        let (tr_old, sk_old) = enc_directives_stale(&p);
        let facts = match &s {
            Ok(s) => scan_facts(&p, s),
            Err(_) => "-".to_string(),
        };
        let sents = sentences(&p, 60, 80);
        format!("{g} {tr} {sk} {tr_old} {sk_old} {facts} {sents} {} {} {}", enc_desc(&a), enc_desc(&m), enc_desc(&s))
    }))
    .unwrap_or_else(|_| "panic".to_string());
    Some(format!("tid {} {} {}", enc(par), k, body))
}

// -------------------------------------------------------------------------------------------------

pub fn generate(seed: u64, thorough: bool) -> Vec<String> {
    let mut rng = Rng::new(seed ^ 0xC18);
    let mut out = gen_termidx(&mut rng, if thorough { 6000 } else { 800 });
    let mut seen = BTreeSet::new();
    for (par, k) in par_cases(seed, thorough) {
        if !seen.insert(par.clone()) {
            continue;
        }
        if let Some(c) = make_tid(&par, k) {
            out.push(c);
        }
    }
    out
}

pub fn run_case(w: &[&str]) -> Option<String> {
    match w.first().copied() {
        Some("termidx") => run_termidx(w),
        Some("tid") => {
            if w.len() != 3 + 7 + 33 {
                return None;
            }
            let par = dec(w[1])?;
            let k: usize = w[2].parse().ok()?;
            match make_tid(&par, k) {
                None => Some("rejected".to_string()),
                Some(line) => Some(if line == w.join(" ") { "same".to_string() } else { "changed".to_string() }),
            }
        }
        _ => None,
    }
}

pub fn cli(args: &[String]) {
    match args.first().map(|s| s.as_str()) {
        // `mk <file.par> <k>`: the `tid` case line for one grammar file (replays, debugging)
        Some("mk") => {
            let par = std::fs::read_to_string(&args[1]).expect("read");
            let k = args.get(2).and_then(|s| s.parse().ok()).unwrap_or(3);
            match make_tid(&par, k) {
                Some(c) => println!("@@ {c}"),
                None => println!("@@ rejected"),
            }
        }
        _ => standard_cli(args, generate, run_case),
    }
}
