//! placeholder
