//! Helpers shared by the language-server property modules of `pv_ls` (C30; later C27, C28, C29, C34).
//!
//! * [`LsSession`]: a real `crate::server::Server` with one open document, built WITHOUT a
//!   transport: the server's own `handle_open_document` / `handle_change_document` are called with
//!   an in-memory `lsp_server::Connection::memory()` pair, so the document goes through exactly the
//!   code path of a `textDocument/didOpen` notification (parse with parol-ls's parser, then the
//!   parol check and the background analysis thread). Everything the server publishes
//!   (`textDocument/publishDiagnostics`) can be read from `LsSession::drain()`.
//!   Requests go through the server's own entry point `<R as RequestHandler>::handle`, which is
//!   what `main_loop`'s `request_match!` calls (includes the `serde_json::to_value(..).unwrap()`).
//! * [`parse_document`]: only parol-ls's parser + semantic actions → `DocumentState`
//!   (`input`, `parsed_data` with symbol tables, `grammar`, `comments`), no server, no threads.
//! * hex transport of texts, `.par` corpus discovery below the repository.
#![allow(dead_code)]
use std::str::FromStr;
use std::sync::Arc;

use lsp_server::{Connection, Message, Notification, RequestId, Response};
use lsp_types::notification::Notification as _;
use lsp_types::{
    DidChangeTextDocumentParams, DidOpenTextDocumentParams, TextDocumentContentChangeEvent,
    TextDocumentItem, Uri, VersionedTextDocumentIdentifier,
};

use crate::document_state::DocumentState;
use crate::handler::RequestHandler;
use crate::parol_ls_grammar::ParolLsGrammar;
use crate::server::Server;

pub const DOC_URI: &str = "file:///verif/doc.par";

pub fn doc_uri() -> Uri {
    Uri::from_str(DOC_URI).unwrap()
}

pub struct LsSession {
    pub server: Server,
    /// server side of the in-memory connection (what the server writes to)
    pub conn: Arc<Connection>,
    /// client side: notifications published by the server arrive here
    pub client: Connection,
    pub uri: Uri,
    pub version: i32,
    next_id: i32,
}

impl LsSession {
    /// `max_k` is the lookahead limit of the background analysis only (the server's default is 3);
    /// it has no influence on the request handlers.
    pub fn new(max_k: usize) -> Self {
        let (conn, client) = Connection::memory();
        LsSession {
            server: Server::new(max_k),
            conn: Arc::new(conn),
            client,
            uri: doc_uri(),
            version: 0,
            next_id: 1,
        }
    }

    /// `textDocument/didOpen` with `text`. Err = the notification handler itself returned an error
    /// (protocol problems only; grammar errors are published as diagnostics, not returned).
    pub fn open(&mut self, text: &str) -> Result<(), String> {
        self.version += 1;
        let params = DidOpenTextDocumentParams {
            text_document: TextDocumentItem {
                uri: self.uri.clone(),
                language_id: "parol".to_string(),
                version: self.version,
                text: text.to_string(),
            },
        };
        let n = Notification {
            method: lsp_types::notification::DidOpenTextDocument::METHOD.to_string(),
            params: serde_json::to_value(params).unwrap(),
        };
        self.server
            .handle_open_document(self.conn.clone(), n)
            .map_err(|e| e.to_string())
    }

    /// `textDocument/didChange` (full text, as the server advertises `TextDocumentSyncKind::FULL`).
    pub fn change(&mut self, text: &str) -> Result<(), String> {
        self.version += 1;
        let params = DidChangeTextDocumentParams {
            text_document: VersionedTextDocumentIdentifier {
                uri: self.uri.clone(),
                version: self.version,
            },
            content_changes: vec![TextDocumentContentChangeEvent {
                range: None,
                range_length: None,
                text: text.to_string(),
            }],
        };
        let n = Notification {
            method: lsp_types::notification::DidChangeTextDocument::METHOD.to_string(),
            params: serde_json::to_value(params).unwrap(),
        };
        self.server
            .handle_change_document(self.conn.clone(), n)
            .map_err(|e| e.to_string())
    }

    /// Sends request `R` through the server's request entry point.
    pub fn request<R: RequestHandler>(&mut self, params: R::Params) -> Response {
        self.next_id += 1;
        R::handle(&mut self.server, RequestId::from(self.next_id), params)
    }

    /// Messages the server has sent so far (non-blocking).
    pub fn drain(&self) -> Vec<Message> {
        self.client.receiver.try_iter().collect()
    }
}

/// parol-ls's parser and semantic actions only. `Err` carries the parser's error text; the
/// returned state then holds whatever the actions collected before the error (as in the server).
pub fn parse_document(text: &str) -> (DocumentState, Result<(), String>) {
    let mut parsed = ParolLsGrammar::new();
    let r = crate::parol_ls_parser::parse(text, std::path::Path::new("/verif/doc.par"), &mut parsed)
        .map(|_| ())
        .map_err(|e| e.to_string());
    (DocumentState::new(text.to_string(), parsed), r)
}

// ---------------------------------------------------------------------------------------------
// text transport

/// `-` for the empty text, else lower-case hex of the UTF-8 bytes.
pub fn hex_text(s: &str) -> String {
    if s.is_empty() {
        return "-".to_string();
    }
    let mut r = String::with_capacity(s.len() * 2);
    for b in s.bytes() {
        r.push_str(&format!("{b:02x}"));
    }
    r
}

pub fn unhex_text(h: &str) -> Option<String> {
    if h == "-" {
        return Some(String::new());
    }
    if h.len() % 2 != 0 || !h.is_ascii() {
        return None;
    }
    let bytes: Option<Vec<u8>> = (0..h.len() / 2)
        .map(|i| u8::from_str_radix(&h[2 * i..2 * i + 2], 16).ok())
        .collect();
    String::from_utf8(bytes?).ok()
}

// ---------------------------------------------------------------------------------------------
// corpus

fn walk(dir: &std::path::Path, out: &mut Vec<std::path::PathBuf>) {
    let Ok(rd) = std::fs::read_dir(dir) else { return };
    let mut entries: Vec<_> = rd.filter_map(|e| e.ok()).map(|e| e.path()).collect();
    entries.sort();
    for p in entries {
        if p.is_dir() {
            if p.file_name().is_some_and(|n| n == "target" || n == ".git") {
                continue;
            }
            walk(&p, out);
        } else if p.extension().is_some_and(|e| e == "par") {
            out.push(p);
        }
    }
}

/// All `*.par` files below `<repo>/<rel>` (sorted), as (repo-relative name, text).
pub fn par_files(rel: &str) -> Vec<(String, String)> {
    let root = std::path::Path::new(crate::LS_REPO);
    let start = root.join(rel);
    let mut files = vec![];
    if start.is_file() {
        files.push(start);
    } else {
        walk(&start, &mut files);
    }
    files
        .into_iter()
        .filter_map(|p| {
            let text = std::fs::read_to_string(&p).ok()?;
            let name = p.strip_prefix(root).ok()?.display().to_string();
            Some((name, text))
        })
        .collect()
}
