//! C28 — renaming a symbol in the language server is a consistent renaming.
//!
//! For one grammar text and one renameable symbol (a non-terminal other than the start symbol, or a
//! scanner state other than INITIAL) the REAL server (`lsutil::LsSession`: document opened through
//! the server's own didOpen handler) is sent `textDocument/prepareRename` and `textDocument/rename`
//! at positions inside EVERY occurrence of the symbol, with a fresh new name. Positions are sent
//! and edit ranges are read as the protocol defines them when no position encoding is negotiated
//! (the server negotiates none): UTF-16 code units within a line, lines ended by LF, CRLF or CR.
//!
//! What the reply carries (everything the Lean oracle `ls28-check` needs; it decides the property):
//! * the token list of the original text from the REAL parol-ls scanner (`TokenStream` over
//!   `ParolLsGrammarScanner`, non-skip tokens), positions converted from byte offsets to UTF-16
//!   positions by this harness, and for every Identifier token its ROLE, computed here from the
//!   parse tree of the server's LL(k) parser run WITHOUT tree trimming into a recording
//!   `TreeConstruct` — by grammar context only (which non-terminal node the identifier hangs under,
//!   which keyword precedes it), independent of the server's symbol tables;
//! * every prepare-rename answer; every DISTINCT rename answer (edits sorted) with the number of
//!   positions that produced it, the text that results from applying the edits under UTF-16
//!   semantics (done here; the oracle applies them again with the verified `applyEdits` and
//!   compares), and the token list of that result text from the real scanner.
//!
//! Case: `ls28 <hex text> <nt|st> <name> <new name>`.
use std::collections::BTreeMap;
use std::io::Write;

use lsp_types::request::{PrepareRenameRequest, Rename};
use lsp_types::{
    DocumentChanges, OneOf, Position, PrepareRenameResponse, RenameParams, TextDocumentIdentifier,
    TextDocumentPositionParams, WorkDoneProgressParams, WorkspaceEdit,
};
use parol_runtime::parser::parse_tree_type::TreeConstruct;
use parol_runtime::parser::{LLKParser, ParseTreeType, UserActionsTrait};
use parol_runtime::{ParolError, Token, TokenStream};
use pv::rng::Rng;
use pv::util::run_lines;

use crate::lsutil::*;
use crate::parol_ls_parser::parol_ls_grammar_scanner::ParolLsGrammarScanner;
use crate::parol_ls_parser::{
    LOOKAHEAD_AUTOMATA, NON_TERMINALS, PRODUCTIONS, SKIP_TOKENS_BY_SCANNER_STATE, TERMINAL_NAMES,
};

// ---------------------------------------------------------------------------------------------
// UTF-16 positions (LSP: lines end at LF, CRLF or a lone CR)

/// byte offset of the start of every line
fn line_starts(text: &str) -> Vec<usize> {
    let b = text.as_bytes();
    let mut v = vec![0];
    let mut i = 0;
    while i < b.len() {
        if b[i] == b'\n' {
            v.push(i + 1);
        } else if b[i] == b'\r' {
            if i + 1 < b.len() && b[i + 1] == b'\n' {
                i += 1;
            }
            v.push(i + 1);
        }
        i += 1;
    }
    v
}

/// byte offset of the end of the content of line `l` (before its terminator)
fn line_content_end(text: &str, starts: &[usize], l: usize) -> usize {
    let end = if l + 1 < starts.len() { starts[l + 1] } else { text.len() };
    let mut e = end;
    let b = text.as_bytes();
    if l + 1 < starts.len() {
        if e > starts[l] && b[e - 1] == b'\n' {
            e -= 1;
            if e > starts[l] && b[e - 1] == b'\r' {
                e -= 1;
            }
        } else if e > starts[l] && b[e - 1] == b'\r' {
            e -= 1;
        }
    }
    e
}

fn byte_to_pos(text: &str, starts: &[usize], off: usize) -> (u32, u32) {
    let l = match starts.binary_search(&off) {
        Ok(i) => i,
        Err(i) => i - 1,
    };
    let c: usize = text[starts[l]..off].chars().map(|c| c.len_utf16()).sum();
    (l as u32, c as u32)
}

/// `None`: no such line, beyond the line's content, or inside a surrogate pair.
fn pos_to_byte(text: &str, starts: &[usize], line: u32, ch: u32) -> Option<usize> {
    let l = line as usize;
    if l >= starts.len() {
        return None;
    }
    let end = line_content_end(text, starts, l);
    let mut units = 0u32;
    let mut off = starts[l];
    for c in text[starts[l]..end].chars() {
        if units == ch {
            return Some(off);
        }
        if units > ch {
            return None;
        }
        units += c.len_utf16() as u32;
        off += c.len_utf8();
    }
    if units == ch { Some(off) } else { None }
}

// ---------------------------------------------------------------------------------------------
// the real scanner and the real parser (untrimmed tree)

#[derive(Clone, Debug, PartialEq)]
pub struct Tk {
    ty: u16,
    start: usize,
    end: usize,
}

fn term_index(name: &str) -> u16 {
    TERMINAL_NAMES.iter().position(|n| *n == name).expect("terminal name") as u16
}

/// Non-skip tokens of `text` from the real `TokenStream` over the real scanner (EOI excluded).
fn lex(text: &str) -> Result<Vec<Tk>, String> {
    let scanner = ParolLsGrammarScanner::new();
    let mut ts = TokenStream::new_with_skip_tokens(
        text,
        "/verif/doc.par",
        scanner.scanner_impl.clone(),
        &ParolLsGrammarScanner::match_function,
        1,
        SKIP_TOKENS_BY_SCANNER_STATE,
    )
    .map_err(|e| e.to_string())?;
    let mut out = vec![];
    loop {
        let _ = ts.take_skip_tokens();
        if ts.all_input_consumed() {
            break;
        }
        let t = ts.consume().map_err(|e| e.to_string())?;
        if t.token_type == 0 {
            break;
        }
        let (s, e) = (t.location.start as usize, t.location.end as usize);
        if text.get(s..e) != Some(t.text()) {
            return Err("token-text-mismatch".to_string());
        }
        out.push(Tk { ty: t.token_type, start: s, end: e });
        if out.len() > 1_000_000 {
            return Err("too-many-tokens".to_string());
        }
    }
    Ok(out)
}

enum Evt {
    Open(&'static str),
    Close,
    Tok(Tk),
}

#[derive(Default)]
struct Rec {
    events: Vec<Evt>,
}

impl<'t> TreeConstruct<'t> for Rec {
    type Error = ParolError;
    type Tree = ();
    fn open_non_terminal(&mut self, name: &'static str, _: Option<usize>) -> Result<(), ParolError> {
        self.events.push(Evt::Open(name));
        Ok(())
    }
    fn close_non_terminal(&mut self) -> Result<(), ParolError> {
        self.events.push(Evt::Close);
        Ok(())
    }
    fn add_token(&mut self, token: &Token<'t>) -> Result<(), ParolError> {
        self.events.push(Evt::Tok(Tk {
            ty: token.token_type,
            start: token.location.start as usize,
            end: token.location.end as usize,
        }));
        Ok(())
    }
    fn build(self) -> Result<(), ParolError> {
        Ok(())
    }
}

struct NoActions;

impl<'t> UserActionsTrait<'t> for NoActions {
    fn call_semantic_action_for_production_number(
        &mut self,
        _prod_num: usize,
        _children: &[ParseTreeType<'t>],
    ) -> parol_runtime::Result<()> {
        Ok(())
    }
    fn on_comment(&mut self, _token: Token<'t>) {}
}

/// Role of an identifier token by grammar context.
#[derive(Clone, Copy, PartialEq, Debug)]
pub enum Role {
    /// non-terminal: `%start`, production left-hand side, right-hand-side use, `%nt_type` name,
    /// `%on` / `%skip` lists
    Nt,
    /// scanner state: `%scanner` name, `<…>` list, `%enter` / `%push` target
    St,
    /// anything else: user type alias and path segments, member names
    Other,
    /// a context this harness does not know (reported)
    Unknown,
}

/// (identifier token start → role, start symbol) from the untrimmed parse tree.
fn roles(text: &str) -> Result<(BTreeMap<usize, Role>, Option<String>), String> {
    let ident = term_index("Identifier");
    let mut parser = LLKParser::new(PRODUCTIONS[0].lhs, LOOKAHEAD_AUTOMATA, PRODUCTIONS, TERMINAL_NAMES, NON_TERMINALS);
    parser.disable_recovery();
    parser.set_max_parsing_depth(1500);
    let scanner = ParolLsGrammarScanner::new();
    let ts = TokenStream::new_with_skip_tokens(
        text,
        "/verif/doc.par",
        scanner.scanner_impl.clone(),
        &ParolLsGrammarScanner::match_function,
        1,
        SKIP_TOKENS_BY_SCANNER_STATE,
    )
    .map_err(|e| e.to_string())?;
    let mut rec = Rec::default();
    let mut actions = NoActions;
    parser.parse_into(&mut rec, ts, &mut actions).map_err(|e| e.to_string())?;
    // stack of (non-terminal name, token types seen so far directly below it)
    let mut stack: Vec<(&'static str, Vec<u16>)> = vec![];
    let mut map = BTreeMap::new();
    let mut start_symbol = None;
    for ev in &rec.events {
        match ev {
            Evt::Open(n) => stack.push((n, vec![])),
            Evt::Close => {
                stack.pop();
            }
            Evt::Tok(t) => {
                if t.ty == ident {
                    // ancestors above the `Identifier` node, skipping the list helpers
                    let mut i = stack.len();
                    let mut ctx: Option<&(&'static str, Vec<u16>)> = None;
                    while i > 0 {
                        i -= 1;
                        let n = stack[i].0;
                        if n == "Identifier" || n == "IdentifierList" || n == "IdentifierListList" {
                            continue;
                        }
                        ctx = Some(&stack[i]);
                        break;
                    }
                    let first_kw = |c: &(&'static str, Vec<u16>)| c.1.first().map(|t| TERMINAL_NAMES[*t as usize]);
                    let role = match ctx {
                        Some(c) => match c.0 {
                            "StartDeclaration" => {
                                start_symbol = Some(text[t.start..t.end].to_string());
                                Role::Nt
                            }
                            "ProductionLHS" | "NonTerminal" => Role::Nt,
                            "Declaration" => match first_kw(c) {
                                Some("PercentNtUnderscoreType") => Role::Nt,
                                Some("PercentUserUnderscoreType") => Role::Other,
                                _ => Role::Unknown,
                            },
                            "ScannerDirectives" => match first_kw(c) {
                                Some("PercentSkip") | Some("PercentOn") => Role::Nt,
                                _ => Role::Unknown,
                            },
                            "ScannerState" => Role::St,
                            "ScannerStateDirectives" => match first_kw(c) {
                                Some("PercentEnter") | Some("PercentPush") => Role::St,
                                _ => Role::Unknown,
                            },
                            "TokenWithStates" => Role::St,
                            "MemberName" | "UserTypeName" | "UserTypeNameList" => Role::Other,
                            _ => Role::Unknown,
                        },
                        None => Role::Unknown,
                    };
                    if role == Role::Unknown && std::env::var("C28_DEBUG").is_ok() {
                        eprintln!("unknown context: {:?} for {}", ctx, &text[t.start..t.end]);
                    }
                    map.insert(t.start, role);
                }
                // white space and comments are attached to the tree where they occur: not context
                if t.ty > 4
                    && let Some(top) = stack.last_mut()
                {
                    top.1.push(t.ty);
                }
            }
        }
    }
    Ok((map, start_symbol))
}

fn role_letter(r: Option<Role>) -> char {
    match r {
        None => 'x',
        Some(Role::Nt) => 'n',
        Some(Role::St) => 's',
        Some(Role::Other) => 'o',
        Some(Role::Unknown) => 'u',
    }
}

/// Everything known about a text: tokens with UTF-16 positions and roles.
pub struct Doc {
    text: String,
    starts: Vec<usize>,
    toks: Vec<Tk>,
    roles: BTreeMap<usize, Role>,
    start_symbol: Option<String>,
}

impl Doc {
    pub fn new(text: &str) -> Result<Doc, String> {
        let toks = lex(text)?;
        let (roles, start_symbol) = roles(text)?;
        let ident = term_index("Identifier");
        let n_ident = toks.iter().filter(|t| t.ty == ident).count();
        if n_ident != roles.len() || toks.iter().any(|t| t.ty == ident && !roles.contains_key(&t.start)) {
            return Err("scanner-and-parse-tree-disagree".to_string());
        }
        Ok(Doc { text: text.to_string(), starts: line_starts(text), toks, roles, start_symbol })
    }

    fn show_toks(&self) -> String {
        if self.toks.is_empty() {
            return "-".to_string();
        }
        self.toks
            .iter()
            .map(|t| {
                let (sl, sc) = byte_to_pos(&self.text, &self.starts, t.start);
                let (el, ec) = byte_to_pos(&self.text, &self.starts, t.end);
                format!("{}:{sl}:{sc}:{el}:{ec}:{}", t.ty, role_letter(self.roles.get(&t.start).copied()))
            })
            .collect::<Vec<_>>()
            .join(",")
    }

    /// renameable symbols: (kind, name) with their occurrence tokens
    pub fn symbols(&self) -> BTreeMap<(char, String), Vec<Tk>> {
        let mut m: BTreeMap<(char, String), Vec<Tk>> = BTreeMap::new();
        for t in &self.toks {
            let name = &self.text[t.start..t.end];
            match self.roles.get(&t.start) {
                Some(Role::Nt) if Some(name) != self.start_symbol.as_deref() => {
                    m.entry(('n', name.to_string())).or_default().push(t.clone());
                }
                Some(Role::St) if name != "INITIAL" => {
                    m.entry(('s', name.to_string())).or_default().push(t.clone());
                }
                _ => (),
            }
        }
        m
    }

    fn identifiers(&self) -> Vec<&str> {
        self.roles.keys().map(|s| {
            let t = self.toks.iter().find(|t| t.start == *s).unwrap();
            &self.text[t.start..t.end]
        }).collect()
    }
}

fn show_rtoks(text: &str) -> String {
    match lex(text) {
        Err(_) => "!".to_string(),
        Ok(toks) => {
            if toks.is_empty() {
                return "-".to_string();
            }
            let starts = line_starts(text);
            toks.iter()
                .map(|t| {
                    let (sl, sc) = byte_to_pos(text, &starts, t.start);
                    let (el, ec) = byte_to_pos(text, &starts, t.end);
                    format!("{}:{sl}:{sc}:{el}:{ec}", t.ty)
                })
                .collect::<Vec<_>>()
                .join(",")
        }
    }
}

// ---------------------------------------------------------------------------------------------
// requests

type Edit = (u32, u32, u32, u32, String);

/// `None` = the server answered null; edits sorted by range.
fn rename_at(s: &mut LsSession, line: u32, ch: u32, new_name: &str) -> Result<Option<Vec<Edit>>, String> {
    let params = RenameParams {
        text_document_position: TextDocumentPositionParams {
            text_document: TextDocumentIdentifier { uri: s.uri.clone() },
            position: Position { line, character: ch },
        },
        new_name: new_name.to_string(),
        work_done_progress_params: WorkDoneProgressParams::default(),
    };
    let resp = s.request::<Rename>(params);
    let Ok(v) = resp.response_result else {
        return Err("error-response".to_string());
    };
    if v.is_null() {
        return Ok(None);
    }
    let we: WorkspaceEdit = serde_json::from_value(v).map_err(|_| "unparsable-response".to_string())?;
    let mut edits: Vec<Edit> = vec![];
    let mut push = |e: &lsp_types::TextEdit| {
        edits.push((e.range.start.line, e.range.start.character, e.range.end.line, e.range.end.character, e.new_text.clone()));
    };
    if let Some(ch) = &we.changes {
        for (uri, es) in ch {
            if uri.as_str() != DOC_URI {
                return Err("edit-for-another-document".to_string());
            }
            es.iter().for_each(&mut push);
        }
    }
    match &we.document_changes {
        None => (),
        Some(DocumentChanges::Edits(tdes)) => {
            for tde in tdes {
                if tde.text_document.uri.as_str() != DOC_URI {
                    return Err("edit-for-another-document".to_string());
                }
                for e in &tde.edits {
                    match e {
                        OneOf::Left(te) => push(te),
                        OneOf::Right(a) => push(&a.text_edit),
                    }
                }
            }
        }
        Some(DocumentChanges::Operations(_)) => return Err("resource-operations".to_string()),
    }
    edits.sort();
    Ok(Some(edits))
}

fn prepare_at(s: &mut LsSession, line: u32, ch: u32) -> Result<String, String> {
    let params = TextDocumentPositionParams {
        text_document: TextDocumentIdentifier { uri: s.uri.clone() },
        position: Position { line, character: ch },
    };
    let resp = s.request::<PrepareRenameRequest>(params);
    let Ok(v) = resp.response_result else {
        return Err("error-response".to_string());
    };
    if v.is_null() {
        return Ok("none".to_string());
    }
    match serde_json::from_value::<PrepareRenameResponse>(v).map_err(|_| "unparsable-response".to_string())? {
        PrepareRenameResponse::Range(r) | PrepareRenameResponse::RangeWithPlaceholder { range: r, .. } => {
            Ok(format!("{}:{}:{}:{}", r.start.line, r.start.character, r.end.line, r.end.character))
        }
        PrepareRenameResponse::DefaultBehavior { .. } => Ok("default".to_string()),
    }
}

/// Applies non-overlapping edits given in UTF-16 positions of `text` (all refer to the original).
fn apply_edits(text: &str, edits: &[Edit]) -> Option<String> {
    let starts = line_starts(text);
    let mut flat: Vec<(usize, usize, &str)> = vec![];
    for (sl, sc, el, ec, new) in edits {
        let a = pos_to_byte(text, &starts, *sl, *sc)?;
        let b = pos_to_byte(text, &starts, *el, *ec)?;
        if b < a {
            return None;
        }
        flat.push((a, b, new.as_str()));
    }
    flat.sort_by_key(|e| (e.0, e.1));
    let mut out = String::new();
    let mut at = 0usize;
    let mut last_start: Option<usize> = None;
    for (a, b, new) in flat {
        if a < at || last_start == Some(a) {
            return None; // overlapping, or two edits at the same position
        }
        out.push_str(&text[at..a]);
        out.push_str(new);
        at = b;
        last_start = Some(a);
    }
    out.push_str(&text[at..]);
    Some(out)
}

fn show_edits(e: &Option<Vec<Edit>>) -> String {
    match e {
        None => "none".to_string(),
        Some(v) if v.is_empty() => "-".to_string(),
        Some(v) => v
            .iter()
            .map(|(sl, sc, el, ec, new)| format!("{sl}:{sc}:{el}:{ec}:{}", hex_text(new)))
            .collect::<Vec<_>>()
            .join(","),
    }
}

/// The reply for one (text, symbol, new name).
fn rename_case(text: &str, kind: char, name: &str, new_name: &str) -> String {
    let doc = match Doc::new(text) {
        Ok(d) => d,
        Err(e) => return format!("invalid {}", e.split_whitespace().next().unwrap_or("?").chars().filter(|c| c.is_ascii_alphanumeric() || *c == '-').collect::<String>()),
    };
    if doc.roles.values().any(|r| *r == Role::Unknown) {
        return "unknown-identifier-context".to_string();
    }
    let syms = doc.symbols();
    let Some(occ) = syms.get(&(kind, name.to_string())) else {
        return "no-such-symbol".to_string();
    };
    if doc.identifiers().contains(&new_name) {
        return "name-not-fresh".to_string();
    }
    let mut s = LsSession::new(1);
    if s.open(text).is_err() {
        return "open-failed".to_string();
    }
    let mut preps = vec![];
    // distinct rename answers: shown edits -> (count, first position, edits)
    let mut answers: Vec<(String, usize, (u32, u32), Option<Vec<Edit>>)> = vec![];
    for t in occ {
        let (l, c0) = byte_to_pos(&doc.text, &doc.starts, t.start);
        let len = (t.end - t.start) as u32; // identifiers are ASCII
        let mut cols = vec![c0, c0 + len / 2, c0 + len - 1];
        cols.dedup();
        for c in cols {
            match prepare_at(&mut s, l, c) {
                Ok(p) => preps.push(format!("{l}:{c}:{p}")),
                Err(e) => return format!("prepare-{e}"),
            }
            let r = match rename_at(&mut s, l, c, new_name) {
                Ok(r) => r,
                Err(e) => return format!("rename-{e}"),
            };
            let key = show_edits(&r);
            match answers.iter_mut().find(|a| a.0 == key) {
                Some(a) => a.1 += 1,
                None => answers.push((key, 1, (l, c), r)),
            }
        }
    }
    let mut out = format!("ok {} {} {}", doc.show_toks(), if preps.is_empty() { "-".to_string() } else { preps.join(",") }, answers.len());
    for (key, n, (l, c), r) in &answers {
        let (res, rtoks) = match r {
            None => ("!".to_string(), "!".to_string()),
            Some(es) => match apply_edits(text, es) {
                None => ("!".to_string(), "!".to_string()),
                Some(t) => (hex_text(&t), show_rtoks(&t)),
            },
        };
        out.push_str(&format!(" {n} {l} {c} {key} {res} {rtoks}"));
    }
    out
}

pub fn run_case(w: &[&str]) -> Option<String> {
    match w {
        ["ls28", t, kind, name, new_name] => {
            let t = unhex_text(t)?;
            let kind = match *kind {
                "nt" => 'n',
                "st" => 's',
                _ => return None,
            };
            Some(rename_case(&t, kind, name, new_name))
        }
        _ => None,
    }
}

// ---------------------------------------------------------------------------------------------
// generation

/// Offsets of line starts that do not lie strictly inside a token or comment (safe places for a
/// block comment).
fn safe_line_starts(text: &str) -> Vec<usize> {
    // all matches incl. comments: take the non-skip tokens and treat everything between them that is
    // not pure whitespace as unsafe
    let Ok(toks) = lex(text) else { return vec![] };
    let starts = line_starts(text);
    let mut safe = vec![];
    for &ls in &starts {
        if ls >= text.len() {
            continue;
        }
        if toks.iter().any(|t| t.start < ls && ls < t.end) {
            continue;
        }
        // inside a gap: safe only if the gap up to the next token start (or the end) contains no
        // comment characters before this line start (i.e. we are not inside a block comment)
        let prev_end = toks.iter().filter(|t| t.end <= ls).map(|t| t.end).max().unwrap_or(0);
        if text[prev_end..ls].chars().all(|c| c.is_whitespace()) {
            safe.push(ls);
        }
    }
    safe
}

fn with_comments(text: &str, comment: &str) -> String {
    let safe = safe_line_starts(text);
    let mut out = String::new();
    let mut at = 0;
    for s in safe {
        out.push_str(&text[at..s]);
        out.push_str(comment);
        at = s;
    }
    out.push_str(&text[at..]);
    out
}

const NT_NAMES: [&str; 6] = ["Alpha", "Beta", "Gamma", "Tok", "Esc", "N_1"];
const ST_NAMES: [&str; 4] = ["Esc", "Str", "Alpha", "Mode2"];

/// Small texts that use every identifier context of the grammar, with deliberate name clashes
/// between non-terminals, scanner states, user type aliases and member names.
fn generated(rng: &mut Rng) -> String {
    let nn = rng.range(2, NT_NAMES.len());
    let ns = rng.range(0, ST_NAMES.len());
    let nts: Vec<&str> = NT_NAMES[..nn].to_vec();
    let sts: Vec<&str> = ST_NAMES[..ns].to_vec();
    let nl = if rng.chance(1, 4) { "\r\n" } else { "\n" };
    let mut t = String::new();
    t.push_str(&format!("%start S{nl}"));
    if rng.chance(1, 2) {
        t.push_str(&format!("%title \"gen ÄÖ\"{nl}"));
    }
    for n in &nts {
        if rng.chance(1, 3) {
            t.push_str(&format!("%nt_type {n} = crate::{n}::{n}{nl}"));
        }
        if rng.chance(1, 4) {
            t.push_str(&format!("%user_type {n} = crate::types::{n}{nl}"));
        }
    }
    if rng.chance(1, 3) {
        t.push_str(&format!("%t_type crate::{}{nl}", rng.pick(&nts)));
    }
    let id_list = |rng: &mut Rng, pool: &[&str]| -> String {
        let k = rng.range(1, 3);
        (0..k).map(|_| *rng.pick(pool)).collect::<Vec<_>>().join(if rng.chance(1, 2) { ", " } else { "," })
    };
    let mut targets: Vec<&str> = sts.clone();
    targets.push("INITIAL");
    if !sts.is_empty() && rng.chance(2, 3) {
        t.push_str(&format!("%on {} %enter {}{nl}", id_list(rng, &nts), rng.pick(&targets)));
    }
    for st in &sts {
        t.push_str(&format!("%scanner {st} {{{nl}"));
        if rng.chance(1, 2) {
            t.push_str(&format!("    %auto_newline_off{nl}"));
        }
        if rng.chance(1, 2) {
            t.push_str(&format!("    %skip {}{nl}", id_list(rng, &nts)));
        }
        if rng.chance(2, 3) {
            let d = match rng.below(3) {
                0 => format!("%enter {}", rng.pick(&targets)),
                1 => format!("%push {}", rng.pick(&targets)),
                _ => "%pop".to_string(),
            };
            t.push_str(&format!("    %on {} {d} // {}{nl}", id_list(rng, &nts), rng.pick(&nts)));
        }
        t.push_str(&format!("}}{nl}"));
    }
    t.push_str(&format!("%%{nl}"));
    // productions: S first, then one or two per non-terminal
    let mut prods: Vec<(String, usize)> = vec![("S".to_string(), 0)];
    for (i, n) in nts.iter().enumerate() {
        prods.push((n.to_string(), i + 1));
        if rng.chance(1, 3) {
            prods.push((n.to_string(), i + 1));
        }
    }
    let mut lit = 0;
    for (lhs, _) in &prods {
        let nalts = rng.range(1, 2);
        let mut alts = vec![];
        for _ in 0..nalts {
            let nf = rng.range(1, 4);
            let mut fs = vec![];
            for _ in 0..nf {
                let f = match rng.below(8) {
                    0 | 1 => {
                        let mut s = rng.pick(&nts).to_string();
                        match rng.below(5) {
                            0 => s.push('^'),
                            1 => s.push_str(&format!("@{}", rng.pick(&nts))),
                            2 => s.push_str(&format!(": {}::{}", rng.pick(&nts), rng.pick(&nts))),
                            _ => (),
                        }
                        s
                    }
                    2 => {
                        lit += 1;
                        format!("\"t{lit}\"")
                    }
                    3 if !sts.is_empty() => {
                        lit += 1;
                        format!("<{}>\"u{lit}\"", id_list(rng, &targets))
                    }
                    4 => format!("[ {} ]", rng.pick(&nts)),
                    5 => format!("{{ {} \"x{lit}\" }}", rng.pick(&nts)),
                    6 => format!("( {} | {} )", rng.pick(&nts), rng.pick(&nts)),
                    _ => {
                        lit += 1;
                        format!("/r{lit}/ /* {} */", rng.pick(&nts))
                    }
                };
                fs.push(f);
            }
            alts.push(fs.join(" "));
        }
        t.push_str(&format!("{lhs}: {};{nl}", alts.join(" | ")));
    }
    t
}

fn handwritten() -> Vec<(&'static str, String)> {
    let v: Vec<(&str, &str)> = vec![
        ("hw/f18", "%start S\n%%\nS: \"😀\" Item /* 😀 */ Item;\nItem: \"a\";\n"),
        ("hw/bmp", "%start S\n%%\nS: \"Ü€\" Item /* ÄÖ */ Item;\nItem: \"ä\";\n"),
        ("hw/states", "%start S\n%on A, B %enter Esc\n%scanner Esc {\n    %auto_newline_off\n    %on A %enter INITIAL\n    %skip B\n}\n%scanner Str { %on B %push Esc }\n%%\nS: A <Esc, Str>\"x\" B Esc;\nA: \"a\";\nB: <Esc>\"b\";\nEsc: <INITIAL, Esc>\"e\";\n"),
        ("hw/types", "%start S\n%user_type N = crate::N\n%nt_type N = crate::S\n%nt_type B = crate::B\n%t_type crate::T\n%%\nS: \"a\": N | B: crate::N N@B | N;\nB: \"b\"^;\nN: \"n\" B@N;\n"),
        ("hw/crlf", "%start S\r\n%%\r\nS: A A;\r\nA: \"a\";\r\n"),
        ("hw/cr", "%start S\r%%\rS: A A;\rA: \"a\";\r"),
        ("hw/no-eol", "%start S\n%%\nS: A;\nA: \"a\" A | ;"),
        ("hw/tabs", "%start S\n%%\nS:\tA\t\tA;\n\tA\t: \"a\";\n"),
    ];
    v.into_iter().map(|(a, b)| (a, b.to_string())).collect()
}

fn fresh_name(doc: &Doc, rng: &mut Rng, old: &str) -> String {
    let ids = doc.identifiers();
    for i in 0..1000 {
        let cand = match (rng.below(4), i) {
            (0, 0..=3) => "Q".to_string(),
            (1, _) => format!("{old}_{}", rng.range(0, 99)),
            (2, _) => format!("Renamed{}", rng.range(0, 999)),
            _ => format!("q_{}", rng.range(0, 9999)),
        };
        if !ids.contains(&cand.as_str()) && cand != "INITIAL" {
            return cand;
        }
    }
    "Zz_unused_0".to_string()
}

pub fn generate(seed: u64, thorough: bool) -> Vec<String> {
    let mut rng = Rng::new(seed ^ 0xC28);
    let mut texts: Vec<(String, String)> = vec![];
    for (n, t) in handwritten() {
        texts.push((n.to_string(), t));
    }
    let mut base = par_files("examples");
    base.extend(par_files("crates/parol/data/valid"));
    base.extend(par_files("crates/parol/src/parser/parol.par"));
    if thorough {
        base.extend(par_files("crates/parol-ls/parol_ls.par"));
        base.extend(par_files("crates/parol/tests/data/valid"));
    }
    for (n, t) in &base {
        texts.push((n.clone(), t.clone()));
        // variants: CRLF, BMP comment before every line, astral comment before every line
        let which = if thorough { 7 } else { 1 << rng.below(3) };
        if which & 1 != 0 {
            texts.push((format!("{n}#crlf"), t.replace("\r\n", "\n").replace('\n', "\r\n")));
        }
        if which & 2 != 0 {
            texts.push((format!("{n}#bmp"), with_comments(t, "/*Ü€*/ ")));
        }
        if which & 4 != 0 {
            texts.push((format!("{n}#astral"), with_comments(t, "/*😀*/ ")));
        }
    }
    let ngen = if thorough { 400 } else { 60 };
    for i in 0..ngen {
        let t = generated(&mut rng);
        texts.push((format!("gen/{i}"), t.clone()));
        if i % 4 == 0 {
            texts.push((format!("gen/{i}#bmp"), with_comments(&t, "/*Ü€*/ ")));
        }
        if i % 8 == 1 {
            texts.push((format!("gen/{i}#astral"), with_comments(&t, "/*😀*/ ")));
        }
    }
    let per_text = if thorough { usize::MAX } else { 8 };
    let mut out = vec![];
    for (name, t) in &texts {
        let Ok(doc) = Doc::new(t) else {
            // not a text the server's parser accepts: outside the property's quantifier
            eprintln!("c28 gen: skipped (invalid) {name}");
            continue;
        };
        let syms: Vec<(char, String)> = doc.symbols().keys().cloned().collect();
        let mut chosen: Vec<usize> = (0..syms.len()).collect();
        if chosen.len() > per_text {
            for i in 0..per_text {
                let j = i + rng.below(chosen.len() - i);
                chosen.swap(i, j);
            }
            chosen.truncate(per_text);
            chosen.sort();
        }
        for i in chosen {
            let (k, name) = &syms[i];
            let new = fresh_name(&doc, &mut rng, name);
            out.push(format!("ls28 {} {} {name} {new}", hex_text(t), if *k == 'n' { "nt" } else { "st" }));
        }
    }
    out
}

/// `texts <seed> <tier>`: statistics about the generated texts (for the evidence).
fn stats(seed: u64, thorough: bool) {
    let cases = generate(seed, thorough);
    let mut texts = std::collections::BTreeSet::new();
    let (mut crlf, mut bmp, mut astral, mut cr) = (0, 0, 0, 0);
    for c in &cases {
        let w: Vec<&str> = c.split(' ').collect();
        if texts.insert(w[1].to_string()) {
            let t = unhex_text(w[1]).unwrap();
            if t.contains("\r\n") {
                crlf += 1;
            } else if t.contains('\r') {
                cr += 1;
            }
            if t.chars().any(|c| (c as u32) > 0xFFFF) {
                astral += 1;
            } else if !t.is_ascii() {
                bmp += 1;
            }
        }
    }
    println!("@@ stats cases={} texts={} crlf={crlf} cr_only={cr} bmp_non_ascii={bmp} astral={astral}", cases.len(), texts.len());
}

pub fn cli(args: &[String]) {
    let seed: u64 = args.get(1).and_then(|s| s.parse().ok()).unwrap_or(0);
    let thorough = args.get(2).map(|s| s == "thorough").unwrap_or(false);
    match args.first().map(|s| s.as_str()) {
        Some("gen") => {
            std::panic::set_hook(Box::new(|_| {}));
            let mut s = String::new();
            for c in generate(seed, thorough) {
                s.push_str("@@ ");
                s.push_str(&c);
                s.push('\n');
            }
            std::io::stdout().write_all(s.as_bytes()).unwrap();
        }
        Some("run") => run_lines(run_case),
        Some("stats") => stats(seed, thorough),
        _ => {
            eprintln!("usage: gen <seed> <quick|thorough> | run | stats <seed> <quick|thorough>");
            std::process::exit(2);
        }
    }
}
