//! C27 — the language server's formatter preserves meaning and comments and is idempotent.
//!
//! Translation validation of the REAL formatter (`crates/parol-ls/src/formatting`): there is no
//! model of the layout code; instead every formatter output is judged.
//!
//! * `fmt <e><s> <max_line_length> <hex text>` (a `run` case; `fmtgen` generates them): the text is
//!   parsed with parol-ls's parser and semantic actions (`lsutil::parse_document`) and formatted the
//!   way `Server::handle_formatting` does it: the server's `FormattingSettings`
//!   (`empty_line_after_prod` = e, `prod_semicolon_on_nl` = s, `max_line_length`) are written into
//!   the request's `FormattingOptions` with `add_to_options`, then `DocumentState::format` →
//!   `ParolLsGrammar::format` → `<&ParolLs as Format>::format`. The single whole-document edit is
//!   applied, the result is formatted a second time, and the original and the formatted text are
//!   lexed with the REAL parol-ls scanner. Reply:
//!     `ok <sig tokens orig> <comments orig> <sig tokens formatted> <comments formatted> <idempotent 0|1> f:<flags>`
//!   (token lists `type:hex,…` / `-`; one flag per original comment, see `comment_flags`), or
//!   `panic <file:line> trailing=<n> f:<flags>` (n = number of comments
//!   after the last `;` token: the structural signature of finding F17), `unparsable` (the
//!   ORIGINAL has a syntax error; not a formatter case), `reparse-failed …`, `edits-unexpected`.
//!   The Lean handler `fmt-check` decides the property on the reply.
//! * `gen` emits `par-ls <code points>` cases (tie D shared with C34): original texts with comments
//!   and formatter outputs, answered by the real parol-ls scanner + parser here and by the Lean
//!   lexer + LL model instantiated with the regenerated parol-ls tables on the other side.
#![allow(dead_code)]
use std::collections::{BTreeSet, HashMap};
use std::panic::{AssertUnwindSafe, catch_unwind};

use lsp_types::{
    DocumentFormattingParams, FormattingOptions, Position, TextDocumentIdentifier, WorkDoneProgressParams,
};
use pv::relower::cps;
use pv::rng::Rng;

use crate::c34::{Tk, Which, is_comment, is_skip, lex};
use crate::formatting::FormattingSettings;
use crate::lsutil::*;

#[derive(Clone, Copy, Debug, PartialEq, Eq)]
pub struct Opt {
    pub empty_line_after_prod: bool,
    pub prod_semicolon_on_nl: bool,
    pub max_line_length: usize,
}

pub const LINE_LENGTHS: [usize; 4] = [1, 30, 100, 1000];

/// All combinations of the formatter's settings (2 × 2 × the listed line lengths).
pub fn all_opts() -> Vec<Opt> {
    let mut v = vec![];
    for e in [true, false] {
        for s in [true, false] {
            for m in LINE_LENGTHS {
                v.push(Opt { empty_line_after_prod: e, prod_semicolon_on_nl: s, max_line_length: m });
            }
        }
    }
    v
}

fn opt_words(o: &Opt) -> String {
    format!("{}{} {}", o.empty_line_after_prod as u8, o.prod_semicolon_on_nl as u8, o.max_line_length)
}

fn parse_opt(bits: &str, len: &str) -> Option<Opt> {
    let b: Vec<char> = bits.chars().collect();
    if b.len() != 2 || b.iter().any(|c| *c != '0' && *c != '1') {
        return None;
    }
    Some(Opt { empty_line_after_prod: b[0] == '1', prod_semicolon_on_nl: b[1] == '1', max_line_length: len.parse().ok()? })
}

/// What `Server::handle_formatting` hands to the document: the client's options with the server's
/// formatting settings written over them.
fn request_params(o: &Opt) -> DocumentFormattingParams {
    let mut options = FormattingOptions {
        tab_size: 4,
        insert_spaces: true,
        properties: HashMap::new(),
        trim_trailing_whitespace: None,
        insert_final_newline: None,
        trim_final_newlines: None,
    };
    let settings = FormattingSettings {
        empty_line_after_prod: o.empty_line_after_prod,
        prod_semicolon_on_nl: o.prod_semicolon_on_nl,
        max_line_length: o.max_line_length,
    };
    settings.add_to_options(&mut options);
    DocumentFormattingParams {
        text_document: TextDocumentIdentifier { uri: doc_uri() },
        options,
        work_done_progress_params: WorkDoneProgressParams::default(),
    }
}

#[derive(Debug)]
pub enum FmtErr {
    Unparsable,
    NoResult,
    EditsUnexpected,
}

/// The real formatter on `text`; the whole-document edit applied.
pub fn format_text(text: &str, o: &Opt) -> Result<String, FmtErr> {
    let (state, r) = parse_document(text);
    if r.is_err() {
        return Err(FmtErr::Unparsable);
    }
    let edits = state.format(request_params(o)).ok_or(FmtErr::NoResult)?;
    if edits.len() != 1 {
        return Err(FmtErr::EditsUnexpected);
    }
    let e = &edits[0];
    let lines = text.lines().count() as u32;
    if e.range.start != (Position { line: 0, character: 0 }) || e.range.end.line < lines {
        return Err(FmtErr::EditsUnexpected);
    }
    Ok(e.new_text.clone())
}

fn enc_toks(text: &str, toks: &[&Tk]) -> String {
    if toks.is_empty() {
        return "-".into();
    }
    toks.iter()
        .map(|t| {
            let h = hex_text(&text[t.start..t.end]);
            format!("{}:{}", t.ty, if h == "-" { String::new() } else { h })
        })
        .collect::<Vec<_>>()
        .join(",")
}

fn lexed(text: &str) -> (String, String) {
    let toks = lex(Which::Ls, text);
    let sig: Vec<&Tk> = toks.iter().filter(|t| !is_skip(t.ty)).collect();
    let cm: Vec<&Tk> = toks.iter().filter(|t| is_comment(t.ty)).collect();
    (enc_toks(text, &sig), enc_toks(text, &cm))
}

/// Number of comment tokens after the last `;` token (0 if there is no `;`).
pub fn trailing_comments(text: &str) -> usize {
    let names = crate::parol_ls_parser::TERMINAL_NAMES;
    let semi = names.iter().position(|n| *n == "Semicolon").unwrap_or(usize::MAX);
    let toks = lex(Which::Ls, text);
    match toks.iter().rposition(|t| t.ty == semi) {
        Some(i) => toks[i + 1..].iter().filter(|t| is_comment(t.ty)).count(),
        None => 0,
    }
}

fn term_index(name: &str) -> usize {
    crate::parol_ls_parser::TERMINAL_NAMES.iter().position(|n| *n == name).unwrap_or(usize::MAX)
}

/// One flag set per comment of `text` (structural signatures of the listed findings, evaluated on
/// the ORIGINAL text), as a number: bit 0 (1) — the comment lies after the last `;` (F17); bit 1 (2) —
/// between the comment and the `;` that ends its production there is a `|` inside a group / option /
/// repetition (F32: that is where pending comments are dropped); bit 2 (4) — the comment directly
/// follows a significant token on the same line (a "trailing" comment, which the formatter emits
/// ahead of comments that are still pending: F34); bit 3 (8) — the comment follows such a trailing
/// LINE comment with only blanks / line breaks in between (F31: the line end of a trailing line comment
/// is removed and the next comment is appended to its line). Rendered `f:<flags>@<start byte>-<end byte>,…` / `f:-`.
pub fn comment_flags(text: &str) -> String {
    let toks = lex(Which::Ls, text);
    let (semi, or) = (term_index("Semicolon"), term_index("Or"));
    let open = [term_index("LParen"), term_index("LBracket"), term_index("LBrace")];
    let close = [term_index("RParen"), term_index("RBracket"), term_index("RBrace")];
    let last_semi = toks.iter().rposition(|t| t.ty == semi);
    // bracket depth in front of every token (reset by `;`)
    let mut depth = vec![0i32; toks.len() + 1];
    for (i, t) in toks.iter().enumerate() {
        let d = depth[i];
        depth[i + 1] = if t.ty == semi {
            0
        } else if open.contains(&t.ty) {
            d + 1
        } else if close.contains(&t.ty) {
            (d - 1).max(0)
        } else {
            d
        };
    }
    let mut flags: Vec<String> = vec![];
    let mut trailing_line: Vec<usize> = vec![];
    for (i, t) in toks.iter().enumerate() {
        if !is_comment(t.ty) {
            continue;
        }
        let mut f = 0usize;
        if last_semi.is_some_and(|l| i > l) {
            f |= 1;
        }
        for j in i + 1..toks.len() {
            if toks[j].ty == semi {
                break;
            }
            if toks[j].ty == or && depth[j] >= 1 {
                f |= 2;
                break;
            }
        }
        // trailing: previous token significant, or whitespace (type 2, no line break) after a significant one
        let prev_sig = |k: usize| k < toks.len() && !is_skip(toks[k].ty);
        if (i >= 1 && prev_sig(i - 1)) || (i >= 2 && toks[i - 1].ty == 2 && prev_sig(i - 2)) {
            f |= 4;
        }
        // follows (only blanks and line breaks in between) a trailing LINE comment
        let mut k = i;
        while k > 0 && (toks[k - 1].ty == 1 || toks[k - 1].ty == 2) {
            k -= 1;
        }
        if k > 0 && toks[k - 1].ty == 3 && trailing_line.contains(&(k - 1)) {
            f |= 8;
        }
        if toks[i].ty == 3 && f & 4 != 0 {
            trailing_line.push(i);
        }
        flags.push(format!("{f}@{}-{}", t.start, t.end));
    }
    format!("f:{}", if flags.is_empty() { "-".to_string() } else { flags.join(",") })
}

/// `text` with the comments of the given indices (in scanner order) replaced by a blank / a line break.
pub fn without_comments(text: &str, drop: &[usize]) -> String {
    let toks = lex(Which::Ls, text);
    let mut out = String::new();
    let mut k = 0usize;
    for t in &toks {
        let piece = &text[t.start..t.end];
        if is_comment(t.ty) {
            if drop.contains(&k) {
                out.push_str(if piece.ends_with('\n') || piece.ends_with('\r') { "\n" } else { " " });
            } else {
                out.push_str(piece);
            }
            k += 1;
        } else {
            out.push_str(piece);
        }
    }
    out
}

thread_local! {
    static LAST_PANIC_AT: std::cell::RefCell<String> = const { std::cell::RefCell::new(String::new()) };
}

fn install_panic_hook() {
    std::panic::set_hook(Box::new(|info| {
        let at = info
            .location()
            .map(|l| {
                let f = l.file().rsplit(['/', '\\']).next().unwrap_or("?");
                format!("{f}:{}", l.line())
            })
            .unwrap_or_else(|| "?".to_string());
        LAST_PANIC_AT.with(|c| *c.borrow_mut() = at);
    }));
}

fn fmt_case(o: &Opt, text: &str) -> String {
    let first = catch_unwind(AssertUnwindSafe(|| format_text(text, o)));
    let f1 = match first {
        Err(_) => {
            return format!(
                "panic {} trailing={} {}",
                LAST_PANIC_AT.with(|c| c.borrow().clone()),
                trailing_comments(text),
                comment_flags(text)
            );
        }
        Ok(Err(FmtErr::Unparsable)) => return "unparsable".into(),
        Ok(Err(FmtErr::NoResult)) => return "no-result".into(),
        Ok(Err(FmtErr::EditsUnexpected)) => return "edits-unexpected".into(),
        Ok(Ok(t)) => t,
    };
    let (so, co) = lexed(text);
    let (sf, cf) = lexed(&f1);
    let second = catch_unwind(AssertUnwindSafe(|| format_text(&f1, o)));
    let idem = match second {
        Err(_) => {
            return format!(
                "reparse-failed panic-on-second-run {} trailing={} {so} {co} {sf} {cf}",
                LAST_PANIC_AT.with(|c| c.borrow().clone()),
                trailing_comments(&f1)
            );
        }
        Ok(Err(e)) => return format!("reparse-failed {e:?} {so} {co} {sf} {cf} {}", comment_flags(text)),
        Ok(Ok(f2)) => f2 == f1,
    };
    // a run that is not idempotent also reports the once-formatted text (for the attribution)
    let f1_word = if idem { String::new() } else { format!(" f1={} g{}", hex_text(&f1), &comment_flags(&f1)[1..]) };
    format!("ok {so} {co} {sf} {cf} {} {}{f1_word}", idem as u8, comment_flags(text))
}

pub fn run_case(w: &[&str]) -> Option<String> {
    match w {
        ["fmt", bits, len, t] => {
            let o = parse_opt(bits, len)?;
            let text = unhex_text(t)?;
            Some(fmt_case(&o, &text))
        }
        // counterfactual for attribution: the text with some comments (indices in scanner order) removed
        ["text-without", t, idx] => {
            let text = unhex_text(t)?;
            let drop: Vec<usize> = pv::util::parse_nats(idx)?;
            Some(hex_text(&without_comments(&text, &drop)))
        }
        // the formatted text itself (for replays / reports)
        ["fmt-show", bits, len, t] => {
            let o = parse_opt(bits, len)?;
            let text = unhex_text(t)?;
            match format_text(&text, &o) {
                Ok(f) => Some(format!("ok {}", hex_text(&f))),
                Err(e) => Some(format!("{e:?}")),
            }
        }
        // the same document through a real `Server` (didOpen + textDocument/formatting over the in-memory
        // connection, default settings): must give the text of `fmt-show 11 100`
        ["fmt-server", t] => {
            let text = unhex_text(t)?;
            let mut s = LsSession::new(1);
            s.open(&text).ok()?;
            let params = DocumentFormattingParams {
                text_document: TextDocumentIdentifier { uri: s.uri.clone() },
                options: FormattingOptions {
                    tab_size: 4,
                    insert_spaces: true,
                    properties: HashMap::new(),
                    trim_trailing_whitespace: None,
                    insert_final_newline: None,
                    trim_final_newlines: None,
                },
                work_done_progress_params: WorkDoneProgressParams::default(),
            };
            let resp = s.request::<lsp_types::request::Formatting>(params);
            let edits: Option<Vec<lsp_types::TextEdit>> = serde_json::from_value(resp.response_result.ok()?).ok()?;
            match edits {
                Some(e) if e.len() == 1 => Some(format!("ok {}", hex_text(&e[0].new_text))),
                Some(_) => Some("edits-unexpected".into()),
                None => Some("no-result".into()),
            }
        }
        ["par-ls", _] => crate::c34::run_case(w),
        _ => None,
    }
}

// ---------------------------------------------------------------------------------------------
// generators

/// Hand-written probe grammars that together use every construct of the PAR language.
pub fn probes() -> Vec<&'static str> {
    vec![
        "%start S\n%%\nS: \"a\";\n",
        "%start S\n%title \"T\"\n%comment \"C\"\n%grammar_type 'LL(k)'\n%line_comment '//'\n%block_comment '/*' '*/'\n%user_type N = a::b::N\n%nt_type S = crate::X\n%t_type crate::Tok\n%auto_newline_off\n%auto_ws_off\n%allow_unmatched\n%on Id %enter Sc\n\n%scanner Sc {\n    %auto_newline_off\n    %line_comment \"#\"\n    %skip Id\n    %on Id, Id2 %push INITIAL\n    %on Id2 %pop\n}\n\n%scanner Sd { %auto_ws_off }\n\n%%\n\nS: A { B } [ C ] ( D | E ) ;\nA: \"a\"^ | 'b'@m | /c/: T::U | <Sc, Sd>\"d\" ?= 'x' ;\nB: Id^ | Id2@n: V | ;\nC: \"c\" ?! /y/ ^ ;\nD: { { \"d\" } [ 'e' ] } ;\nE: ( \"e\" | ( \"f\" ) ) \"g\";\nId: /[a-z]+/;\nId2: /[A-Z]+/: W;\n",
        "%start List\n%%\nList: [ Items ] TrailingComma^;\nItems: Num { \",\"^ Num };\nNum: /0|[1-9][0-9]*/ : Number;\nTrailingComma: [ \",\" ];\n",
        "%start Expr %title \"x\" %%\nExpr: Term { ( '+' | '-' ) Term } ; Term: Factor { ( '*' | '/' ) Factor } ;\nFactor: /[0-9]+/ | '(' Expr ')' | \"a very long terminal string that exceeds thirty characters\" \"another fairly long terminal\" 'and a third one';\n",
    ]
}

const LINE_C: &str = "// lc";
const BLOCK_C: &str = "/* bc */";

/// Inserts `what` at byte offset `at`.
fn insert(text: &str, at: usize, what: &str) -> String {
    format!("{}{}{}", &text[..at], what, &text[at..])
}

/// Byte offsets of all token boundaries that matter: start and end of every significant token, and the end of the text.
fn boundaries(text: &str) -> Vec<usize> {
    let toks = lex(Which::Ls, text);
    let mut b: BTreeSet<usize> = BTreeSet::new();
    for t in toks.iter().filter(|t| !is_skip(t.ty)) {
        b.insert(t.start);
        b.insert(t.end);
    }
    b.insert(text.len());
    b.insert(0);
    b.into_iter().collect()
}

fn comment_text(kind: usize, n: usize) -> String {
    match kind {
        0 => format!(" {LINE_C}{n}\n"),
        1 => format!(" /* bc{n} */ "),
        2 => format!("\n/* multi\n   line {n} */\n"),
        _ => format!("\n{LINE_C}{n}\n{LINE_C}{n}b\n"),
    }
}

/// Texts with comments: (name, text).
pub fn commented_texts(rng: &mut Rng, thorough: bool) -> Vec<(String, String)> {
    let mut out = vec![];
    for (pi, p) in probes().iter().enumerate() {
        let bs = boundaries(p);
        // one position at a time, line and block comments
        for (bi, at) in bs.iter().enumerate() {
            for kind in 0..2 {
                out.push((format!("probe{pi}@{bi}k{kind}"), insert(p, *at, &comment_text(kind, bi))));
            }
            if thorough || bi % 3 == pi % 3 {
                for kind in 2..4 {
                    out.push((format!("probe{pi}@{bi}k{kind}"), insert(p, *at, &comment_text(kind, bi))));
                }
            }
        }
        // several at once: everywhere (alternating kinds), and random subsets
        for variant in 0..2 {
            let mut t = p.to_string();
            for (bi, at) in bs.iter().enumerate().rev() {
                t = insert(&t, *at, &comment_text((bi + variant) % 2, bi));
            }
            out.push((format!("probe{pi}-all{variant}"), t));
        }
        for r in 0..(if thorough { 40 } else { 10 }) {
            let mut t = p.to_string();
            for (bi, at) in bs.iter().enumerate().rev() {
                if rng.chance(1, 4) {
                    t = insert(&t, *at, &comment_text(rng.below(4), bi));
                }
            }
            out.push((format!("probe{pi}-rand{r}"), t));
        }
    }
    out
}

fn crlf(text: &str) -> String {
    text.replace("\r\n", "\n").replace('\n', "\r\n")
}

pub fn fmt_cases(seed: u64, thorough: bool) -> Vec<String> {
    let mut rng = Rng::new(seed);
    let opts = all_opts();
    let mut out = vec![];
    let mut n = 0usize;
    let case = |out: &mut Vec<String>, o: &Opt, text: &str| {
        out.push(format!("fmt {} {}", opt_words(o), hex_text(text)));
    };
    // probes themselves and their CRLF variants: every option combination
    for p in probes() {
        for o in &opts {
            case(&mut out, o, p);
            case(&mut out, o, &crlf(p));
        }
    }
    // comments at every token boundary: the option combination rotates with the case number (every
    // combination is used equally often); the all-at-once variants get every combination
    for (name, t) in commented_texts(&mut rng, thorough) {
        if name.contains("-all") || thorough {
            for o in &opts {
                case(&mut out, o, &t);
            }
            case(&mut out, &opts[n % opts.len()], &crlf(&t));
        } else {
            case(&mut out, &opts[n % opts.len()], &t);
            if n % 4 == 0 {
                case(&mut out, &opts[(n / 4) % opts.len()], &crlf(&t));
            }
        }
        n += 1;
    }
    // every *.par of the repository (they carry their own comments)
    for (_, text) in par_files("") {
        let k = if thorough { opts.len() } else { 2 };
        for j in 0..k {
            case(&mut out, &opts[(n + j * 7) % opts.len()], &text);
        }
        if thorough || n % 5 == 0 {
            case(&mut out, &opts[(n + 3) % opts.len()], &crlf(&text));
        }
        n += 1;
    }
    out
}

/// Tie D cases (`par-ls`): commented originals and formatter outputs.
pub fn generate(seed: u64, thorough: bool) -> Vec<String> {
    std::panic::set_hook(Box::new(|_| {}));
    let mut rng = Rng::new(seed);
    let opts = all_opts();
    let mut out = vec![];
    let mut seen = BTreeSet::new();
    let mut push = |out: &mut Vec<String>, text: &str| {
        if !text.contains('\u{10FFFF}') && seen.insert(text.to_string()) {
            out.push(format!("par-ls {}", cps(text)));
        }
    };
    let texts = commented_texts(&mut rng, thorough);
    let step = if thorough { 1 } else { 6 };
    for (i, (_, t)) in texts.iter().enumerate() {
        if i % step != 0 {
            continue;
        }
        push(&mut out, t);
        let o = &opts[i % opts.len()];
        if let Ok(Ok(f)) = catch_unwind(AssertUnwindSafe(|| format_text(t, o))) {
            push(&mut out, &f);
        }
        if i % (step * 4) == 0 {
            push(&mut out, &crlf(t));
        }
    }
    for (i, (_, text)) in par_files("").iter().enumerate() {
        if !thorough && (i % 4 != 0 || text.len() > 6000) {
            continue;
        }
        if let Ok(Ok(f)) = catch_unwind(AssertUnwindSafe(|| format_text(text, &opts[i % opts.len()]))) {
            push(&mut out, &f);
        }
    }
    out
}

pub fn cli(args: &[String]) {
    match args.first().map(|s| s.as_str()) {
        Some("fmtgen") => {
            std::panic::set_hook(Box::new(|_| {}));
            let seed: u64 = args.get(1).and_then(|s| s.parse().ok()).unwrap_or(0);
            let thorough = args.get(2).map(|s| s == "thorough").unwrap_or(false);
            let mut s = String::new();
            for c in fmt_cases(seed, thorough) {
                s.push_str("@@ ");
                s.push_str(&c);
                s.push('\n');
            }
            use std::io::Write;
            std::io::stdout().write_all(s.as_bytes()).unwrap();
        }
        Some("gen") => pv::util::standard_cli(args, generate, run_case),
        Some("run") => {
            // like `util::run_lines`, but the panic hook records the location
            install_panic_hook();
            let stdin = std::io::stdin();
            use std::io::{BufRead, Write};
            for line in stdin.lock().lines() {
                let line = line.unwrap();
                let words: Vec<&str> = line.split_whitespace().collect();
                let r = catch_unwind(AssertUnwindSafe(|| run_case(&words)));
                let reply = match r {
                    Ok(Some(s)) => s,
                    Ok(None) => "bad-op".to_string(),
                    Err(_) => "panic".to_string(),
                };
                println!("@@ {reply}");
            }
            std::io::stdout().flush().unwrap();
        }
        _ => {
            eprintln!("usage: gen <seed> <quick|thorough> | fmtgen <seed> <quick|thorough> | run");
            std::process::exit(2);
        }
    }
}
