pub fn cli(_args: &[String]) {
    let _ = crate::utils::pos_to_offset("ab", lsp_types::Position { line: 1, character: 0 });
}
