//! C30 — language-server requests never crash the server.
//!
//! Two parts:
//! * tie D (`gen` / `run`): the real `utils::pos_to_offset` and `utils::extract_text_range` against
//!   the Lean model (`Model/LsUtils.lean`), exhaustively over all texts of ≤ 6 units from
//!   {`a`, `Ü`, `\r`, `\n`, `😀`} and all positions up to (3, 8); `ls-pos-old` runs a verbatim copy
//!   of the pre-repair function (finding F9) against the model's `fixed = false` variant.
//! * exploration (`explore`): a real `Server` with one open document (see `lsutil::LsSession`)
//!   receives hover, definition, document symbols, prepare-rename, rename, formatting and code
//!   action requests at every position (and at out-of-range positions) of grammar texts from the
//!   repository and of mutated/broken variants, each under `catch_unwind`. Every panic is printed as
//!   `panic <request> <line> <col> <text name> <file:line of the panic> <hex text>`;
//!   `handler <hex> <request> <line> <col>` (a `run` case) replays one of them.
use std::collections::{BTreeMap, HashMap};
use std::io::Write;
use std::panic::{AssertUnwindSafe, catch_unwind};

use lsp_types::request::{
    CodeActionRequest, DocumentSymbolRequest, Formatting, GotoDefinition, HoverRequest,
    PrepareRenameRequest, Rename,
};
use lsp_types::{
    CodeActionContext, CodeActionParams, Diagnostic, DocumentFormattingParams,
    DocumentSymbolParams, FormattingOptions, GotoDefinitionParams, HoverParams, NumberOrString,
    PartialResultParams, Position, Range, RenameParams, TextDocumentIdentifier,
    TextDocumentPositionParams, WorkDoneProgressParams,
};
use pv::rng::Rng;
use pv::util::run_lines;

use crate::lsutil::*;
use crate::rng::Rng as LsRng;
use crate::utils::{extract_text_range, pos_to_offset};

// ---------------------------------------------------------------------------------------------
// tie D

/// Verbatim copy of `pos_to_offset` before the `fix:` commit for finding F9 (only the two repaired
/// statements differ from the current function). Tied to the model's `posToOffset false`.
fn pos_to_offset_pre_repair(input: &str, pos: Position) -> usize {
    let mut offset = 0;
    for line in input.lines().take(pos.line as usize) {
        offset += line.len();
        let (_, line_end) = input.split_at(offset);
        if line_end.starts_with("\r\n") {
            offset += 2; // Windows
        } else {
            offset += 1; // Linux, Mac
        }
    }
    if let Some(last_line) = input.lines().nth(pos.line as usize)
        && !last_line.is_empty()
    {
        if let Some((p, _)) = last_line.char_indices().nth(pos.character as usize) {
            offset += p
        } else {
            offset += last_line.char_indices().last().unwrap().0 + 1
        }
    }
    offset
}

fn pos(l: &str, c: &str) -> Option<Position> {
    Some(Position { line: l.parse().ok()?, character: c.parse().ok()? })
}

pub fn run_case(w: &[&str]) -> Option<String> {
    match w {
        ["ls-pos", t, l, c] => {
            let t = unhex_text(t)?;
            Some(pos_to_offset(&t, pos(l, c)?).to_string())
        }
        ["ls-pos-old", t, l, c] => {
            let t = unhex_text(t)?;
            Some(pos_to_offset_pre_repair(&t, pos(l, c)?).to_string())
        }
        ["ls-extract", t, sl, sc, el, ec] => {
            let t = unhex_text(t)?;
            let r = LsRng::new(Range { start: pos(sl, sc)?, end: pos(el, ec)? });
            Some(hex_text(extract_text_range(&t, r)))
        }
        // replay of one explored request: `ok` or (through run_lines) `panic`
        ["handler", t, req, l, c] => {
            let t = unhex_text(t)?;
            let p = pos(l, c)?;
            let mut s = LsSession::new(1);
            s.open(&t).ok()?;
            if *req != "open" {
                one_request(&mut s, req, p)?;
            }
            Some("ok".to_string())
        }
        _ => None,
    }
}

const ALPHA: [&str; 5] = ["a", "Ü", "\r", "\n", "😀"];

/// All texts of exactly `n` units over ALPHA.
fn texts_of_len(n: usize) -> Vec<String> {
    let mut res = vec![String::new()];
    for _ in 0..n {
        let mut next = Vec::with_capacity(res.len() * ALPHA.len());
        for s in &res {
            for a in ALPHA {
                let mut t = s.clone();
                t.push_str(a);
                next.push(t);
            }
        }
        res = next;
    }
    res
}

pub fn generate(seed: u64, thorough: bool) -> Vec<String> {
    let mut out = vec![];
    let mut rng = Rng::new(seed);
    // ls-pos: exhaustive texts × all positions up to (3, 8)
    let full = if thorough { 6 } else { 4 };
    for n in 0..=6 {
        for t in texts_of_len(n) {
            // quick: longer texts are subsampled (1 in 12), with 6 random positions each
            let sampled = n > full;
            if sampled && !rng.chance(1, 12) {
                continue;
            }
            let h = hex_text(&t);
            if sampled {
                for _ in 0..6 {
                    out.push(format!("ls-pos {h} {} {}", rng.range(0, 3), rng.range(0, 8)));
                }
            } else {
                for l in 0..=3 {
                    for c in 0..=8 {
                        out.push(format!("ls-pos {h} {l} {c}"));
                    }
                }
            }
        }
    }
    // pre-repair function against the pre-repair model: texts ≤ 4 units, positions up to (3, 5)
    for n in 0..=4 {
        for t in texts_of_len(n) {
            let h = hex_text(&t);
            for l in 0..=3 {
                for c in 0..=5 {
                    out.push(format!("ls-pos-old {h} {l} {c}"));
                }
            }
        }
    }
    // ls-extract: all pairs of positions up to (2, 4) on all texts ≤ 3 (quick) / ≤ 4 (thorough) units
    let en = if thorough { 4 } else { 3 };
    for n in 0..=en {
        for t in texts_of_len(n) {
            let h = hex_text(&t);
            for sl in 0..=2 {
                for sc in 0..=4 {
                    for el in 0..=2 {
                        for ec in 0..=4 {
                            out.push(format!("ls-extract {h} {sl} {sc} {el} {ec}"));
                        }
                    }
                }
            }
        }
    }
    // random longer texts, large positions
    let nrand = if thorough { 20000 } else { 4000 };
    for i in 0..nrand {
        let len = rng.range(5, 14);
        let mut t = String::new();
        for _ in 0..len {
            // newlines a bit more often, so that several lines exist
            let a = if rng.chance(1, 4) { "\n" } else { ALPHA[rng.below(ALPHA.len())] };
            t.push_str(a);
        }
        let h = hex_text(&t);
        let big = |r: &mut Rng| if r.chance(1, 10) { 4_000_000_000usize } else { r.range(0, 12) };
        match i % 3 {
            0 => out.push(format!("ls-pos {h} {} {}", big(&mut rng), big(&mut rng))),
            1 => out.push(format!("ls-pos-old {h} {} {}", rng.range(0, 7), big(&mut rng))),
            _ => out.push(format!(
                "ls-extract {h} {} {} {} {}",
                rng.range(0, 6),
                rng.range(0, 9),
                rng.range(0, 6),
                rng.range(0, 9)
            )),
        }
    }
    out
}

// ---------------------------------------------------------------------------------------------
// exploration of the request handlers

pub const REQUESTS: [&str; 7] =
    ["hover", "definition", "symbols", "prepare-rename", "rename", "formatting", "code-action"];

fn tdi(s: &LsSession) -> TextDocumentIdentifier {
    TextDocumentIdentifier { uri: s.uri.clone() }
}

fn tdp(s: &LsSession, p: Position) -> TextDocumentPositionParams {
    TextDocumentPositionParams { text_document: tdi(s), position: p }
}

fn shifted(p: Position, dl: u32, dc: u32) -> Position {
    Position { line: p.line.saturating_add(dl), character: p.character.saturating_add(dc) }
}

/// Four diagnostics per request: both diagnostic codes the server reacts to, each with two of the
/// four range shapes (forward, to the next line start, reversed, empty); `flip` (position parity in
/// the exploration) exchanges which code gets which shapes, so neighbouring positions cover all eight.
fn diagnostics_at(p: Position, flip: bool) -> Vec<Diagnostic> {
    let mut v = vec![];
    let ranges = [
        Range { start: p, end: shifted(p, 0, 3) },
        Range { start: p, end: Position { line: p.line.saturating_add(1), character: 0 } },
        Range { start: shifted(p, 0, 3), end: p }, // reversed
        Range { start: p, end: p },                // empty
    ];
    let codes = ["parol::parser::invalid_token_in_transition", "parol::parser::token_not_in_scanner"];
    for (ci, code) in codes.iter().enumerate() {
        for (i, r) in ranges.iter().enumerate() {
            if ((i / 2 == ci) ^ flip) == false {
                continue;
            }
            v.push(Diagnostic {
                range: *r,
                code: Some(NumberOrString::String(code.to_string())),
                message: if i % 2 == 0 {
                    "Token 'X' is referenced in '%skip' but is not available in scanner 'Esc'.".to_string()
                } else {
                    "no scanner named here".to_string()
                },
                ..Default::default()
            });
        }
    }
    v
}

fn formatting_options(variant: u32) -> FormattingOptions {
    let mut properties = HashMap::new();
    if variant == 1 {
        properties.insert("formatting.max_line_length".to_string(), lsp_types::FormattingProperty::Number(20));
    }
    FormattingOptions {
        tab_size: if variant == 2 { 0 } else { 4 },
        insert_spaces: variant != 2,
        properties,
        trim_trailing_whitespace: None,
        insert_final_newline: None,
        trim_final_newlines: None,
    }
}

/// Sends one request; the response is discarded (only "returns without panicking" is explored).
/// For `formatting`, `p.character` selects the options variant (0, 1, 2).
fn one_request(s: &mut LsSession, req: &str, p: Position) -> Option<()> {
    let wd = WorkDoneProgressParams::default;
    let pr = PartialResultParams::default;
    match req {
        "hover" => {
            let params = HoverParams { text_document_position_params: tdp(s, p), work_done_progress_params: wd() };
            s.request::<HoverRequest>(params);
        }
        "definition" => {
            let params = GotoDefinitionParams {
                text_document_position_params: tdp(s, p),
                work_done_progress_params: wd(),
                partial_result_params: pr(),
            };
            s.request::<GotoDefinition>(params);
        }
        "symbols" => {
            let params = DocumentSymbolParams {
                text_document: tdi(s),
                work_done_progress_params: wd(),
                partial_result_params: pr(),
            };
            s.request::<DocumentSymbolRequest>(params);
        }
        "prepare-rename" => {
            let params = tdp(s, p);
            s.request::<PrepareRenameRequest>(params);
        }
        "rename" => {
            let params = RenameParams {
                text_document_position: tdp(s, p),
                new_name: "RenamedÜ".to_string(),
                work_done_progress_params: wd(),
            };
            s.request::<Rename>(params);
        }
        "formatting" => {
            let params = DocumentFormattingParams {
                text_document: tdi(s),
                options: formatting_options(p.character),
                work_done_progress_params: wd(),
            };
            s.request::<Formatting>(params);
        }
        "code-action" => {
            let params = CodeActionParams {
                text_document: tdi(s),
                range: Range { start: p, end: shifted(p, 0, 1) },
                context: CodeActionContext {
                    diagnostics: diagnostics_at(p, (p.line ^ p.character) & 1 == 1),
                    only: None,
                    trigger_kind: None,
                },
                work_done_progress_params: wd(),
                partial_result_params: pr(),
            };
            s.request::<CodeActionRequest>(params);
        }
        _ => return None,
    }
    Some(())
}

/// Every position of the text: each line 0..=lines+1, each column 0..=chars+2, plus far-out ones.
fn all_positions(text: &str) -> Vec<Position> {
    let mut v = vec![];
    let lines: Vec<&str> = text.lines().collect();
    for l in 0..lines.len() + 2 {
        let n = lines.get(l).map(|s| s.chars().count()).unwrap_or(0);
        for c in 0..=n + 2 {
            v.push(Position { line: l as u32, character: c as u32 });
        }
    }
    v
}

fn far_positions(text: &str) -> Vec<Position> {
    let n = text.lines().count() as u32;
    vec![
        Position { line: 0, character: u32::MAX },
        Position { line: u32::MAX, character: 0 },
        Position { line: u32::MAX, character: u32::MAX },
        Position { line: n + 5, character: 7 },
        Position { line: n.saturating_sub(1), character: 100_000 },
    ]
}

const SNIPPETS: [&str; 34] = [
    ";", ":", "|", "\"", "'", "/", "//", "/*", "*/", "%", "%scanner X {", "}", "<", ">", "Ü", "😀",
    "\r\n", "\r", "\n", "\t", "\u{feff}", "%start", "@", "^", "(", ")", "[", "]", "{", "::", "%%",
    "// c\n", "/* c */", "%on A %enter B",
];

const DECLARATIONS: [&str; 10] = [
    "%t_type crate::T\n",
    "%user_type X = crate::X\n",
    "%nt_type S = crate::S\n",
    "%start S\n",
    "%title \"t\"\n",
    "%comment \"c\"\n",
    "%grammar_type 'LALR(1)'\n",
    "%line_comment \"#\"\n",
    "%block_comment \"(*\" \"*)\"\n",
    "%scanner X { %auto_newline_off }\n",
];

fn mutate(text: &str, rng: &mut Rng) -> (String, String) {
    let mut cs: Vec<char> = text.chars().collect();
    let mut label = String::new();
    for _ in 0..rng.range(1, 3) {
        let kind = rng.below(10);
        label.push_str(&format!("m{kind}"));
        match kind {
            0 => {
                let at = rng.below(cs.len() + 1);
                cs.truncate(at);
            }
            1 => {
                if !cs.is_empty() {
                    let at = rng.below(cs.len());
                    let n = rng.range(1, 20).min(cs.len() - at);
                    cs.drain(at..at + n);
                }
            }
            2 => {
                let at = rng.below(cs.len() + 1);
                let sn: Vec<char> = rng.pick(&SNIPPETS).chars().collect();
                cs.splice(at..at, sn);
            }
            3 => {
                let s: String = cs.iter().collect();
                cs = s.replace("\r\n", "\n").replace('\n', "\r\n").chars().collect();
            }
            4 => {
                let s: String = cs.iter().collect();
                let lines: Vec<&str> = s.split_inclusive('\n').collect();
                if !lines.is_empty() {
                    let i = rng.below(lines.len());
                    let mut r = String::new();
                    for (j, l) in lines.iter().enumerate() {
                        r.push_str(l);
                        if j == i {
                            r.push_str(l);
                        }
                    }
                    cs = r.chars().collect();
                }
            }
            5 => {
                // a multi-byte character in place of a letter (identifiers, strings, comments)
                let idx: Vec<usize> = (0..cs.len()).filter(|&i| cs[i].is_alphabetic()).collect();
                if !idx.is_empty() {
                    let i = *rng.pick(&idx);
                    cs[i] = if rng.chance(1, 2) { 'Ü' } else { '😀' };
                }
            }
            6 => {
                // a comment where there was a blank
                let idx: Vec<usize> = (0..cs.len()).filter(|&i| cs[i] == ' ').collect();
                if !idx.is_empty() {
                    let i = *rng.pick(&idx);
                    let c: Vec<char> =
                        (if rng.chance(1, 2) { " /* c */ " } else { " // c\n" }).chars().collect();
                    cs.splice(i..i + 1, c);
                }
            }
            7 => {
                // comment after the last production (finding F17)
                let c = if rng.chance(1, 2) { "\n// trailing\n" } else { " /* trailing */" };
                cs.extend(c.chars());
            }
            8 => {
                // one more declaration at the start of a random line (duplicates what may already be there)
                let starts: Vec<usize> = std::iter::once(0)
                    .chain((0..cs.len()).filter(|&i| cs[i] == '\n').map(|i| i + 1))
                    .collect();
                let at = *rng.pick(&starts);
                let d: Vec<char> = rng.pick(&DECLARATIONS).chars().collect();
                cs.splice(at..at, d);
            }
            _ => {
                // swap two neighbouring lines
                let s: String = cs.iter().collect();
                let mut lines: Vec<&str> = s.split_inclusive('\n').collect();
                if lines.len() >= 2 {
                    let i = rng.below(lines.len() - 1);
                    lines.swap(i, i + 1);
                    cs = lines.concat().chars().collect();
                }
            }
        }
    }
    (label, cs.into_iter().collect())
}

/// Hand-picked small documents (boundary cases of the property's quantifier).
fn handwritten() -> Vec<(String, String)> {
    let v: Vec<(&str, &str)> = vec![
        ("hw/empty", ""),
        ("hw/newline", "\n"),
        ("hw/crlf-only", "\r\n\r\n"),
        ("hw/minimal", "%start S\n%%\nS: \"a\";\n"),
        ("hw/minimal-crlf", "%start S\r\n%%\r\nS: \"a\";\r\n"),
        ("hw/no-final-newline", "%start S\n%%\nS: \"a\";"),
        ("hw/f17-trailing-line-comment", "%start S\n%% S: \"a\"; // trailing"),
        ("hw/f17-trailing-block-comment", "%start S\n%%\nS: \"a\";\n/* trailing */\n"),
        ("hw/multibyte", "%start S\n%title \"ÜÄÖ 😀\"\n%comment \"😀\"\n// Ünïcödé 😀\n%%\nS: \"😀\" Item /* 😀 */ Item; // Ü\nItem: \"ä\";\n"),
        ("hw/scanner-states", "%start S\n%scanner Esc {\n    %auto_newline_off\n    %on A %enter INITIAL\n}\n%on A %enter Esc\n%%\nS: A <Esc>B;\nA: \"a\";\nB: <Esc>\"b\";\n"),
        ("hw/user-types", "%start S\n%user_type N = crate::N\n%nt_type S = crate::S\n%t_type crate::T\n%%\nS: \"a\": N | B: crate::X;\nB: \"b\"^;\n"),
        ("hw/skip", "%start S\n%scanner Esc {\n    %skip BAD, GOOD // keep\n}\n%%\nS: <Esc>\"x\";\nBAD: \"bad\";\nGOOD: <Esc>\"good\";\n"),
        // the directive only inside / after an inline comment, before and after real text (stale diagnostics
        // after the user commented a directive out still arrive with code-action requests)
        ("hw/skip-commented-out", "%start S\n%scanner Esc {\n    // %skip BAD, GOOD\n    # %skip BAD\n    %auto_ws_off // %skip GOOD\n}\n%%\nS: <Esc>\"x\";\nBAD: \"bad\";\nGOOD: <Esc>\"good\";\n"),
        ("hw/skip-and-comment-mix", "%start S\n%scanner Esc {\n    %skip BAD // %skip GOOD, BAD\n    %on GOOD %enter INITIAL // %on BAD %enter Esc\n}\n// %on GOOD %enter Esc\n%%\nS: <Esc>\"x\";\nBAD: \"bad\";\nGOOD: <Esc>\"good\";\n"),
        ("hw/only-prolog", "%start S\n%title \"t\"\n"),
        ("hw/garbage", "%%%% ;;; ::: \"unterminated\n'x"),
        ("hw/bom", "\u{feff}%start S\n%%\nS: \"a\";\n"),
        ("hw/two-t-type", "%start S\n%t_type crate::T\n%t_type crate::U\n%%\nS: \"a\";\n"),
        ("hw/lalr", "%start S\n%grammar_type 'LALR(1)'\n%%\nS: S \"a\" | ;\n"),
    ];
    v.into_iter().map(|(a, b)| (a.to_string(), b.to_string())).collect()
}

thread_local! {
    /// `<file name>:<line>` of the last panic on this thread (set by the hook installed in `explore`).
    static LAST_PANIC_AT: std::cell::RefCell<String> = const { std::cell::RefCell::new(String::new()) };
}

fn install_panic_hook() {
    std::panic::set_hook(Box::new(|info| {
        let at = info
            .location()
            .map(|l| {
                let f = l.file().rsplit(['/', '\\']).next().unwrap_or("?");
                format!("{f}:{}", l.line())
            })
            .unwrap_or_else(|| "?".to_string());
        LAST_PANIC_AT.with(|c| *c.borrow_mut() = at);
    }));
}

fn last_panic_at() -> String {
    LAST_PANIC_AT.with(|c| c.borrow().clone())
}

struct Tally {
    requests: u64,
    panics: u64,
    /// request kind → (requests, panics, microseconds)
    by_request: BTreeMap<String, (u64, u64, u64)>,
}

/// Explores one text; prints its `text` line and `panic` lines.
fn explore_text(
    out: &mut impl Write,
    idx: usize,
    name: &str,
    text: &str,
    max_positions: usize,
    rng: &mut Rng,
    tally: &mut Tally,
) {
    let hex = hex_text(text);
    let mut requests = 0u64;
    let mut panics: Vec<(String, Position, String)> = vec![];
    let name = &name.replace(char::is_whitespace, "_");
    let mut s = LsSession::new(1);
    let t0 = std::time::Instant::now();
    let opened = catch_unwind(AssertUnwindSafe(|| s.open(text)));
    requests += 1;
    {
        let e = tally.by_request.entry("open".to_string()).or_default();
        e.0 += 1;
        e.2 += t0.elapsed().as_micros() as u64;
        if opened.is_err() {
            e.1 += 1;
        }
    }
    let parse_state = match &opened {
        Err(_) => "panic",
        Ok(Err(_)) => "handler-error",
        Ok(Ok(())) => "opened",
    };
    let mut positions = all_positions(text);
    let total_positions = positions.len();
    if positions.len() > max_positions {
        // seeded sample without replacement (partial Fisher–Yates), kept in document order
        for i in 0..max_positions {
            let j = i + rng.below(positions.len() - i);
            positions.swap(i, j);
        }
        positions.truncate(max_positions);
        positions.sort_by_key(|p| (p.line, p.character));
    }
    positions.extend(far_positions(text));
    if opened.is_err() {
        panics.push(("open".to_string(), Position { line: 0, character: 0 }, last_panic_at()));
    } else {
        let mut record = |req: &str, p: Position, s: &mut LsSession, requests: &mut u64| {
            *requests += 1;
            let t0 = std::time::Instant::now();
            let r = catch_unwind(AssertUnwindSafe(|| one_request(s, req, p)));
            let e = tally.by_request.entry(req.to_string()).or_default();
            e.0 += 1;
            e.2 += t0.elapsed().as_micros() as u64;
            if r.is_err() {
                e.1 += 1;
                panics.push((req.to_string(), p, last_panic_at()));
            }
        };
        record("symbols", Position { line: 0, character: 0 }, &mut s, &mut requests);
        for v in 0..3 {
            record("formatting", Position { line: 0, character: v }, &mut s, &mut requests);
        }
        for p in &positions {
            for req in ["hover", "definition", "prepare-rename", "rename", "code-action"] {
                record(req, *p, &mut s, &mut requests);
            }
        }
    }
    let published = s.drain().len();
    writeln!(
        out,
        "text {idx} {name} bytes={} open={parse_state} published={published} positions={}/{} requests={requests} panics={}",
        text.len(),
        positions.len(),
        total_positions,
        panics.len()
    )
    .unwrap();
    // at most 3 panic lines per request kind and text
    let mut shown: BTreeMap<String, u32> = BTreeMap::new();
    for (req, p, at) in &panics {
        let n = shown.entry(req.clone()).or_default();
        *n += 1;
        if *n <= 3 {
            writeln!(out, "panic {req} {} {} {name} {at} {hex}", p.line, p.character).unwrap();
        }
    }
    tally.requests += requests;
    tally.panics += panics.len() as u64;
}

/// `explore <seed> <quick|thorough>`: prints `text …`, `panic …`, `probe …` and one `summary …` line.
/// The stdout lock is held for the whole run, so nothing that the server's background analysis
/// threads print (parol reports LALR conflicts with `println!`) can land inside these lines; such
/// output appears after the summary, and readers select lines by their first word.
pub fn explore(seed: u64, thorough: bool) {
    install_panic_hook();
    let stdout = std::io::stdout();
    let mut out = std::io::BufWriter::new(stdout.lock());
    let mut rng = Rng::new(seed ^ 0xC30);
    let mut base: Vec<(String, String)> = handwritten();
    base.extend(par_files("examples"));
    base.extend(par_files("crates/parol/src/parser/parol.par"));
    if thorough {
        base.extend(par_files("crates/parol-ls/parol_ls.par"));
        base.extend(par_files("crates/parol-ls/data/input"));
    }
    let (base_positions, mutants, mutant_positions) =
        if thorough { (usize::MAX, 20, 60) } else { (250, 3, 100) };
    let mut tally = Tally { requests: 0, panics: 0, by_request: BTreeMap::new() };
    let mut idx = 0;
    for (name, text) in &base {
        explore_text(&mut out, idx, name, text, base_positions, &mut rng, &mut tally);
        idx += 1;
        for m in 0..mutants {
            let (label, mt) = mutate(text, &mut rng);
            let mname = format!("{name}#{m}:{label}");
            explore_text(&mut out, idx, &mname, &mt, mutant_positions, &mut rng, &mut tally);
            idx += 1;
        }
    }
    // Outside the property's quantifier (it ranges over texts and positions of an OPEN document),
    // reported as a note only: requests that name a document the server has never seen.
    {
        let mut s = LsSession::new(1);
        let _ = catch_unwind(AssertUnwindSafe(|| s.open("%start S\n%%\nS: \"a\";\n")));
        s.uri = std::str::FromStr::from_str("file:///verif/never-opened.par").unwrap();
        let mut res = vec![];
        for req in REQUESTS {
            let r = catch_unwind(AssertUnwindSafe(|| one_request(&mut s, req, Position { line: 0, character: 0 })));
            res.push(format!("{req}={}", if r.is_ok() { "ok".to_string() } else { format!("panic@{}", last_panic_at()) }));
        }
        writeln!(out, "probe unopened-uri {}", res.join(" ")).unwrap();
    }
    let by: Vec<String> =
        tally.by_request.iter().map(|(k, (n, p, us))| format!("{k}:{n}:{p}:{}", us / 1000)).collect();
    writeln!(
        out,
        "summary texts={idx} base={} requests={} panics={} by_request={}",
        base.len(),
        tally.requests,
        tally.panics,
        by.join(",")
    )
    .unwrap();
    out.flush().unwrap();
}

pub fn cli(args: &[String]) {
    match args.first().map(|s| s.as_str()) {
        Some("gen") => {
            let seed: u64 = args.get(1).and_then(|s| s.parse().ok()).unwrap_or(0);
            let thorough = args.get(2).map(|s| s == "thorough").unwrap_or(false);
            let mut s = generate(seed, thorough).join("\n");
            s.push('\n');
            std::io::stdout().write_all(s.as_bytes()).unwrap();
        }
        Some("run") => run_lines(run_case),
        Some("explore") => {
            let seed: u64 = args.get(1).and_then(|s| s.parse().ok()).unwrap_or(0);
            let thorough = args.get(2).map(|s| s == "thorough").unwrap_or(false);
            explore(seed, thorough);
        }
        _ => {
            eprintln!("usage: gen <seed> <quick|thorough> | run | explore <seed> <quick|thorough>");
            std::process::exit(2);
        }
    }
}
