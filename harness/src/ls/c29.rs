//! C29 — language-server diagnostics reflect the latest document version.
//!
//! Drives the REAL `crate::server::Server` (through `lsutil::LsSession`: the server's own
//! `handle_open_document` / `handle_change_document` over `Connection::memory()`) with documents
//! whose synchronous / background verdicts are known, under a schedule that is fixed by the case:
//! the cfg-guarded gate `crate::server::verif_gate` (hooks/c29_gate.patch) blocks every background
//! analysis thread right after it starts and right before it publishes until this harness releases
//! it, and lets the harness run chosen threads to completion inside the window between the
//! handler's `analyze` and the handler's own publish. No sleeps: every step waits for the gate's
//! `FINISHED` signal of the thread it released.
//!
//! The server is tied to the protocol machine WITH BOTH REPAIRS (findings F8 and F38 are repaired
//! in server.rs: `publish_if_latest`, and `thread::spawn` after the handler's publish). The thread
//! of an edit therefore does not exist yet inside that edit's window; a schedule that lists it
//! there is driven as "directly after the handler returns", which is the same published sequence
//! for the repaired machine (`Model/LsProtoFixed.lean`). On a server WITHOUT the F38 repair the
//! thread does exist in the window, the gate runs it there, and the reply differs from the
//! machine's (and fails the oracle).
//!
//! Case line (also answered by the Lean protocol machine, `Model/LsProtoFixed.lean`; `ls29` is
//! accepted as a synonym so that old replay files still run):
//! `ls29r <docs> <events> <lazy|eager>`
//!   docs   = `<name>=<sync>/<async>,…` — catalogue name plus the DECLARED verdict signatures
//!            (`-` = synchronous part succeeds / background analysis publishes nothing); the
//!            implementation side only uses the names, the model side only the verdicts;
//!   events = `o<d>` open document d, `c<d>` change to document d, `p` the handler publishes,
//!            `f<i>` the i-th spawned task (spawn order, from 0) runs to completion; an `f` between
//!            an edit and its `p` runs inside the window;
//!   eager  = every task is released past its first gate point as soon as it is spawned (the
//!            analyses then overlap with later edits; only the publishes are scheduled).
//! Reply: the published `publishDiagnostics` notifications, oldest first, `<version>:<signature>`
//! (`ok` = empty list; else `<severities><count>.<code of the first diagnostic>`), `-` if none.
use std::io::Write;
use std::time::{Duration, Instant};

use lsp_server::Message;
use pv::rng::Rng;
use pv::util::run_lines;

use crate::lsutil::*;
use crate::server::verif_gate as gate;

/// Lookahead limit of the background analysis in all cases.
pub const MAX_K: usize = 2;

/// (name, declared sync signature, declared async signature, text)
pub const CATALOGUE: [(&str, &str, &str, &str); 10] = [
    ("clean", "-", "-", "%start S\n%%\nS: \"a\";\n"),
    ("ll2", "-", "-", "%start S\n%%\nS: A | B;\nA: \"x\" \"a\";\nB: \"x\" \"b\";\n"),
    (
        "notll",
        "-",
        "E1.m_Maximum_lookahead_of_2_e",
        "%start S\n%%\nS: A | B;\nA: \"x\" \"x\" \"a\";\nB: \"x\" \"x\" \"b\";\n",
    ),
    ("lalrclean", "-", "-", "%start S\n%grammar_type 'LALR(1)'\n%%\nS: S \"a\" | ;\n"),
    (
        "lalrwarn",
        "-",
        "W1.m_2_automatically_resolved",
        "%start E\n%grammar_type 'LALR(1)'\n%%\nE: E \"+\" E | \"n\";\n",
    ),
    ("syntax", "E2.parol_runtime_parser_syntax_error", "-", "%start S\n%%\nS: ;;\n"),
    ("leftrec", "E1.parol_analysis_left_recursion", "-", "%start S\n%%\nS: S \"a\" | \"b\";\n"),
    ("undef", "E1.parol_analysis_nonproductive_non_terminal", "-", "%start S\n%%\nS: A;\n"),
    (
        "lalrwarn2",
        "-",
        "W1.m_1_automatically_resolved",
        "%start S\n%grammar_type 'LALR(1)'\n%%\nS: A \"e\" | B \"e\";\nA: \"x\" \"y\";\nB: \"x\" \"y\";\n",
    ),
    (
        "lalrnotll",
        "-",
        "-",
        "%start S\n%grammar_type 'LALR(1)'\n%%\nS: A | B;\nA: \"x\" \"x\" \"a\";\nB: \"x\" \"x\" \"b\";\n",
    ),
];

fn catalogue_text(name: &str) -> Option<&'static str> {
    CATALOGUE.iter().find(|c| c.0 == name).map(|c| c.3)
}

fn docs_word(names: &[&str]) -> String {
    names
        .iter()
        .map(|n| {
            let c = CATALOGUE.iter().find(|c| c.0 == *n).unwrap();
            format!("{}={}/{}", c.0, c.1, c.2)
        })
        .collect::<Vec<_>>()
        .join(",")
}

// ---------------------------------------------------------------------------------------------
// gate, harness side

const WAIT: Duration = Duration::from_secs(120);

fn gate_install() {
    *gate::lock() = Some(gate::State::default());
}

fn gate_remove() {
    *gate::lock() = None;
    gate::RELEASED.notify_all();
    gate::REACHED.notify_all();
}

fn gate_spawned() -> Vec<i32> {
    gate::lock().as_ref().map(|s| s.spawned.clone()).unwrap_or_default()
}

fn gate_release(v: i32, points: &[u8]) {
    if let Some(s) = gate::lock().as_mut() {
        for p in points {
            s.released.push((v, *p));
        }
    }
    gate::RELEASED.notify_all();
}

fn gate_reached(v: i32, point: u8) -> bool {
    gate::lock().as_ref().is_some_and(|s| s.reached.contains(&(v, point)))
}

/// Blocks until thread `v` has reached `point` (condition variable, no polling).
fn gate_wait(v: i32, point: u8) -> bool {
    let deadline = Instant::now() + WAIT;
    let mut guard = gate::lock();
    loop {
        match guard.as_ref() {
            None => return false,
            Some(s) if s.reached.contains(&(v, point)) => return true,
            Some(_) => (),
        }
        let now = Instant::now();
        if now >= deadline {
            return false;
        }
        guard = gate::REACHED.wait_timeout(guard, deadline - now).unwrap_or_else(|e| e.into_inner()).0;
    }
}

fn gate_set_window_plan(plan: Vec<i32>) {
    if let Some(s) = gate::lock().as_mut() {
        s.window_plan = plan;
    }
}

fn gate_window_plan_left() -> usize {
    gate::lock().as_ref().map(|s| s.window_plan.len()).unwrap_or(0)
}

// ---------------------------------------------------------------------------------------------
// published notifications

fn sanitize(s: &str) -> String {
    let mut r = String::new();
    for c in s.chars() {
        if c.is_ascii_alphanumeric() {
            r.push(c);
        } else if !r.ends_with('_') {
            r.push('_');
        }
    }
    if r.is_empty() { "none".to_string() } else { r }
}

/// Signature of one published diagnostics list.
fn signature(diags: &[lsp_types::Diagnostic]) -> String {
    if diags.is_empty() {
        return "ok".to_string();
    }
    let mut sev = String::new();
    for d in diags {
        let c = match d.severity {
            None => 'E', // the protocol leaves it to the client; clients show an error
            Some(lsp_types::DiagnosticSeverity::ERROR) => 'E',
            Some(lsp_types::DiagnosticSeverity::WARNING) => 'W',
            Some(lsp_types::DiagnosticSeverity::INFORMATION) => 'I',
            Some(_) => 'H',
        };
        if !sev.contains(c) {
            sev.push(c);
        }
    }
    let code = match &diags[0].code {
        // no code: the first words of the message tell the diagnostics apart
        None => format!("m_{}", sanitize(&diags[0].message.chars().take(24).collect::<String>())),
        Some(lsp_types::NumberOrString::String(s)) => sanitize(s),
        Some(lsp_types::NumberOrString::Number(n)) => format!("n{n}"),
    };
    format!("{sev}{}.{code}", diags.len())
}

/// (version, signature) of every `textDocument/publishDiagnostics` in `msgs`; anything else the
/// server sent is reported as `?:<method>`.
fn published(msgs: Vec<Message>, base: i32) -> Vec<String> {
    let mut out = vec![];
    for m in msgs {
        match m {
            Message::Notification(n) if n.method == "textDocument/publishDiagnostics" => {
                match serde_json::from_value::<lsp_types::PublishDiagnosticsParams>(n.params) {
                    Ok(p) => {
                        let v = p.version.map(|v| (v - base).to_string()).unwrap_or_else(|| "none".to_string());
                        out.push(format!("{v}:{}", signature(&p.diagnostics)));
                    }
                    Err(_) => out.push("?:unparsable".to_string()),
                }
            }
            Message::Notification(n) => out.push(format!("?:{}", sanitize(&n.method))),
            Message::Request(r) => out.push(format!("?:request_{}", sanitize(&r.method))),
            Message::Response(_) => out.push("?:response".to_string()),
        }
    }
    out
}

// ---------------------------------------------------------------------------------------------
// one schedule on the real server

#[derive(Clone, Copy, PartialEq, Debug)]
enum Ev {
    Open(usize),
    Change(usize),
    Publish,
    Finish(usize),
}

fn parse_events(w: &str, ndocs: usize) -> Option<Vec<Ev>> {
    if w == "-" {
        return Some(vec![]);
    }
    w.split(',')
        .map(|e| {
            if e == "p" {
                return Some(Ev::Publish);
            }
            let (k, n) = e.split_at(1);
            let n: usize = n.parse().ok()?;
            match k {
                "o" if n < ndocs => Some(Ev::Open(n)),
                "c" if n < ndocs => Some(Ev::Change(n)),
                "f" => Some(Ev::Finish(n)),
                _ => None,
            }
        })
        .collect()
}

static CASE_COUNTER: std::sync::atomic::AtomicI32 = std::sync::atomic::AtomicI32::new(0);

/// Runs one schedule. The document versions of different cases of this process are disjoint
/// (`base`), so a thread of an earlier case can never be mistaken for one of this case.
fn run_schedule(texts: &[&str], events: &[Ev], eager: bool) -> String {
    let case = CASE_COUNTER.fetch_add(1, std::sync::atomic::Ordering::SeqCst);
    let base = case.wrapping_mul(64) & 0x3fff_ffff;
    gate_install();
    let mut s = LsSession::new(MAX_K);
    s.version = base;
    let mut finished: Vec<bool> = vec![];
    let mut verdict: Option<&str> = None;
    let mut i = 0;
    'outer: while i < events.len() {
        match events[i] {
            Ev::Open(d) | Ev::Change(d) => {
                // the finishes between this edit and its `p` happen inside the window
                let mut j = i + 1;
                let mut window = vec![];
                loop {
                    match events.get(j) {
                        None => {
                            verdict = Some("not-quiescent"); // the handler's publish is missing
                            break 'outer;
                        }
                        Some(Ev::Publish) => break,
                        Some(Ev::Finish(t)) => window.push(*t),
                        Some(_) => {
                            verdict = Some("ill-formed");
                            break 'outer;
                        }
                    }
                    j += 1;
                }
                let tasks = gate_spawned();
                let own_version = s.version + 1;
                let mut plan = vec![];
                let mut seen = vec![];
                for t in &window {
                    let v = if *t < tasks.len() {
                        if finished[*t] {
                            verdict = Some("ill-formed");
                            break 'outer;
                        }
                        tasks[*t]
                    } else if *t == tasks.len() {
                        own_version // exists only if the synchronous part succeeds; checked below
                    } else {
                        verdict = Some("ill-formed");
                        break 'outer;
                    };
                    if seen.contains(t) {
                        verdict = Some("ill-formed");
                        break 'outer;
                    }
                    seen.push(*t);
                    plan.push(v);
                }
                // the own task can only be run in the window after the older ones listed before it
                // have been; `main_window` processes the plan in order
                gate_set_window_plan(plan.clone());
                let r = if matches!(events[i], Ev::Open(_)) { s.open(texts[d]) } else { s.change(texts[d]) };
                if r.is_err() {
                    verdict = Some("handler-error");
                    break 'outer;
                }
                let tasks_after = gate_spawned();
                while finished.len() < tasks_after.len() {
                    finished.push(false);
                }
                if gate_window_plan_left() != 0 {
                    verdict = Some("window-not-reached");
                    break 'outer;
                }
                for t in &window {
                    if *t >= tasks_after.len() {
                        // the own task was scheduled but the synchronous part failed: no such task
                        verdict = Some("ill-formed");
                        break 'outer;
                    }
                    if !gate_reached(tasks_after[*t], gate::FINISHED) {
                        if *t < tasks.len() {
                            // an older task that `main_window` did not run to completion
                            verdict = Some("window-task-not-finished");
                            break 'outer;
                        }
                        // the own task: the repaired server spawns it after the handler's publish,
                        // so it was not there inside the window; it runs now, before anything else
                        gate_release(tasks_after[*t], &[gate::STARTED, gate::BEFORE_PUBLISH]);
                        if !gate_wait(tasks_after[*t], gate::FINISHED) {
                            verdict = Some("timeout");
                            break 'outer;
                        }
                    }
                    finished[*t] = true;
                }
                if eager {
                    for (t, v) in tasks_after.iter().enumerate().skip(tasks.len()) {
                        if !finished[t] {
                            gate_release(*v, &[gate::STARTED]);
                        }
                    }
                }
                i = j + 1;
            }
            Ev::Publish => {
                verdict = Some("ill-formed");
                break;
            }
            Ev::Finish(t) => {
                let tasks = gate_spawned();
                if t >= tasks.len() || finished[t] {
                    verdict = Some("ill-formed");
                    break;
                }
                gate_release(tasks[t], &[gate::STARTED, gate::BEFORE_PUBLISH]);
                if !gate_wait(tasks[t], gate::FINISHED) {
                    verdict = Some("timeout");
                    break;
                }
                finished[t] = true;
                i += 1;
            }
        }
    }
    // leave no blocked thread behind, whatever happened
    let tasks = gate_spawned();
    let all_done = verdict.is_none() && finished.iter().all(|f| *f) && finished.len() == tasks.len();
    for v in &tasks {
        gate_release(*v, &[gate::STARTED, gate::BEFORE_PUBLISH]);
    }
    for v in &tasks {
        if !gate_wait(*v, gate::FINISHED) && verdict.is_none() {
            verdict = Some("timeout");
        }
    }
    let msgs = s.drain();
    gate_remove();
    if let Some(v) = verdict {
        return v.to_string();
    }
    if !all_done {
        return "not-quiescent".to_string();
    }
    let p = published(msgs, base);
    if p.is_empty() { "-".to_string() } else { p.join(",") }
}

pub fn run_case(w: &[&str]) -> Option<String> {
    match w {
        ["ls29r" | "ls29", docs, events, mode] => {
            let eager = match *mode {
                "eager" => true,
                "lazy" => false,
                _ => return None,
            };
            let mut texts = vec![];
            for d in docs.split(',') {
                let (name, verdicts) = d.split_once('=')?;
                let (a, b) = verdicts.split_once('/')?;
                if a.is_empty() || b.is_empty() {
                    return None;
                }
                texts.push(catalogue_text(name)?);
            }
            let evs = parse_events(events, texts.len())?;
            Some(run_schedule(&texts, &evs, eager))
        }
        _ => None,
    }
}

// ---------------------------------------------------------------------------------------------
// generation: all schedules of a small scope

/// All schedules for the document sequence `docs` (indices into the case's table; `spawns[d]` says
/// whether document d's synchronous part succeeds): every distribution of the task completions
/// over the slots "window of edit j" / "after the publish of edit j" (j from the task's own edit
/// on), in every order within a slot. `own_window_only`: only the task spawned by an edit may
/// finish inside that edit's window.
fn schedules(docs: &[usize], spawns: &[bool], own_window_only: bool) -> Vec<String> {
    // slots are numbered 2*j (window of edit j) and 2*j+1 (after its publish)
    let n = docs.len();
    let mut task_edit = vec![]; // edit index of task t
    for (j, d) in docs.iter().enumerate() {
        if spawns[*d] {
            task_edit.push(j);
        }
    }
    let nt = task_edit.len();
    // enumerate slot assignments
    let mut assigns: Vec<Vec<usize>> = vec![vec![]];
    for t in 0..nt {
        let mut next = vec![];
        for a in &assigns {
            for slot in 2 * task_edit[t]..2 * n {
                if own_window_only && slot % 2 == 0 && slot / 2 != task_edit[t] {
                    continue;
                }
                let mut b = a.clone();
                b.push(slot);
                next.push(b);
            }
        }
        assigns = next;
    }
    let mut out = vec![];
    for a in &assigns {
        // per slot the tasks in it, then all orders within each slot
        let mut per_slot: Vec<Vec<usize>> = vec![vec![]; 2 * n];
        for (t, s) in a.iter().enumerate() {
            per_slot[*s].push(t);
        }
        let mut seqs: Vec<Vec<String>> = vec![vec![]];
        for j in 0..n {
            let ed = format!("{}{}", if j == 0 { "o" } else { "c" }, docs[j]);
            for s in seqs.iter_mut() {
                s.push(ed.clone());
            }
            for half in 0..2 {
                let slot = 2 * j + half;
                // inside the window of edit j the gate runs the planned tasks after the spawn, so
                // every order (also "own task first") is realisable
                let perms = permutations(&per_slot[slot]);
                let mut next = vec![];
                for s in &seqs {
                    for p in &perms {
                        let mut s2 = s.clone();
                        for t in p {
                            s2.push(format!("f{t}"));
                        }
                        if half == 0 {
                            s2.push("p".to_string());
                        }
                        next.push(s2);
                    }
                }
                seqs = next;
            }
        }
        for s in seqs {
            out.push(s.join(","));
        }
    }
    out
}

fn permutations(v: &[usize]) -> Vec<Vec<usize>> {
    if v.is_empty() {
        return vec![vec![]];
    }
    let mut out = vec![];
    for i in 0..v.len() {
        let mut rest = v.to_vec();
        let x = rest.remove(i);
        for mut p in permutations(&rest) {
            p.insert(0, x);
            out.push(p);
        }
    }
    out
}

fn all_doc_seqs(ndocs: usize, n: usize) -> Vec<Vec<usize>> {
    let mut res = vec![vec![]];
    for _ in 0..n {
        let mut next = vec![];
        for r in &res {
            for d in 0..ndocs {
                let mut r2: Vec<usize> = r.clone();
                r2.push(d);
                next.push(r2);
            }
        }
        res = next;
    }
    res
}

fn spawns_of(names: &[&str]) -> Vec<bool> {
    names.iter().map(|n| CATALOGUE.iter().find(|c| c.0 == *n).unwrap().1 == "-").collect()
}

pub fn generate(seed: u64, thorough: bool) -> Vec<String> {
    let mut out = vec![];
    let mut rng = Rng::new(seed ^ 0xC29);
    // 0. the confirmed history of finding F8 and the minimal history of finding F38, then every
    //    catalogue document alone (pins the declared verdicts)
    let pair = ["notll", "clean"];
    out.push(format!("ls29r {} o0,p,c1,p,f0,f1 lazy", docs_word(&pair)));
    out.push(format!("ls29r {} o0,f0,p lazy", docs_word(&pair)));
    for c in CATALOGUE.iter() {
        let names = [c.0];
        let tail = if c.1 == "-" { ",f0" } else { "" };
        out.push(format!("ls29r {} o0,p{tail} lazy", docs_word(&names)));
        out.push(format!("ls29r {} o0,p{tail} eager", docs_word(&names)));
    }
    // 1. exhaustive: all document sequences of length <= 3 over four documents (one per verdict
    //    class) x all schedules, lazy and eager alternating with the case index
    let four = ["clean", "notll", "lalrwarn", "syntax"];
    let dw = docs_word(&four);
    let sp = spawns_of(&four);
    let mut idx = 0usize;
    for n in 0..=3 {
        for ds in all_doc_seqs(4, n) {
            for s in schedules(&ds, &sp, false) {
                let s = if s.is_empty() { "-".to_string() } else { s };
                let mode = if idx % 2 == 0 { "lazy" } else { "eager" };
                out.push(format!("ls29r {dw} {s} {mode}"));
                idx += 1;
            }
        }
    }
    // 2. four edits. quick: documents {clean, notll}, only the task spawned by an edit may finish
    //    inside that edit's window. thorough: all four documents with own-task windows; {clean,
    //    notll} where every unfinished task may finish inside any later window
    let mut push_all = |names: &[&str], n: usize, own_only: bool, out: &mut Vec<String>| {
        let dwn = docs_word(names);
        let spn = spawns_of(names);
        for ds in all_doc_seqs(names.len(), n) {
            for s in schedules(&ds, &spn, own_only) {
                let mode = if idx % 2 == 0 { "lazy" } else { "eager" };
                out.push(format!("ls29r {dwn} {s} {mode}"));
                idx += 1;
            }
        }
    };
    if thorough {
        push_all(&four, 4, true, &mut out);
        push_all(&["clean", "notll"], 4, false, &mut out);
    } else {
        push_all(&["clean", "notll"], 4, true, &mut out);
    }
    // 3. random longer histories over the whole catalogue
    let nrand = if thorough { 3000 } else { 300 };
    let all: Vec<&str> = CATALOGUE.iter().map(|c| c.0).collect();
    let dwa = docs_word(&all);
    for _ in 0..nrand {
        let n = rng.range(4, if thorough { 9 } else { 7 });
        let mut evs: Vec<String> = vec![];
        let mut unfinished: Vec<usize> = vec![];
        let mut ntasks = 0;
        for j in 0..n {
            let d = rng.below(all.len());
            evs.push(format!("{}{d}", if j == 0 { "o" } else { "c" }));
            if spawns_of(&[all[d]])[0] {
                unfinished.push(ntasks);
                ntasks += 1;
            }
            // window
            while !unfinished.is_empty() && rng.chance(1, 6) {
                let k = rng.below(unfinished.len());
                evs.push(format!("f{}", unfinished.remove(k)));
            }
            evs.push("p".to_string());
            while !unfinished.is_empty() && rng.chance(2, 5) {
                let k = rng.below(unfinished.len());
                evs.push(format!("f{}", unfinished.remove(k)));
            }
        }
        while !unfinished.is_empty() {
            let k = rng.below(unfinished.len());
            evs.push(format!("f{}", unfinished.remove(k)));
        }
        let mode = if rng.chance(1, 2) { "lazy" } else { "eager" };
        out.push(format!("ls29r {dwa} {} {mode}", evs.join(",")));
    }
    out
}

/// `probe`: every catalogue document alone, declared and observed signatures.
fn probe() {
    let stdout = std::io::stdout();
    let mut rows = vec![];
    for c in CATALOGUE.iter() {
        let sync_ok = {
            // try with a task; if none was spawned the reply is `ill-formed`
            let r = run_schedule(&[c.3], &[Ev::Open(0), Ev::Publish, Ev::Finish(0)], false);
            if r == "ill-formed" { run_schedule(&[c.3], &[Ev::Open(0), Ev::Publish], false) } else { r }
        };
        rows.push(format!("@@ probe {} declared={}/{} observed={}", c.0, c.1, c.2, sync_ok));
    }
    let mut out = stdout.lock();
    for r in rows {
        writeln!(out, "{r}").unwrap();
    }
}

/// `race <n>`: NOT part of the check (timing-dependent, reported as an observation only). Opens a
/// document that is not LL(1) on `n` fresh ungated servers with `max_k = 1` and counts how often
/// the background thread's error reached the client BEFORE the handler's empty list (finding F38
/// happening by itself, without the gate; impossible since the repair, and checks/c29.py treats a
/// non-zero count as a violation).
fn race(n: usize) {
    let text = catalogue_text("ll2").unwrap();
    let (mut early, mut late, mut missing) = (0usize, 0usize, 0usize);
    for _ in 0..n {
        let mut s = LsSession::new(1);
        if s.open(text).is_err() {
            missing += 1;
            continue;
        }
        let mut sigs = vec![];
        while sigs.len() < 2 {
            match s.client.receiver.recv_timeout(Duration::from_secs(20)) {
                Ok(m) => sigs.extend(published(vec![m], 0)),
                Err(_) => break,
            }
        }
        match sigs.as_slice() {
            [a, b] if a.ends_with(":ok") && !b.ends_with(":ok") => late += 1,
            [a, b] if !a.ends_with(":ok") && b.ends_with(":ok") => early += 1,
            _ => missing += 1,
        }
    }
    println!("@@ race opens={n} error-after-ok={late} error-before-ok={early} other={missing}");
}

/// Number of child processes of `run` (override: `PV_C29_SHARDS`; 1 = answer in this process).
const SHARDS: usize = 4;

/// `run`: answers the cases of stdin in their order. The cases are independent (each one builds a
/// fresh server) but the gate is process-wide, so one process can only run one case at a time;
/// the cases are therefore dealt round-robin to `SHARDS` child processes (`run1`, the sequential
/// loop) and the replies are put back in order. A child that dies leaves its later cases
/// unanswered: the replies before the first unanswered case are printed and the exit code is 3.
fn run_sharded() {
    use std::io::{BufRead, Read};
    use std::process::{Command, Stdio};
    let n = std::env::var("PV_C29_SHARDS").ok().and_then(|s| s.parse().ok()).unwrap_or(SHARDS);
    let exe = std::env::current_exe().ok();
    if n <= 1 || exe.is_none() {
        return run_lines(run_case);
    }
    let lines: Vec<String> = std::io::stdin().lock().lines().map(|l| l.unwrap()).collect();
    let mut workers = vec![];
    for k in 0..n {
        let input: String = lines.iter().skip(k).step_by(n).map(|l| format!("{l}\n")).collect();
        let mut child = Command::new(exe.as_ref().unwrap())
            .args(["c29", "run1"])
            .stdin(Stdio::piped())
            .stdout(Stdio::piped())
            .stderr(Stdio::null())
            .spawn()
            .expect("cannot start a shard");
        let mut stdin = child.stdin.take().unwrap();
        let mut stdout = child.stdout.take().unwrap();
        let feeder = std::thread::spawn(move || {
            let _ = stdin.write_all(input.as_bytes());
        });
        let reader = std::thread::spawn(move || {
            let mut out = String::new();
            let _ = stdout.read_to_string(&mut out);
            out
        });
        workers.push((child, feeder, reader));
    }
    let mut replies: Vec<Vec<String>> = vec![];
    for (mut child, feeder, reader) in workers {
        let out = reader.join().unwrap_or_default();
        let _ = feeder.join();
        let _ = child.wait();
        replies.push(out.lines().filter(|l| l.starts_with("@@ ")).map(|l| l.to_string()).collect());
    }
    let mut text = String::new();
    let mut complete = true;
    for i in 0..lines.len() {
        match replies[i % n].get(i / n) {
            Some(r) => {
                text.push_str(r);
                text.push('\n');
            }
            None => {
                complete = false;
                break;
            }
        }
    }
    std::io::stdout().write_all(text.as_bytes()).unwrap();
    std::io::stdout().flush().unwrap();
    if !complete {
        std::process::exit(3);
    }
}

pub fn cli(args: &[String]) {
    match args.first().map(|s| s.as_str()) {
        Some("gen") => {
            let seed: u64 = args.get(1).and_then(|s| s.parse().ok()).unwrap_or(0);
            let thorough = args.get(2).map(|s| s == "thorough").unwrap_or(false);
            let mut s = String::new();
            for c in generate(seed, thorough) {
                s.push_str("@@ ");
                s.push_str(&c);
                s.push('\n');
            }
            std::io::stdout().write_all(s.as_bytes()).unwrap();
        }
        Some("run") => run_sharded(),
        Some("run1") => run_lines(run_case),
        Some("probe") => probe(),
        Some("race") => race(args.get(1).and_then(|s| s.parse().ok()).unwrap_or(1000)),
        _ => {
            eprintln!("usage: gen <seed> <quick|thorough> | run | probe");
            std::process::exit(2);
        }
    }
}
