//! C25 — rendering a grammar as PAR text round-trips.
//!
//! Real code driven in-process:
//!   `rt  <hex(par)>`  obtain_grammar_config_from_string(text) -> render_par_string(&gc, false)
//!                     -> obtain_grammar_config_from_string(rendered); both `GrammarConfig`s are
//!                     dumped field by field into the comparer encoding (see `dump_config`).
//!   `rtx <hex(par)>`  the same after check_and_transform_grammar_with_ignored + update_cfg (what
//!                     parol writes as the expanded grammar).
//!   `fmt-t …` / `fmt-n …` / `fmt-la …`  D-tie on the printers: real `Terminal::format`,
//!                     `Symbol::format`, `LookaheadExpression::to_par` on constructed symbols vs
//!                     the Lean model (lean/ParolModel/Model/ParLiterals.lean).
//! Replies of `rt`/`rtx`: `rejected` (text not accepted by parol: nothing to round-trip),
//! `untransformable` (rtx only), or `<enc1> <enc2> <hex(rendered)>` where `<enc2>` is
//! `!render:<class>` / `!reparse:<class>` if the second stage fails.
//!
//! `pv c25 dump <file>` regenerates lean/ParolModel/Generated/ParLiteralRes.lean from the
//! `scanner!` block of crates/parol/src/parser/parol_parser.rs (the token regexes of parol.par as
//! parol generated them), lowered with harness/src/relower.rs.
use crate::relower::{lean_str, lower_str};
use crate::rng::Rng;
use crate::util::{run_lines, show_nats};
use parol::generators::grammar_trans::check_and_transform_grammar_with_ignored;
use parol::grammar::ProductionAttribute;
use parol::parser::parol_grammar::{LookaheadExpression, ScannerStateSwitch, UserDefinedTypeName};
use parol::{
    obtain_grammar_config_from_string, render_par_string, Cfg, GrammarConfig, Pr, ScannerConfig, Symbol, SymbolAttribute,
    Terminal, TerminalKind,
};
use std::collections::BTreeSet;
use std::io::Write;

// ------------------------------------------------------------------------------------------------
// small encoders

pub fn hex(s: &str) -> String {
    s.bytes().map(|b| format!("{b:02x}")).collect()
}

pub fn unhex(s: &str) -> Option<String> {
    if s.len() % 2 != 0 {
        return None;
    }
    let mut v = Vec::with_capacity(s.len() / 2);
    for i in (0..s.len()).step_by(2) {
        v.push(u8::from_str_radix(s.get(i..i + 2)?, 16).ok()?);
    }
    String::from_utf8(v).ok()
}

fn opt_hex(o: &Option<String>) -> String {
    match o {
        None => "-".into(),
        Some(s) => format!("x{}", hex(s)),
    }
}

fn kind_letter(k: TerminalKind) -> char {
    match k {
        TerminalKind::Legacy => 'l',
        TerminalKind::Regex => 'r',
        TerminalKind::Raw => 'w',
    }
}

fn sattr_digit(a: &SymbolAttribute) -> u8 {
    match a {
        SymbolAttribute::None => 0,
        SymbolAttribute::Clipped => 1,
        SymbolAttribute::RepetitionAnchor => 2,
        SymbolAttribute::Option => 3,
    }
}

fn pattr_digit(a: &ProductionAttribute) -> u8 {
    match a {
        ProductionAttribute::None => 0,
        ProductionAttribute::CollectionStart => 1,
        ProductionAttribute::AddToCollection => 2,
        ProductionAttribute::OptionalSome => 3,
        ProductionAttribute::OptionalNone => 4,
    }
}

fn enc_la(l: &Option<LookaheadExpression>) -> String {
    match l {
        None => "-".into(),
        Some(l) => format!("{}{}x{}", if l.is_positive { 'p' } else { 'n' }, kind_letter(l.kind), hex(&l.pattern)),
    }
}

fn enc_states(s: &[usize]) -> String {
    if s.is_empty() {
        "-".into()
    } else {
        s.iter().map(|x| x.to_string()).collect::<Vec<_>>().join("+")
    }
}

fn enc_symbol(s: &Symbol) -> String {
    match s {
        Symbol::N(n, a, u, m) => format!(
            "n.{}.{}.{}.{}.-.-",
            hex(n),
            sattr_digit(a),
            opt_hex(m),
            opt_hex(&u.as_ref().map(|u| u.to_string()))
        ),
        Symbol::T(Terminal::Trm(t, k, st, a, u, m, l)) => format!(
            "{}.{}.{}.{}.{}.{}.{}",
            kind_letter(*k),
            hex(t),
            sattr_digit(a),
            opt_hex(m),
            opt_hex(&u.as_ref().map(|u| u.to_string())),
            enc_states(st),
            enc_la(l)
        ),
        Symbol::T(Terminal::Eps) => "e.....-.-".into(),
        Symbol::T(Terminal::End) => "d.....-.-".into(),
        #[allow(deprecated)]
        _ => "s.....-.-".into(),
    }
}

fn enc_pr(p: &Pr) -> String {
    let rhs = if p.get_r().is_empty() { "-".to_string() } else { p.get_r().iter().map(enc_symbol).collect::<Vec<_>>().join(",") };
    format!("{}:{}:{}", hex(p.get_n_str()), pattr_digit(&p.2), rhs)
}

fn list_or_dash(v: Vec<String>, sep: &str) -> String {
    if v.is_empty() {
        "-".into()
    } else {
        v.join(sep)
    }
}

/// terminal index -> `<index>~<kind>x<hex(text)>~<la>` resolved through the configuration's own
/// grammar (`?` when the index does not denote a terminal of the grammar)
fn enc_term_ref(cfg: &Cfg, idx: u16) -> String {
    let ts = cfg.get_ordered_terminals();
    let i = idx as usize;
    let first = parol::parol_runtime::lexer::FIRST_USER_TOKEN as usize;
    if i >= first && i - first < ts.len() {
        let (t, k, l, _) = &ts[i - first];
        // Legacy and Regex literals behave alike (`behaves_like`): one letter for both
        let kl = if *k == TerminalKind::Raw { 'w' } else { 'r' };
        format!("{idx}~{kl}x{}~{}", hex(t), enc_la(l))
    } else {
        format!("{idx}~?~-")
    }
}

fn enc_scanner(cfg: &Cfg, sc: &ScannerConfig) -> String {
    let lcs = list_or_dash(sc.line_comments.iter().map(|c| format!("x{}", hex(c))).collect(), ",");
    let bcs = list_or_dash(sc.block_comments.iter().map(|(a, b)| format!("x{}+x{}", hex(a), hex(b))).collect(), ",");
    let skips = list_or_dash(sc.skip_tokens.iter().map(|t| enc_term_ref(cfg, *t)).collect(), ",");
    let trans = list_or_dash(
        sc.transitions
            .iter()
            .map(|(t, sw)| {
                let s = match sw {
                    ScannerStateSwitch::Switch(n, _) => format!("e{}", hex(n)),
                    ScannerStateSwitch::SwitchPush(n, _) => format!("p{}", hex(n)),
                    ScannerStateSwitch::SwitchPop(_) => "o".to_string(),
                };
                format!("{}>{}", enc_term_ref(cfg, *t), s)
            })
            .collect(),
        ",",
    );
    format!(
        "{}!{}!{}!{}!{}!{}!{}!{}",
        hex(&sc.scanner_name),
        lcs,
        bcs,
        sc.auto_newline as u8,
        sc.auto_ws as u8,
        sc.allow_unmatched as u8,
        skips,
        trans
    )
}

/// The comparer encoding: everything the property lists, one word.
pub fn dump_config(gc: &GrammarConfig) -> String {
    let gt = match gc.grammar_type {
        parol::parser::parol_grammar::GrammarType::LLK => "ll",
        parol::parser::parol_grammar::GrammarType::LALR1 => "lr",
    };
    let pairs = |v: &Vec<(String, String)>| list_or_dash(v.iter().map(|(a, b)| format!("{}={}", hex(a), hex(b))).collect(), ";");
    format!(
        "{}|{}|{}|{}|{}|{}|{}|{}|{}",
        hex(&gc.cfg.st),
        opt_hex(&gc.title),
        opt_hex(&gc.comment),
        gt,
        pairs(&gc.user_type_defs),
        pairs(&gc.nt_type_defs),
        opt_hex(&gc.t_type_def),
        list_or_dash(gc.cfg.pr.iter().map(enc_pr).collect(), ";"),
        list_or_dash(gc.scanner_configurations.iter().map(|s| enc_scanner(&gc.cfg, s)).collect(), "/")
    )
}

fn err_class(e: &anyhow::Error) -> String {
    let s = format!("{e:?}");
    let c = if s.contains("Invalid token") {
        "invalid-token-name"
    } else if s.contains("Multiple token aliases") {
        "alias-conflict"
    } else if s.contains("Syntax error") {
        "syntax"
    } else if s.contains("not found") {
        "unresolved-name"
    } else {
        "other"
    };
    c.to_string()
}

fn round_trip(gc1: &GrammarConfig) -> String {
    let e1 = dump_config(gc1);
    let rendered = match render_par_string(gc1, false) {
        Ok(r) => r,
        Err(e) => return format!("{e1} !render:{} -", err_class(&e)),
    };
    match obtain_grammar_config_from_string(&rendered, false) {
        Ok(gc2) => format!("{e1} {} {}", dump_config(&gc2), hex(&rendered)),
        Err(e) => format!("{e1} !reparse:{} {}", err_class(&e), hex(&rendered)),
    }
}

// ------------------------------------------------------------------------------------------------
// counterfactual inputs for the listed findings: `sanitize(gc, ids)` replaces, in a configuration
// parol produced, exactly the constructs that trigger the listed finding by the nearest construct
// that does not; `rts`/`rtxs` then round-trip the sanitized configuration. A failing `rt` case is
// attributed to a set of findings iff the case sanitized for that set round-trips.

fn for_each_symbol(gc: &mut GrammarConfig, f: &mut dyn FnMut(&mut Symbol)) {
    for p in gc.cfg.pr.iter_mut() {
        for s in p.1.iter_mut() {
            f(s);
        }
    }
}

fn fix_body(b: &mut String) {
    if b.ends_with('\\') {
        b.push('x');
    }
}

fn fix_quote(b: &mut String) {
    let mut o = String::with_capacity(b.len() + 2);
    let mut escaped = false;
    for c in b.chars() {
        if c == '"' && !escaped {
            o.push('\\');
        }
        escaped = c == '\\' && !escaped;
        o.push(c);
    }
    *b = o;
}

pub fn sanitize(gc: &mut GrammarConfig, ids: &str) {
    let resolver = gc.get_user_type_resolver();
    let printed = |u: &str| -> bool { matches!(resolver(u), Some(a) if a != "%nt_type" && a != "%t_type") };
    let nt_types: Vec<(String, String)> = gc.nt_type_defs.clone();
    let t_type = gc.t_type_def.clone();
    for id in ids.split(',') {
        match id {
            // F25a: user type of a non-terminal occurrence that is not printed (no alias): what a
            // re-read assigns instead is the %nt_type of the non-terminal, if any
            "F25a" => for_each_symbol(gc, &mut |s| {
                if let Symbol::N(n, _, u, _) = s {
                    if let Some(x) = u {
                        if !printed(&x.to_string()) {
                            *u = nt_types.iter().rev().find(|(k, _)| k == n).map(|(_, t)| utype_of(t));
                        }
                    }
                }
            }),
            // F25b: clipped terminal with a lookahead expression: `^` is printed before `?=`
            "F25b" => for_each_symbol(gc, &mut |s| {
                if let Symbol::T(Terminal::Trm(_, _, _, a, _, _, Some(_))) = s {
                    if *a == SymbolAttribute::Clipped {
                        *a = SymbolAttribute::None;
                    }
                }
            }),
            // F25c: clipped non-terminal whose (%nt_type) type is printed through an alias: `N^ : Alias`
            "F25c" => for_each_symbol(gc, &mut |s| {
                if let Symbol::N(_, a, Some(x), _) = s {
                    if *a == SymbolAttribute::Clipped && printed(&x.to_string()) {
                        *a = SymbolAttribute::None;
                    }
                }
            }),
            // F25d: literal bodies ending in a backslash
            "F25d" => {
                if let Some(t) = gc.title.as_mut() {
                    fix_body(t);
                }
                if let Some(t) = gc.comment.as_mut() {
                    fix_body(t);
                }
                for sc in gc.scanner_configurations.iter_mut() {
                    for c in sc.line_comments.iter_mut() {
                        fix_body(c);
                    }
                    for (a, b) in sc.block_comments.iter_mut() {
                        fix_body(a);
                        fix_body(b);
                    }
                }
                for_each_symbol(gc, &mut |s| {
                    if let Symbol::T(Terminal::Trm(t, _, _, _, _, _, l)) = s {
                        fix_body(t);
                        if let Some(l) = l {
                            fix_body(&mut l.pattern);
                        }
                    }
                });
            }
            // F25e: %t_type is applied to `"x"` but not to `<INITIAL>"x"`, and the state list `<INITIAL>`
            // is not printed; a type equal to %t_type is not printed on `<A, B>"x"` either
            "F25e" => for_each_symbol(gc, &mut |s| {
                if let Symbol::T(Terminal::Trm(_, _, st, _, u, _, _)) = s {
                    if let Some(tt) = &t_type {
                        if st.as_slice() == [0] {
                            if u.is_none() {
                                *u = Some(utype_of(tt));
                            }
                        } else if u.as_ref().map(|x| x.to_string()) == Some(tt.clone()) {
                            *u = None;
                        }
                    }
                }
            }),
            // F25h: a single-terminal alternative of a non-terminal with several productions: rendered as
            // a production of its own it reads as a token alias (conflict with the real alias of the same
            // terminal; chosen as the `%on`/`%skip` name of the terminal)
            "F25h" => {
                let lhs: Vec<String> = gc.cfg.pr.iter().map(|p| p.get_n()).collect();
                for p in gc.cfg.pr.iter_mut() {
                    let n = p.get_n();
                    if p.1.len() == 1 && matches!(p.1[0], Symbol::T(Terminal::Trm(..))) && lhs.iter().filter(|l| **l == n).count() > 1 {
                        let c = p.1[0].clone();
                        p.1.push(c);
                    }
                }
            }
            // F25i: several `%on` directives for one token in one scanner state
            "F25i" => {
                for sc in gc.scanner_configurations.iter_mut() {
                    let mut seen: Vec<u16> = vec![];
                    sc.transitions.retain(|(t, _)| {
                        if seen.contains(t) {
                            false
                        } else {
                            seen.push(*t);
                            true
                        }
                    });
                }
            }
            // F25g: comment delimiter containing an unescaped `"` (rendered inside "…")
            "F25g" => {
                for sc in gc.scanner_configurations.iter_mut() {
                    for c in sc.line_comments.iter_mut() {
                        fix_quote(c);
                    }
                    for (a, b) in sc.block_comments.iter_mut() {
                        fix_quote(a);
                        fix_quote(b);
                    }
                }
            }
            // F25f: terminal whose user type is spelled like a non-terminal that has a %nt_type: printed
            // as ` : %nt_type`
            "F25f" => for_each_symbol(gc, &mut |s| {
                if let Symbol::T(Terminal::Trm(_, _, st, _, u, _, _)) = s {
                    if let Some(x) = u {
                        if resolver(&x.to_string()).as_deref() == Some("%nt_type") {
                            *u = if st.as_slice() == [0] { t_type.as_ref().map(|t| utype_of(t)) } else { None };
                        }
                    }
                }
            }),
            _ => {}
        }
    }
}

fn transformed(par: &str) -> Result<GrammarConfig, &'static str> {
    let mut gc = obtain_grammar_config_from_string(par, false).map_err(|_| "rejected")?;
    let ignored = gc.unreachable_non_terminals_to_ignore.iter().cloned().collect::<BTreeSet<String>>();
    let cfg = check_and_transform_grammar_with_ignored(&gc.cfg, gc.grammar_type, &ignored).map_err(|_| "untransformable")?;
    gc.update_cfg(cfg);
    Ok(gc)
}

// ------------------------------------------------------------------------------------------------
// printer tie

fn cps(s: &str) -> String {
    show_nats(&s.chars().map(|c| c as u32).collect::<Vec<_>>())
}

fn from_cps(s: &str) -> Option<String> {
    crate::relower::from_cps(s)
}

fn opt_cps(s: &str) -> Option<Option<String>> {
    if s == "~" { Some(None) } else { from_cps(s).map(Some) }
}

fn kind_of(s: &str) -> Option<TerminalKind> {
    match s {
        "l" => Some(TerminalKind::Legacy),
        "r" => Some(TerminalKind::Regex),
        "w" => Some(TerminalKind::Raw),
        _ => None,
    }
}

fn attr_of(s: &str) -> Option<SymbolAttribute> {
    match s {
        "0" => Some(SymbolAttribute::None),
        "1" => Some(SymbolAttribute::Clipped),
        "2" => Some(SymbolAttribute::RepetitionAnchor),
        "3" => Some(SymbolAttribute::Option),
        _ => None,
    }
}

fn utype_of(s: &str) -> UserDefinedTypeName {
    UserDefinedTypeName::new(s.split("::").map(|x| x.to_string()).collect())
}

/// `~` | `<p|n><kind>:<cps>`
fn la_of(s: &str) -> Option<Option<LookaheadExpression>> {
    if s == "~" {
        return Some(None);
    }
    let (h, pat) = s.split_once(':')?;
    let mut cs = h.chars();
    let pos = match cs.next()? {
        'p' => true,
        'n' => false,
        _ => return None,
    };
    let kind = kind_of(&cs.next()?.to_string())?;
    Some(Some(LookaheadExpression { is_positive: pos, pattern: from_cps(pat)?, kind }))
}

fn str_list(s: &str) -> Option<Vec<String>> {
    if s == "~" {
        return Some(vec![]);
    }
    s.split(';').map(from_cps).collect()
}

fn pair_list(s: &str) -> Option<Vec<(String, String)>> {
    if s == "~" {
        return Some(vec![]);
    }
    s.split(';')
        .map(|p| {
            let (a, b) = p.split_once('=')?;
            Some((from_cps(a)?, from_cps(b)?))
        })
        .collect()
}

/// a GrammarConfig that carries just what the two resolvers read
fn resolver_config(names: &[String], udefs: &[(String, String)], ntdefs: &[(String, String)], ttype: &Option<String>) -> GrammarConfig {
    let mut gc = GrammarConfig::new(Cfg::with_start_symbol("S"), 1);
    for (i, n) in names.iter().enumerate() {
        gc = gc.add_scanner(ScannerConfig::new(n.clone(), i));
    }
    for (a, u) in udefs {
        gc = gc.add_user_type_def(a.clone(), u.clone());
    }
    for (a, u) in ntdefs {
        gc = gc.add_nt_type_def(a.clone(), u.clone());
    }
    gc.t_type_def = ttype.clone();
    gc
}

pub fn run_case(w: &[&str]) -> Option<String> {
    match w {
        ["rt", h] => {
            let par = unhex(h)?;
            Some(match obtain_grammar_config_from_string(&par, false) {
                Err(_) => "rejected".to_string(),
                Ok(gc) => round_trip(&gc),
            })
        }
        ["rtx", h] => {
            let par = unhex(h)?;
            Some(match transformed(&par) {
                Err(e) => e.to_string(),
                Ok(gc) => round_trip(&gc),
            })
        }
        ["rts", ids, h] => {
            let par = unhex(h)?;
            Some(match obtain_grammar_config_from_string(&par, false) {
                Err(_) => "rejected".to_string(),
                Ok(mut gc) => {
                    sanitize(&mut gc, ids);
                    round_trip(&gc)
                }
            })
        }
        ["rtxs", ids, h] => {
            let par = unhex(h)?;
            Some(match transformed(&par) {
                Err(e) => e.to_string(),
                Ok(mut gc) => {
                    sanitize(&mut gc, ids);
                    round_trip(&gc)
                }
            })
        }
        // fmt-la <p|n><kind>:<cps>
        ["fmt-la", la] => {
            let l = la_of(la)??;
            Some(cps(&l.to_par()))
        }
        // fmt-t <kind> <body> <attr> <la> <member> <utype> <states> <names> <udefs> <ntdefs> <ttype>
        ["fmt-t", k, body, a, la, m, u, st, names, ud, nd, tt] => {
            let names = str_list(names)?;
            let states: Vec<usize> = crate::util::parse_nats(st)?;
            if states.iter().any(|s| *s >= names.len()) {
                return None;
            }
            let gc = resolver_config(&names, &pair_list(ud)?, &pair_list(nd)?, &opt_cps(tt)?);
            let t = Terminal::Trm(
                from_cps(body)?,
                kind_of(k)?,
                states,
                attr_of(a)?,
                opt_cps(u)?.map(|u| utype_of(&u)),
                opt_cps(m)?,
                la_of(la)?,
            );
            Some(match t.format(&gc.get_scanner_state_resolver(), &gc.get_user_type_resolver()) {
                Ok(s) => cps(&s),
                Err(_) => "err".to_string(),
            })
        }
        // fmt-n <name> <attr> <member> <utype> <udefs> <ntdefs> <ttype>
        ["fmt-n", n, a, m, u, ud, nd, tt] => {
            let gc = resolver_config(&["INITIAL".to_string()], &pair_list(ud)?, &pair_list(nd)?, &opt_cps(tt)?);
            let s = Symbol::N(from_cps(n)?, attr_of(a)?, opt_cps(u)?.map(|u| utype_of(&u)), opt_cps(m)?);
            Some(match s.format(&gc.get_scanner_state_resolver(), &gc.get_user_type_resolver()) {
                Ok(s) => cps(&s),
                Err(_) => "err".to_string(),
            })
        }
        _ => None,
    }
}

// ------------------------------------------------------------------------------------------------
// generators

/// literal bodies per kind: plain, escapes, the other kinds' delimiters, escaped own delimiter,
/// backslashes, regex meta characters, non-ASCII
const LEGACY_BODIES: &[&str] = &[
    "a", "ab", "\\\"", "a\\\"b", "'", "/", "\\\\", "\\\\\\\\", "[\\\"']", "\\.", "\\u{22}", "x\\/y", "é", "\\n", " ", "a|b", "\\+", "//", "/*", "*/",
    "x'y/z", "[0-9]+", "\\\\\\\"", "日本", "\\\"\\\"", "%", "^", "@", ":", "<>", "\\b",
];
const RAW_BODIES: &[&str] = &[
    "a", "ab", "\\'", "\"", "/", "\\\\", "it\\'s", "+*", "\\u{27}", "{", "}", "(", "//", "/*", "*/", "é", "\\n", " ", "a\"b/c", "\\\\\\'", "%", "^", "@", ":",
    "<", "\\", "->", "日本",
];
const REGEX_BODIES: &[&str] = &[
    "a", "a+", "\\/", "\"", "'", "a\\/b", "[^\\/]", "\\\\", "x*", ".", "[a-z]+", "\\u{2f}", "é", "\\n", " ", "a\"b'c", "\\/\\/", "\\/\\*", "\\*\\/", "%", "^x",
    "@", ":", "<", "\\\\\\/", "a|b", "日本", "\\.",
];

fn body_of(rng: &mut Rng, kind: usize, tame: bool) -> &'static str {
    let mut b = "";
    for _ in 0..8 {
        b = match kind {
            0 => *rng.pick(LEGACY_BODIES),
            1 => *rng.pick(RAW_BODIES),
            _ => *rng.pick(REGEX_BODIES),
        };
        // a body ending in a backslash swallows the text up to the next delimiter character (F25d): such
        // documents are mostly rejected outright, keep them rare
        if !b.ends_with('\\') || (!tame && rng.chance(1, 8)) {
            break;
        }
    }
    b
}

fn delim_of(kind: usize) -> char {
    ['"', '\'', '/'][kind]
}

fn literal(rng: &mut Rng, tame: bool) -> String {
    let k = rng.below(3);
    let d = delim_of(k);
    format!("{d}{}{d}", body_of(rng, k, tame))
}

const TITLES: &[&str] = &["g", "A \\\"quoted\\\" title", "back\\\\slash", "it's", "sl/ash", "\\u{41}", "日本", "", " ", "%start", "a // b", "x /* y */"];
const TYPES: &[&str] = &["a::B", "crate::m::T", "T", "Alias", "Alias2", "x::Y", "N0", "N1", "Tm0"];
const MEMBERS: &[&str] = &["m", "name", "x_1", "S", "T0"];

/// comment delimiter literals (in any of the three quotings); the last three trigger F25d / F25g
const LINE_COMMENTS: &[&str] = &["'//'", "'#'", "'--'", "\"//\"", "/\\/\\//", "\"\\#\"", "'%'", "';'", "/REM/", "\"\\\"\"", "'\\\\'", "'\"'"];
const BLOCK_COMMENTS: &[(&str, &str)] = &[
    ("'/*'", "'*/'"),
    ("'(*'", "'*)'"),
    ("'{-'", "'-}'"),
    ("\"\\{\\{\"", "\"\\}\\}\""),
    ("'<!--'", "'-->'"),
    ("/\\/\\*/", "/\\*\\//"),
    ("'#|'", "'|#'"),
    ("'\"\"\"'", "'\"\"\"'"),
];

struct Doc {
    text: String,
}

/// What a document may use. `tame` documents avoid the triggers of the listed findings F25a–F25g
/// (so that most explored documents are judged on the full round trip): user types on
/// non-terminals only through declared aliases, no `^` on a terminal with lookahead, %nt_type
/// types that are no alias targets, no body ending in a backslash, no %t_type together with
/// `<INITIAL>` / a type equal to it, no type spelled like a non-terminal, no `"` in comment delimiters.
struct Pools {
    tame: bool,
    aliases: Vec<&'static str>,
    t_type: Option<&'static str>,
}

fn ast_control(rng: &mut Rng, for_terminal: bool, has_la: bool, p: &Pools) -> String {
    let ty = |rng: &mut Rng| -> Option<String> {
        if !p.tame {
            return Some(rng.pick(TYPES).to_string());
        }
        if for_terminal {
            let mut pool: Vec<&str> = vec!["a::B", "crate::m::T", "x::Y", "q::R"];
            pool.extend(p.aliases.iter());
            let t = *rng.pick(&pool);
            if Some(t) == p.t_type { None } else { Some(t.to_string()) }
        } else if p.aliases.is_empty() {
            None
        } else {
            Some(rng.pick(&p.aliases).to_string())
        }
    };
    match rng.below(10) {
        0 | 1 => {
            if p.tame && for_terminal && has_la {
                String::new()
            } else {
                "^".to_string()
            }
        }
        2 => format!("@{}", rng.pick(MEMBERS)),
        3 => ty(rng).map(|t| format!(" : {t}")).unwrap_or_default(),
        4 => match ty(rng) {
            Some(t) => format!("@{} : {t}", rng.pick(MEMBERS)),
            None => format!("@{}", rng.pick(MEMBERS)),
        },
        _ => String::new(),
    }
}

fn gen_doc(rng: &mut Rng, tame: bool) -> Doc {
    let nmodes = 1 + [0, 0, 1, 1, 2][rng.below(5)];
    let mode_names: Vec<String> = (0..nmodes).map(|i| if i == 0 { "INITIAL".to_string() } else { format!("M{i}") }).collect();
    let nterms = rng.range(1, 5);
    let nnts = rng.range(0, 2);
    let mut s = String::from("%start S\n");
    // prolog declarations in random order
    let mut decls: Vec<String> = vec![];
    if rng.chance(2, 3) {
        decls.push(format!("%title \"{}\"\n", rng.pick(if tame { &TITLES[3..] } else { TITLES })));
    }
    if rng.chance(1, 2) {
        decls.push(format!("%comment \"{}\"\n", rng.pick(if tame { &TITLES[3..] } else { TITLES })));
    }
    match rng.below(4) {
        0 => decls.push("%grammar_type 'LALR(1)'\n".to_string()),
        1 => decls.push("%grammar_type 'LL(k)'\n".to_string()),
        2 => decls.push("%grammar_type 'lalr(1)'\n".to_string()),
        _ => {}
    }
    let mut pools = Pools { tame, aliases: vec![], t_type: None };
    for (i, al) in ["Alias", "Alias2"].iter().enumerate() {
        if rng.chance(1, 3) {
            decls.push(format!("%user_type {al} = {}\n", ["a::B", "x::Y", "crate::m::T"][(i + rng.below(2)) % 3]));
            pools.aliases.push(al);
        }
    }
    for i in 0..nnts {
        if rng.chance(1, 4) {
            decls.push(format!("%nt_type N{i} = {}\n", if tame { *rng.pick(&["n::T1", "n::T2"]) } else { *rng.pick(TYPES) }));
        }
    }
    if rng.chance(1, 8) {
        decls.push(format!("%nt_type Tm0 = {}\n", if tame { "n::T3" } else { *rng.pick(TYPES) }));
    }
    if rng.chance(1, 4) {
        let t = if tame { "t::T" } else { *rng.pick(TYPES) };
        decls.push(format!("%t_type {t}\n"));
        pools.t_type = Some(t);
    }
    let initial_list_ok = !(tame && pools.t_type.is_some());
    // terminals with their states
    let mut tstates: Vec<Vec<usize>> = vec![];
    for _ in 0..nterms {
        let mut st: Vec<usize> = (0..nmodes).filter(|_| rng.chance(1, 2)).collect();
        if st.is_empty() {
            st.push(rng.below(nmodes));
        }
        tstates.push(st);
    }
    for m in 1..nmodes {
        if !tstates.iter().any(|t| t.contains(&m)) {
            let j = rng.below(nterms);
            tstates[j].push(m);
            tstates[j].sort();
        }
    }
    let directives = |rng: &mut Rng, me: usize, ind: &str| -> Vec<String> {
        let mut d = vec![];
        for _ in 0..[0, 0, 1, 1, 2][rng.below(5)] {
            let c = if tame || !rng.chance(1, 6) { *rng.pick(&LINE_COMMENTS[..LINE_COMMENTS.len() - 2]) } else { *rng.pick(LINE_COMMENTS) };
            d.push(format!("{ind}%line_comment {c}\n"));
        }
        for _ in 0..[0, 0, 1, 1, 2][rng.below(5)] {
            let (a, b) = if tame || !rng.chance(1, 6) { *rng.pick(&BLOCK_COMMENTS[..BLOCK_COMMENTS.len() - 1]) } else { *rng.pick(BLOCK_COMMENTS) };
            d.push(format!("{ind}%block_comment {a} {b}\n"));
        }
        if rng.chance(1, 3) {
            d.push(format!("{ind}%auto_newline_off\n"));
        }
        if rng.chance(1, 3) {
            d.push(format!("{ind}%auto_ws_off\n"));
        }
        if rng.chance(1, 3) {
            d.push(format!("{ind}%allow_unmatched\n"));
        }
        let mine: Vec<usize> = (0..nterms).filter(|t| tstates[*t].contains(&me)).collect();
        if !mine.is_empty() && rng.chance(1, 3) {
            let n = rng.range(1, 2.min(mine.len()));
            let v: Vec<String> = (0..n).map(|_| format!("Tm{}", rng.pick(&mine))).collect();
            d.push(format!("{ind}%skip {}\n", v.join(", ")));
        }
        if !mine.is_empty() {
            let mut used: Vec<usize> = vec![];
            for _ in 0..rng.range(0, 2) {
                let n = rng.range(1, 2.min(mine.len()));
                let mut v: Vec<String> = vec![];
                for _ in 0..n {
                    let t = *rng.pick(&mine);
                    // (wild documents may name a token in several %on directives of one state: F25i)
                    if !used.contains(&t) || (!tame && rng.chance(1, 4)) {
                        used.push(t);
                        v.push(format!("Tm{t}"));
                    }
                }
                if v.is_empty() {
                    continue;
                }
                let target = &mode_names[rng.below(nmodes)];
                match rng.below(3) {
                    0 => d.push(format!("{ind}%on {} %enter {target}\n", v.join(", "))),
                    1 => d.push(format!("{ind}%on {} %push {target}\n", v.join(", "))),
                    _ => d.push(format!("{ind}%on {} %pop\n", v.join(", "))),
                }
            }
        }
        d
    };
    decls.extend(directives(rng, 0, ""));
    // shuffle declarations (Fisher-Yates)
    for i in (1..decls.len()).rev() {
        let j = rng.below(i + 1);
        decls.swap(i, j);
    }
    for d in &decls {
        s.push_str(d);
    }
    for m in 1..nmodes {
        s.push_str(&format!("%scanner {} {{\n", mode_names[m]));
        for d in directives(rng, m, "    ") {
            s.push_str(&d);
        }
        s.push_str("}\n");
    }
    s.push_str("%%\n");
    // productions: S mentions everything once, then random alternatives
    let lookahead = |rng: &mut Rng| -> String {
        if rng.chance(1, 5) { format!(" {} {}", if rng.chance(1, 2) { "?=" } else { "?!" }, literal(rng, tame)) } else { String::new() }
    };
    let inline_term = |rng: &mut Rng| -> String {
        let st = if nmodes > 1 && rng.chance(1, 3) {
            let mut v: Vec<usize> = (0..nmodes).filter(|_| rng.chance(1, 2)).collect();
            if v.is_empty() {
                v.push(0);
            }
            if rng.chance(1, 4) {
                v.reverse();
            }
            if v == vec![0] && !initial_list_ok {
                String::new()
            } else {
                format!("<{}>", v.iter().map(|i| mode_names[*i].clone()).collect::<Vec<_>>().join(", "))
            }
        } else if rng.chance(1, 10) && initial_list_ok {
            "<INITIAL>".to_string()
        } else {
            String::new()
        };
        let la = lookahead(rng);
        format!("{st}{}{la}{}", literal(rng, tame), ast_control(rng, true, !la.is_empty(), &pools))
    };
    let symbol = |rng: &mut Rng, level: usize| -> String {
        match rng.below(6) {
            0 | 1 => inline_term(rng),
            2 | 3 => format!("Tm{}{}", rng.below(nterms), ast_control(rng, false, false, &pools)),
            _ => {
                if level < nnts {
                    format!("N{}{}", rng.range(level, nnts - 1), ast_control(rng, false, false, &pools))
                } else {
                    format!("Tm{}{}", rng.below(nterms), ast_control(rng, false, false, &pools))
                }
            }
        }
    };
    let alt = |rng: &mut Rng, level: usize| -> String {
        let n = rng.range(0, 3);
        let mut v = vec![];
        for _ in 0..n {
            let x = symbol(rng, level);
            v.push(match rng.below(12) {
                0 => format!("[ {x} ]"),
                1 => format!("{{ {x} }}"),
                2 => format!("( {x} | {} )", symbol(rng, level)),
                _ => x,
            });
        }
        v.join(" ")
    };
    let all: Vec<String> = (0..nnts).map(|i| format!("N{i}")).chain((0..nterms).map(|i| format!("Tm{i}"))).collect();
    let mut prods: Vec<String> = vec![];
    let mut p = format!("S: {}", all.join(" "));
    for _ in 0..rng.range(0, 2) {
        p.push_str(&format!("\n | {}", alt(rng, 0)));
    }
    p.push_str(";\n");
    prods.push(p);
    for i in 0..nnts {
        let mut p = format!("N{i}: {}", symbol(rng, i + 1));
        for _ in 0..rng.range(0, 2) {
            p.push_str(&format!(" | {}", alt(rng, i + 1)));
        }
        p.push_str(";\n");
        prods.push(p);
    }
    // primary terminals: pairwise different bodies (parol rejects token aliases with equal expansion)
    let mut bodies: Vec<String> = vec![];
    for (i, st) in tstates.iter().enumerate() {
        let stt = if st == &vec![0] && (rng.chance(2, 3) || !initial_list_ok) {
            String::new()
        } else {
            format!("<{}>", st.iter().map(|s| mode_names[*s].clone()).collect::<Vec<_>>().join(", "))
        };
        let la = lookahead(rng);
        let ctl = if rng.chance(1, 4) { ast_control(rng, true, !la.is_empty(), &pools) } else { String::new() };
        let mut lit = literal(rng, tame);
        for _ in 0..8 {
            let b = lit[1..lit.len() - 1].to_string();
            if !bodies.contains(&b) {
                break;
            }
            lit = literal(rng, tame);
        }
        bodies.push(lit[1..lit.len() - 1].to_string());
        prods.push(format!("Tm{i}: {stt}{lit}{la}{ctl};\n"));
    }
    // production order is free (the start symbol is declared)
    if rng.chance(1, 2) {
        for i in (1..prods.len()).rev() {
            let j = rng.below(i + 1);
            prods.swap(i, j);
        }
    }
    for p in &prods {
        s.push_str(p);
    }
    Doc { text: s }
}

/// hand-written boundary documents (each exercises one clause of the property)
const FIXED_DOCS: &[&str] = &[
    "%start S %% S: \"a\";",
    "%start S %allow_unmatched %% S: \"a\";",
    "%start S %scanner X { %allow_unmatched } %% S: \"a\" <X>\"b\";",
    "%start S %allow_unmatched %scanner X { %allow_unmatched %auto_ws_off } %scanner Y { } %% S: <INITIAL, X>\"a\" <Y>'b';",
    "%start S %title \"t\" %comment \"c\" %grammar_type 'LALR(1)' %% S: S \"a\" | ;",
    "%start S %line_comment '//' %block_comment '/*' '*/' %auto_newline_off %auto_ws_off %% S: 'a'^ /b/@m \"c\" : x::Y;",
    "%start S %user_type A = x::Y %nt_type N = z::W %t_type t::T %% S: N N@n 'a' : A; N: \"n\";",
    "%start S %on T %enter X %scanner X { %on T %pop %skip U } %% S: T U; T: <INITIAL, X>'t'; U: <X>/u/;",
    "%start S %on T %push X %scanner X { %on T, U %enter INITIAL } %% S: T U; T: <INITIAL, X>'t'; U: <X>/u/;",
    "%start S %% S: 'a' ?= 'b' | \"c\" ?! /d+/ @m | /e/ ?= \"f\" : x::Y;",
    "%start S %% S: \"a\\\"b\" 'it\\'s' /a\\/b/;",
    "%start S %% S: { 'a' } [ 'b' ] ( 'c' | 'd' );",
    // witnesses of the listed findings F25a..F25h (one each; see checks/c25.py)
    "%start S %% S: \"a\" B : MyType; B: \"b\";",
    "%start S %% S: 'a' ?= 'b'^;",
    "%start S %user_type A = x::Y %nt_type B = x::Y %% S: B^ \"c\"; B: \"b\";",
    "%start S %title \"x\\\\\" %line_comment '//' %% S: 'a';",
    "%start S %t_type x::Y %% S: <INITIAL>\"a\";",
    "%start S %nt_type B = x::Y %% S: \"a\" : B B; B: \"b\";",
    "%start S %block_comment '\"\"\"' '\"\"\"' %% S: 'a';",
    "%start S %on T %enter INITIAL %% S: T X; T: 'a'; X: 'a' | 'b' 'c';",
    "%start S %on T %push X %on T %enter X %scanner X { %on T %pop } %% S: T; T: <INITIAL, X>'a';",
    // further boundary documents
    "%start S %t_type a::B %t_type c::D %% S: 'a';",
    "%start S %scanner X { } %% S: <X, X, INITIAL>'a';",
    "%start S %user_type A = x::Y %user_type A = z::W %user_type B = x::Y %% S: 'a' : A 'b' : B 'c' : x::Y;",
    "%start S %skip T, T %skip U %% S: T U; T: 'a'; U: 'b';",
    "%start S %% S: \"a\" ?= \"b\\\"c\" | 'x' ?! 'it\\'s';",
];

fn repo_root() -> String {
    if let Ok(p) = std::env::var("PAROL_REPO") {
        return p;
    }
    // the harness is compiled against a concrete checkout: its manifest dir points at it
    let parol_dir = env!("CARGO_MANIFEST_DIR");
    let sib = std::path::Path::new(parol_dir).join("../../repo");
    if sib.join("crates/parol").is_dir() {
        return sib.to_string_lossy().to_string();
    }
    "/repo".to_string()
}

fn par_files(root: &str) -> Vec<String> {
    fn walk(dir: &std::path::Path, out: &mut Vec<String>, depth: usize) {
        if depth > 6 {
            return;
        }
        let Ok(rd) = std::fs::read_dir(dir) else { return };
        let mut es: Vec<_> = rd.filter_map(|e| e.ok()).collect();
        es.sort_by_key(|e| e.path());
        for e in es {
            let p = e.path();
            let name = p.file_name().map(|n| n.to_string_lossy().to_string()).unwrap_or_default();
            if p.is_dir() {
                if name == "target" || name.starts_with('.') {
                    continue;
                }
                walk(&p, out, depth + 1);
            } else if name.ends_with(".par") {
                out.push(p.to_string_lossy().to_string());
            }
        }
    }
    let mut v = vec![];
    walk(&std::path::Path::new(root).join("examples"), &mut v, 0);
    walk(&std::path::Path::new(root).join("crates/parol/data/valid"), &mut v, 0);
    walk(&std::path::Path::new(root).join("crates/parol/src/parser"), &mut v, 0);
    walk(&std::path::Path::new(root).join("crates/parol/tests/data"), &mut v, 0);
    v
}

/// Round-trip cases: fixed documents, every *.par of the repository, random documents; each as
/// `rt` and `rtx`.
pub fn generate_rt(seed: u64, thorough: bool) -> Vec<String> {
    let mut rng = Rng::new(seed ^ 0xC25);
    let mut out = vec![];
    let mut docs: Vec<String> = FIXED_DOCS.iter().map(|s| s.to_string()).collect();
    for f in par_files(&repo_root()) {
        if let Ok(t) = std::fs::read_to_string(&f) {
            docs.push(t);
        }
    }
    let n = if thorough { 40000 } else { 2400 };
    for i in 0..n {
        docs.push(gen_doc(&mut rng, i % 4 != 3).text);
    }
    for d in docs {
        let h = hex(&d);
        out.push(format!("rt {h}"));
        out.push(format!("rtx {h}"));
    }
    out
}

fn rand_body(rng: &mut Rng, kind: usize) -> String {
    let alphabet: &[&str] = &["a", "b", "\\", "\"", "'", "/", "*", " ", "\\\\", "\\\"", "\\'", "\\/", "é", "^", "@", ":", "<", ">", "?=", "\n", "日", "{", "}", "%"];
    if rng.chance(1, 3) {
        return body_of(rng, kind, false).to_string();
    }
    let n = rng.range(0, 6);
    (0..n).map(|_| *rng.pick(alphabet)).collect()
}

fn enc_opt(o: &Option<String>) -> String {
    match o {
        None => "~".into(),
        Some(s) => cps(s),
    }
}

fn rand_la(rng: &mut Rng) -> String {
    if rng.chance(2, 3) {
        return "~".into();
    }
    let k = rng.below(3);
    format!("{}{}:{}", if rng.chance(1, 2) { 'p' } else { 'n' }, ['l', 'w', 'r'][k], cps(&rand_body(rng, k)))
}

/// Printer tie cases.
pub fn generate(seed: u64, thorough: bool) -> Vec<String> {
    let mut rng = Rng::new(seed ^ 0x25F);
    let mut out = vec![];
    let n = if thorough { 60000 } else { 3000 };
    let names_pool = ["INITIAL", "M1", "M2", "Str"];
    for i in 0..n {
        let udefs: Vec<(String, String)> = (0..rng.below(3)).map(|_| (rng.pick(&["Alias", "Alias2", "N0"]).to_string(), rng.pick(TYPES).to_string())).collect();
        let ntdefs: Vec<(String, String)> = (0..rng.below(3)).map(|_| (rng.pick(&["N0", "N1", "T", "Alias"]).to_string(), rng.pick(TYPES).to_string())).collect();
        let ttype = if rng.chance(1, 3) { Some(rng.pick(TYPES).to_string()) } else { None };
        let pl = |v: &Vec<(String, String)>| if v.is_empty() { "~".to_string() } else { v.iter().map(|(a, b)| format!("{}={}", cps(a), cps(b))).collect::<Vec<_>>().join(";") };
        let attr = [0, 0, 0, 1, 1, 2, 3][rng.below(7)];
        let member = if rng.chance(1, 3) { Some(rng.pick(MEMBERS).to_string()) } else { None };
        let utype = if rng.chance(1, 2) { Some(rng.pick(TYPES).to_string()) } else { None };
        match i % 8 {
            0 => {
                let k = rng.below(3);
                out.push(format!("fmt-la {}{}:{}", if rng.chance(1, 2) { 'p' } else { 'n' }, ['l', 'w', 'r'][k], cps(&rand_body(&mut rng, k))));
            }
            1 | 2 => {
                let name = rng.pick(&["N0", "N1", "S", "Alias", "T"]).to_string();
                out.push(format!("fmt-n {} {} {} {} {} {} {}", cps(&name), attr, enc_opt(&member), enc_opt(&utype), pl(&udefs), pl(&ntdefs), enc_opt(&ttype)));
            }
            _ => {
                let k = rng.below(3);
                let nn = rng.range(1, 4);
                let names: Vec<String> = names_pool[..nn].iter().map(|s| s.to_string()).collect();
                let mut states: Vec<usize> = (0..nn).filter(|_| rng.chance(1, 2)).collect();
                if states.is_empty() || rng.chance(1, 3) {
                    states = vec![0];
                }
                out.push(format!(
                    "fmt-t {} {} {} {} {} {} {} {} {} {} {}",
                    ['l', 'w', 'r'][k],
                    cps(&rand_body(&mut rng, k)),
                    attr,
                    rand_la(&mut rng),
                    enc_opt(&member),
                    enc_opt(&utype),
                    show_nats(&states),
                    names.iter().map(|s| cps(s)).collect::<Vec<_>>().join(";"),
                    pl(&udefs),
                    pl(&ntdefs),
                    enc_opt(&ttype)
                ));
            }
        }
    }
    out
}

// ------------------------------------------------------------------------------------------------
// dump of parol.par's token regexes

/// `token r"…" => n; // "Name"` lines of the `scanner!` block: (n, name, regex text)
pub fn scanner_tokens(src: &str) -> Vec<(usize, String, String)> {
    let mut v = vec![];
    let mut inside = false;
    for line in src.lines() {
        let l = line.trim();
        if l.starts_with("scanner!") {
            inside = true;
            continue;
        }
        if !inside || !l.starts_with("token ") {
            continue;
        }
        let rest = l["token ".len()..].trim_start();
        // raw string literal r"…" or r#"…"#
        let Some(r) = rest.strip_prefix('r') else { continue };
        let hashes = r.chars().take_while(|c| *c == '#').count();
        let open = format!("{}\"", "#".repeat(hashes));
        let close = format!("\"{}", "#".repeat(hashes));
        let Some(body) = r.strip_prefix(open.as_str()) else { continue };
        let Some(end) = body.find(&format!("{close} =>")) else { continue };
        let rx = &body[..end];
        let tail = &body[end + close.len()..];
        let Some(tail) = tail.trim_start().strip_prefix("=>") else { continue };
        let (num, cmt) = tail.split_once(';').unwrap_or((tail, ""));
        let Ok(n) = num.trim().parse::<usize>() else { continue };
        let name = cmt.trim().trim_start_matches("//").trim().trim_matches('"').to_string();
        v.push((n, name, rx.to_string()));
    }
    v
}

pub fn dump(path: &str) -> Result<String, String> {
    let root = repo_root();
    let src = std::fs::read_to_string(format!("{root}/crates/parol/src/parser/parol_parser.rs")).map_err(|e| e.to_string())?;
    let toks = scanner_tokens(&src);
    if toks.is_empty() {
        return Err("no scanner! block found".into());
    }
    let mut o = String::new();
    o.push_str("import ParolModel.Model.Regex\n");
    o.push_str("/-! GENERATED by `pv c25 dump` from crates/parol/src/parser/parol_parser.rs (the `scanner!` block parol\n");
    o.push_str("generated from parser/parol.par) — do not edit. Token regexes of the PAR lexer as text and as `Re`\n");
    o.push_str("(parsed with regex-syntax, lowered by harness/src/relower.rs), in declaration order. -/\n");
    o.push_str("namespace ParolModel.Par.Generated\nopen ParolModel\n\n");
    o.push_str("/-- (token number, terminal name, regex text) -/\n");
    o.push_str("def parTokenTexts : List (Nat × String × String) := [\n");
    for (i, (n, name, rx)) in toks.iter().enumerate() {
        o.push_str(&format!("  ({n}, {}, {}){}\n", lean_str(name), lean_str(rx), if i + 1 < toks.len() { "," } else { "" }));
    }
    o.push_str("]\n\n");
    let mut names = vec![];
    for (n, name, rx) in &toks {
        let re = lower_str(rx).map_err(|e| format!("token {n} ({name}): {e}"))?;
        o.push_str(&format!("def re{n} : Re := {}\n", re.lean()));
        names.push((*n, name.clone()));
    }
    o.push_str("\n/-- the scanner mode of the PAR lexer: all terminals in declaration order, no lookahead -/\n");
    o.push_str("def parTerms : List ScanTerm := [\n");
    for (i, (n, _)) in names.iter().enumerate() {
        o.push_str(&format!("  ⟨re{n}, {n}, none⟩{}\n", if i + 1 < names.len() { "," } else { "" }));
    }
    o.push_str("]\n\n");
    let find = |want: &str| names.iter().find(|(_, nm)| nm == want).map(|(n, _)| *n);
    for (lean_name, tname) in [
        ("lineCommentTok", "LineComment"),
        ("blockCommentTok", "BlockComment"),
        ("stringTok", "String"),
        ("rawStringTok", "RawString"),
        ("regexTok", "Regex"),
    ] {
        let n = find(tname).ok_or(format!("terminal {tname} not found"))?;
        o.push_str(&format!("def {lean_name} : Nat := {n}\n"));
    }
    o.push_str("\nend ParolModel.Par.Generated\n");
    let old = std::fs::read_to_string(path).unwrap_or_default();
    if old != o {
        let mut f = std::fs::File::create(path).map_err(|e| e.to_string())?;
        f.write_all(o.as_bytes()).map_err(|e| e.to_string())?;
        Ok(format!("rewritten ({} tokens)", toks.len()))
    } else {
        Ok(format!("unchanged ({} tokens)", toks.len()))
    }
}

pub fn cli(args: &[String]) {
    match args.first().map(|s| s.as_str()) {
        Some("dump") if args.len() == 2 => match dump(&args[1]) {
            Ok(s) => println!("{s}"),
            Err(e) => {
                eprintln!("dump failed: {e}");
                std::process::exit(1);
            }
        },
        Some("genrt") => {
            std::panic::set_hook(Box::new(|_| {}));
            let seed: u64 = args.get(1).and_then(|s| s.parse().ok()).unwrap_or(0);
            let thorough = args.get(2).map(|s| s == "thorough").unwrap_or(false);
            let mut s = String::new();
            for c in generate_rt(seed, thorough) {
                s.push_str("@@ ");
                s.push_str(&c);
                s.push('\n');
            }
            std::io::stdout().write_all(s.as_bytes()).unwrap();
        }
        // `pv c25 show <file.par>`: the rendered text and both dumps of one document (experiments)
        Some("show") if args.len() == 2 => {
            let par = std::fs::read_to_string(&args[1]).expect("file");
            for op in ["rt", "rtx"] {
                let r = run_case(&[op, &hex(&par)]).unwrap_or("bad-op".into());
                let w: Vec<&str> = r.split(' ').collect();
                println!("== {op}");
                if w.len() == 3 {
                    println!("A {}\nB {}\n--- rendered ---\n{}", w[0], w[1], unhex(w[2]).unwrap_or_default());
                } else {
                    println!("{r}");
                }
            }
            if let Err(e) = obtain_grammar_config_from_string(&par, false) {
                println!("parse error: {}", format!("{e:?}").split("Stack backtrace").next().unwrap_or("").chars().rev().take(700).collect::<String>().chars().rev().collect::<String>());
            }
            if let Ok(gc) = obtain_grammar_config_from_string(&par, false) {
                if let Ok(r) = render_par_string(&gc, false) {
                    if let Err(e) = obtain_grammar_config_from_string(&r, false) {
                        println!("reparse error: {e:?}");
                    }
                }
            }
        }
        Some("gen") => crate::util::standard_cli(args, generate, run_case),
        Some("run") => run_lines(run_case),
        _ => {
            eprintln!("usage: gen|genrt <seed> <quick|thorough> | run | dump <file> | show <file.par>");
            std::process::exit(2);
        }
    }
}
