//! C14: one case stream with the token-stream cases of `c14` and the styled LL/LR runs of `prun`.
use crate::util::*;

pub fn run_case(w: &[&str]) -> Option<String> {
    match w.first() {
        Some(&"toks14") => crate::c14::run_case(w),
        _ => crate::prun::run_case(w),
    }
}

pub fn generate(seed: u64, thorough: bool) -> Vec<String> {
    let mut v = crate::c14::generate(seed, thorough);
    v.extend(crate::lrrun::generate(seed.wrapping_add(14), thorough, "styled"));
    v
}

pub fn cli(args: &[String]) {
    standard_cli(args, generate, run_case)
}
