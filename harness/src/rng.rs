//! One PRNG (splitmix64) from which every random choice is derived.
#[derive(Clone, Debug)]
pub struct Rng(pub u64);

impl Rng {
    pub fn new(seed: u64) -> Self {
        Rng(seed.wrapping_mul(0x9E3779B97F4A7C15) ^ 0xD1B54A32D192ED03)
    }
    pub fn next(&mut self) -> u64 {
        self.0 = self.0.wrapping_add(0x9E3779B97F4A7C15);
        let mut z = self.0;
        z = (z ^ (z >> 30)).wrapping_mul(0xBF58476D1CE4E5B9);
        z = (z ^ (z >> 27)).wrapping_mul(0x94D049BB133111EB);
        z ^ (z >> 31)
    }
    /// uniform in 0..n (n > 0)
    pub fn below(&mut self, n: usize) -> usize {
        (self.next() % (n as u64)) as usize
    }
    pub fn range(&mut self, lo: usize, hi_incl: usize) -> usize {
        lo + self.below(hi_incl - lo + 1)
    }
    pub fn chance(&mut self, num: usize, den: usize) -> bool {
        self.below(den) < num
    }
    pub fn pick<'a, T>(&mut self, xs: &'a [T]) -> &'a T {
        &xs[self.below(xs.len())]
    }
}
