//! C23: the typed AST delivered to the user mirrors the input.
//!
//! The generated adapter (`…GrammarAuto`) is Rust source; it only runs after rustc. Per grammar the
//! harness writes a crate into `work/C23/g<hash>/` (generated parser + generated trait file produced
//! in-process by the real generators as in `c33::generate_sources`, a `gr.rs` whose user struct
//! implements *every* function of the generated `GrTrait` by recording `(non-terminal,
//! format!("{:?}", arg))`, and a `main` that parses one input per stdin line and prints the recorded
//! calls), builds it with `cargo build --offline` against the repository's `parol_runtime` (one shared
//! target directory `work/C23/target`, so the runtime is compiled once) and runs it.
//!
//! Case line (the same line goes to the implementation and to the Lean model):
//!   `adapter <ll|lr> <start> <userStart> <userNts> <prods> <trace> <sigtoks> <par> <input>`
//! * `<prods>`: the expanded grammar `cfg.pr` with symbol and production attributes, numeric
//!   (`lhs:sym,sym@k;…`, sym = `t<i>` | `n<i>` + `^` clipped | `*` RepetitionAnchor | `?` Option);
//! * `<trace>`: the post-order action trace `(production, children)` of the REAL parser for `<input>`,
//!   obtained in-process with `dynparse` at generation time (token id = byte offset of the token);
//! * `<sigtoks>`: the significant tokens the real `TokenStream` delivers (`offset/type,…`);
//! * `<par>`, `<input>`: grammar text and input text (`c33::enc`), used by the implementation side only.
//! Reply: `ok <calls>` — the user-action calls in order, `nt=ast;…`, ast in the canonical text of
//! `Model/Adapter.lean::showAst` (the Debug dump parsed: tokens by offset, structs, enum variants
//! with their production number, vectors, `Some`/`None`).
use crate::c33::{dec, enc, generate_sources};
use crate::dynparse::{self, Built, Child, Opts};
use crate::rng::Rng;
use crate::util::*;
use parol::grammar::ProductionAttribute;
use parol::{Symbol, SymbolAttribute, Terminal};
use std::collections::BTreeMap;
use std::io::Write;
use std::path::{Path, PathBuf};
use std::process::{Command, Stdio};

// ------------------------------------------------------------------------------------------------
// EBNF grammars with AST control

#[derive(Clone, Debug)]
pub enum E {
    /// terminal word index, clipped, member name
    T(usize, bool, Option<String>),
    /// non-terminal index, clipped, member name
    N(usize, bool, Option<String>),
    G(Vec<Vec<E>>),
    O(Vec<Vec<E>>),
    R(Vec<Vec<E>>),
}

#[derive(Clone, Debug)]
pub struct Gram {
    pub lalr: bool,
    pub start: usize,
    pub names: Vec<String>,
    pub prods: Vec<(usize, Vec<Vec<E>>)>,
}

/// terminal word `i`: a, b, …, z, ba, bb, … (letters only, so every word is one token and no word is
/// a keyword of the generated Rust code: member names are derived from terminal *names*, not texts)
pub fn word(i: usize) -> String {
    let mut n = i;
    let mut s = vec![];
    loop {
        s.push((b'a' + (n % 26) as u8) as char);
        n /= 26;
        if n == 0 {
            break;
        }
    }
    s.iter().rev().collect()
}

fn ast_ctl(clip: bool, member: &Option<String>) -> String {
    if clip {
        "^".to_string()
    } else if let Some(m) = member {
        format!("@{m}")
    } else {
        String::new()
    }
}

fn show_alts(g: &Gram, alts: &[Vec<E>]) -> String {
    alts.iter()
        .map(|a| a.iter().map(|e| show_e(g, e)).collect::<Vec<_>>().join(" "))
        .collect::<Vec<_>>()
        .join(" | ")
}

fn show_e(g: &Gram, e: &E) -> String {
    match e {
        E::T(t, c, m) => format!("\"{}\"{}", word(*t), ast_ctl(*c, m)),
        E::N(n, c, m) => format!("{}{}", g.names[*n], ast_ctl(*c, m)),
        E::G(a) => format!("( {} )", show_alts(g, a)),
        E::O(a) => format!("[ {} ]", show_alts(g, a)),
        E::R(a) => format!("{{ {} }}", show_alts(g, a)),
    }
}

pub fn par_text(g: &Gram) -> String {
    let mut s = format!("%start {}\n%title \"g\"\n%comment \"c\"\n", g.names[g.start]);
    if g.lalr {
        s.push_str("%grammar_type 'LALR(1)'\n");
    }
    s.push_str("%%\n");
    for (l, alts) in &g.prods {
        s.push_str(&format!("{}: {};\n", g.names[*l], show_alts(g, alts)));
    }
    s
}

// ---- sentences

fn min_len_alts(alts: &[Vec<E>], ml: &[usize]) -> usize {
    alts.iter().map(|a| a.iter().map(|e| min_len_e(e, ml)).fold(0usize, |x, y| x.saturating_add(y))).min().unwrap_or(0)
}

fn min_len_e(e: &E, ml: &[usize]) -> usize {
    match e {
        E::T(..) => 1,
        E::N(n, ..) => ml[*n],
        E::G(a) => min_len_alts(a, ml),
        E::O(_) | E::R(_) => 0,
    }
}

fn min_lens(g: &Gram) -> Vec<usize> {
    let big = usize::MAX / 4;
    let mut ml = vec![big; g.names.len()];
    for _ in 0..g.names.len() + 2 {
        for (l, alts) in &g.prods {
            let v = min_len_alts(alts, &ml).min(big);
            if v < ml[*l] {
                ml[*l] = v;
            }
        }
    }
    ml
}

struct SentGen<'a> {
    g: &'a Gram,
    ml: Vec<usize>,
    budget: usize,
    out: Vec<usize>,
}

impl SentGen<'_> {
    fn alts(&mut self, alts: &[Vec<E>], rng: &mut Rng, depth: usize) {
        let tight = depth > 6 || self.out.len() > self.budget;
        let pick = if tight {
            let ml = &self.ml;
            alts.iter()
                .min_by_key(|a| a.iter().map(|e| min_len_e(e, ml)).fold(0usize, |x, y| x.saturating_add(y)))
                .unwrap()
        } else {
            &alts[rng.below(alts.len())]
        };
        let pick = pick.clone();
        for e in &pick {
            self.e(e, rng, depth);
        }
    }
    fn e(&mut self, e: &E, rng: &mut Rng, depth: usize) {
        let tight = depth > 6 || self.out.len() > self.budget;
        match e {
            E::T(t, ..) => self.out.push(*t),
            E::N(n, ..) => {
                let alts: Vec<Vec<E>> =
                    self.g.prods.iter().filter(|p| p.0 == *n).flat_map(|p| p.1.clone()).collect();
                self.alts(&alts, rng, depth + 1)
            }
            E::G(a) => self.alts(a, rng, depth + 1),
            E::O(a) => {
                if !tight && rng.chance(1, 2) {
                    self.alts(a, rng, depth + 1)
                }
            }
            E::R(a) => {
                let n = if tight { 0 } else { rng.below(4) };
                for _ in 0..n {
                    self.alts(a, rng, depth + 1)
                }
            }
        }
    }
}

pub fn random_sentence(g: &Gram, rng: &mut Rng, budget: usize) -> Vec<usize> {
    let mut sg = SentGen { g, ml: min_lens(g), budget, out: vec![] };
    sg.e(&E::N(g.start, false, None), rng, 0);
    sg.out
}

pub fn sentence_text(w: &[usize]) -> String {
    w.iter().map(|t| word(*t)).collect::<Vec<_>>().join(" ")
}

// ---- random grammars: every alternative starts with its own guard terminal, so the grammar is
// LL(1) (and nearly always LALR(1)); acceptance by the real pipeline is checked anyway.

struct GGen {
    nnt: usize,
    next_t: usize,
    max_depth: usize,
}

impl GGen {
    fn fresh(&mut self) -> usize {
        self.next_t += 1;
        self.next_t - 1
    }
    fn member(rng: &mut Rng, what: &str, k: usize) -> Option<String> {
        if rng.chance(1, 5) { Some(format!("{what}_m{k}")) } else { None }
    }
    fn factor(&mut self, rng: &mut Rng, depth: usize) -> E {
        if depth < self.max_depth && rng.chance(9, 20) {
            let na = if rng.chance(2, 3) { 1 } else { 2 };
            let alts = self.alts(rng, depth + 1, na);
            match rng.below(5) {
                0 => E::G(alts),
                1 | 2 => E::O(alts),
                _ => E::R(alts),
            }
        } else if rng.chance(1, 2) {
            let t = self.fresh();
            E::T(t, rng.chance(1, 4), Self::member(rng, "t", t))
        } else {
            let n = rng.below(self.nnt);
            E::N(n, rng.chance(1, 6), Self::member(rng, "n", n))
        }
    }
    fn alt(&mut self, rng: &mut Rng, depth: usize) -> Vec<E> {
        let g = self.fresh();
        let mut v = vec![E::T(g, rng.chance(1, 3), Self::member(rng, "g", g))];
        let n = rng.below(4);
        for _ in 0..n {
            v.push(self.factor(rng, depth));
        }
        v
    }
    fn alts(&mut self, rng: &mut Rng, depth: usize, n: usize) -> Vec<Vec<E>> {
        (0..n).map(|_| self.alt(rng, depth)).collect()
    }
}

pub fn random_gram(rng: &mut Rng, lalr: bool) -> Gram {
    let nnt = rng.range(1, 3);
    let mut gg = GGen { nnt: nnt + 1, next_t: 0, max_depth: rng.range(1, 3) };
    let names: Vec<String> = (0..=nnt).map(|i| if i == 0 { "Start".to_string() } else { format!("N{i:02}") }).collect();
    let mut prods = vec![];
    // the start symbol is used on no right-hand side (see `startIsolated`): non-terminal 0 is never picked
    for l in 0..=nnt {
        let n = match rng.below(4) {
            0 | 1 => 1,
            2 => 2,
            _ => 3,
        };
        let mut alts = gg.alts(rng, 0, n);
        // a non-terminal other than the start symbol gets a non-recursive first alternative
        if l > 0 {
            let g = gg.fresh();
            alts.insert(0, vec![E::T(g, false, None)]);
        }
        prods.push((l, alts));
    }
    // never reference the start symbol: shift picked non-terminals into 1..=nnt
    fn shift(alts: &mut Vec<Vec<E>>, nnt: usize) {
        for a in alts {
            for e in a {
                match e {
                    E::N(n, ..) => *n = 1 + (*n % nnt),
                    E::G(x) | E::O(x) | E::R(x) => shift(x, nnt),
                    _ => {}
                }
            }
        }
    }
    for p in &mut prods {
        shift(&mut p.1, nnt);
    }
    // every non-terminal must be reachable: the start production's first alternative ends with all of them
    for n in 1..=nnt {
        prods[0].1[0].push(E::N(n, false, None));
    }
    Gram { lalr, start: 0, names, prods }
}

/// Hand-picked grammars: (PAR body after `%%`, lalr, sentences as words).
pub fn hand_picked() -> Vec<(&'static str, bool, Vec<&'static str>)> {
    vec![
        (
            "S: \"a\" { \"b\" } [ \"c\" ];",
            false,
            vec!["a", "a b", "a b b b", "a c", "a b b c"],
        ),
        (
            "S: \"a\" { \"b\" } [ \"c\" ];",
            true,
            vec!["a", "a b", "a b b b", "a c", "a b b c"],
        ),
        (
            "S: A^ \"a\"@first { \"b\" [ \"c\"^ ] B } [ \"d\" ] ;\nA: \"x\" ;\nB: \"y\" | \"z\" A { \"w\"^ \"v\" } ;",
            false,
            vec!["x a", "x a d", "x a b y", "x a b c y b z x d", "x a b z x w v w v b c y", "x a b y b y b y d"],
        ),
        (
            "S: A^ \"a\"@first { \"b\" [ \"c\"^ ] B } [ \"d\" ] ;\nA: \"x\" ;\nB: \"y\" | \"z\" A { \"w\"^ \"v\" } ;",
            true,
            vec!["x a", "x a d", "x a b y", "x a b c y b z x d", "x a b z x w v w v b c y", "x a b y b y b y d"],
        ),
        (
            "S: { \"a\" { \"b\" [ \"c\" ] } \"d\"^ } ( \"e\" | \"f\"^ \"g\" ) { ( \"h\" | \"i\" \"j\" ) } ;",
            false,
            vec!["e", "f g", "a d e", "a b b c b d a d f g h i j h", "a b c b c d e i j"],
        ),
        (
            "S: { \"a\" { \"b\" [ \"c\" ] } \"d\"^ } ( \"e\" | \"f\"^ \"g\" ) { ( \"h\" | \"i\" \"j\" ) } ;",
            true,
            vec!["e", "f g", "a d e", "a b b c b d a d f g h i j h", "a b c b c d e i j"],
        ),
        (
            "S: E ;\nE: E \"p\"^ T | T ;\nT: T \"m\" F@right | F ;\nF: \"n\" | \"l\"^ E \"r\"^ ;",
            true,
            vec!["n", "n p n", "n p n m n", "l n p n r m n", "l l n r r", "n m n m n p n"],
        ),
        (
            "S: L ;\nL: \"o\"^ [ I { \"k\"^ I } ] \"q\"^ ;\nI: \"n\" | L ;",
            false,
            vec!["o q", "o n q", "o n k n k n q", "o o q k n k o n q q"],
        ),
        (
            "S: \"a\" | \"b\" S2 | \"c\"^ ;\nS2: { \"d\" } ;",
            true,
            vec!["a", "b", "b d d", "c"],
        ),
        (
            "S: [ \"a\"^ ] [ [ \"b\" ] \"c\" ] { { \"d\"^ } \"e\" } ;",
            false,
            vec!["", "a", "c", "b c", "a b c d e e d d e", "e"],
        ),
    ]
}

// ------------------------------------------------------------------------------------------------
// numeric encoding of the expanded grammar and of the real parser's trace

fn sattr(a: &SymbolAttribute) -> &'static str {
    match a {
        SymbolAttribute::None => "",
        SymbolAttribute::Clipped => "^",
        SymbolAttribute::RepetitionAnchor => "*",
        SymbolAttribute::Option => "?",
    }
}

fn pattr(a: &ProductionAttribute) -> &'static str {
    match a {
        ProductionAttribute::None => "",
        ProductionAttribute::CollectionStart => "@1",
        ProductionAttribute::AddToCollection => "@2",
        ProductionAttribute::OptionalSome => "@3",
        ProductionAttribute::OptionalNone => "@4",
    }
}

/// `<ll|lr> <start> <userStart> <userNts> <prods>`; None if the grammar uses something outside the
/// scope of the model (user-defined types, scanner switches inside productions).
pub fn enc_grammar(b: &Built, user_start: &str) -> Option<String> {
    let gc = &b.grammar_config;
    let nt_index = |n: &str| b.nt_names.iter().position(|x| *x == n);
    let mut prods = vec![];
    for (i, pr) in gc.cfg.pr.iter().enumerate() {
        let pj = serde_json::to_value(&b.model.productions[i]).ok()?;
        let rhs_idx = pj["rhs"].as_array()?;
        let syms: Vec<&Symbol> = pr.get_r().iter().filter(|s| s.is_t() || s.is_n()).collect();
        if syms.len() != rhs_idx.len() || syms.len() != pr.get_r().len() {
            return None;
        }
        let mut rhs = vec![];
        for (s, j) in syms.iter().zip(rhs_idx) {
            match s {
                Symbol::N(n, a, None, _) => {
                    let idx = nt_index(n)?;
                    if j.get("NonTerminal")?.as_u64()? as usize != idx {
                        return None;
                    }
                    rhs.push(format!("n{idx}{}", sattr(a)));
                }
                Symbol::T(Terminal::Trm(_, _, _, a, None, _, _)) => {
                    let idx = j.get("Terminal")?.get("index")?.as_u64()?;
                    rhs.push(format!("t{idx}{}", sattr(a)));
                }
                _ => return None,
            }
        }
        prods.push(format!("{}:{}{}", nt_index(pr.get_n_str())?, rhs.join(","), pattr(&pr.2)));
    }
    let mut unts = vec![];
    for n in &gc.non_terminals {
        let i = nt_index(n)?;
        if !unts.contains(&i) {
            unts.push(i);
        }
    }
    Some(format!(
        "{} {} {} {} {}",
        if b.is_ll() { "ll" } else { "lr" },
        b.start,
        nt_index(user_start)?,
        show_nats(&unts),
        if prods.is_empty() { "-".to_string() } else { prods.join(";") }
    ))
}

pub fn enc_trace(b: &Built, actions: &[(usize, Vec<Child>)]) -> Option<String> {
    if actions.is_empty() {
        return Some("-".into());
    }
    let mut out = vec![];
    for (p, ch) in actions {
        let mut items = vec![];
        for c in ch {
            match c {
                Child::T(t) => items.push(format!("t{}/{}", t.start, t.ty)),
                Child::N(n) => items.push(format!("n{}", b.nt_names.iter().position(|x| x == n)?)),
            }
        }
        out.push(format!("{p}({})", items.join(",")));
    }
    Some(out.join(";"))
}

// ------------------------------------------------------------------------------------------------
// the crate per grammar

fn fnv(s: &str) -> u64 {
    let mut h: u64 = 0xcbf29ce484222325;
    for b in s.bytes() {
        h ^= b as u64;
        h = h.wrapping_mul(0x100000001b3);
    }
    h
}

pub fn work_dir() -> PathBuf {
    if let Ok(w) = std::env::var("C23_WORK") {
        return PathBuf::from(w);
    }
    Path::new(env!("CARGO_MANIFEST_DIR")).join("..").join("work").join("C23")
}

/// path of the repository's `parol_runtime`, as the harness itself depends on it
fn runtime_path() -> Option<String> {
    // experiments only (e.g. a mutated runtime to see the tie fail): another parol_runtime checkout
    if let Ok(p) = std::env::var("C23_RUNTIME") {
        return Some(p);
    }
    let toml = std::fs::read_to_string(Path::new(env!("CARGO_MANIFEST_DIR")).join("Cargo.toml")).ok()?;
    for line in toml.lines() {
        if line.trim_start().starts_with("parol_runtime") {
            let i = line.find("path")?;
            let rest = &line[i..];
            let q1 = rest.find('"')?;
            let q2 = rest[q1 + 1..].find('"')?;
            return Some(rest[q1 + 1..q1 + 1 + q2].to_string());
        }
    }
    None
}

/// version requirement of a workspace dependency of the repository (`name = "x.y.z"` in /repo/Cargo.toml)
fn workspace_dep(repo_root: &Path, name: &str) -> Option<String> {
    let toml = std::fs::read_to_string(repo_root.join("Cargo.toml")).ok()?;
    for line in toml.lines() {
        let l = line.trim_start();
        if l.starts_with(name) && l[name.len()..].trim_start().starts_with('=') {
            let q1 = l.find('"')?;
            let q2 = l[q1 + 1..].find('"')?;
            return Some(l[q1 + 1..q1 + 1 + q2].to_string());
        }
    }
    None
}

/// The hand-written user grammar: implements every function of the generated semantic-actions trait
/// (signatures copied from the generated trait text) by recording the Debug dump of its argument.
fn user_grammar_source(user_trait: &str) -> Result<String, String> {
    use crate::c33::Tok as RT;
    struct W(String);
    impl W {
        fn text(&self) -> &str {
            &self.0
        }
    }
    let toks: Vec<W> = crate::c33::tokenize(user_trait)
        .into_iter()
        .filter_map(|t| match t {
            RT::Id(s) | RT::Num(s) | RT::P(s) => Some(W(s)),
            RT::Life(s) => Some(W(format!("'{s}"))),
            RT::Str(s) => Some(W(format!("\"{s}\""))),
            RT::Doc(_) => None,
        })
        .collect();
    // locate `pub trait GrTrait [<'t>] {`
    let mut i = 0;
    let mut start = None;
    while i + 2 < toks.len() {
        if toks[i].text() == "trait" && toks[i + 1].text() == "GrTrait" {
            start = Some(i + 2);
            break;
        }
        i += 1;
    }
    let mut i = start.ok_or("no GrTrait")?;
    let mut generics = String::new();
    while toks[i].text() != "{" {
        generics.push_str(toks[i].text());
        i += 1;
    }
    let has_lt = generics.contains("'t");
    let open = i;
    // functions: fn <name> ( & mut self , <arg> : & <Type…> ) -> Result < ( ) > { Ok ( ( ) ) }
    let mut fns = vec![];
    let mut depth = 0;
    let mut j = open;
    while j < toks.len() {
        match toks[j].text() {
            "{" => depth += 1,
            "}" => {
                depth -= 1;
                if depth == 0 {
                    break;
                }
            }
            "fn" if depth == 1 => {
                let name = toks[j + 1].text().to_string();
                // parameter list
                let mut k = j + 2;
                let mut pd = 0;
                let mut params = vec![];
                loop {
                    let t = toks[k].text();
                    if t == "(" {
                        pd += 1;
                    } else if t == ")" {
                        pd -= 1;
                        if pd == 0 {
                            break;
                        }
                    }
                    params.push(t.to_string());
                    k += 1;
                }
                fns.push((name, params));
                j = k;
            }
            _ => {}
        }
        j += 1;
    }
    let mut s = String::new();
    s.push_str("#![allow(unused_imports)]\n#![allow(clippy::all)]\nuse crate::gr_trait::*;\nuse parol_runtime::{Result, Token};\n\n");
    if has_lt {
        s.push_str("#[derive(Default)]\npub struct Gr<'t> { pub calls: Vec<(&'static str, String)>, phantom: std::marker::PhantomData<&'t str> }\n");
        s.push_str("impl<'t> Gr<'t> { pub fn new() -> Self { Self::default() } }\n");
        s.push_str("impl<'t> GrTrait<'t> for Gr<'t> {\n");
    } else {
        s.push_str("#[derive(Default)]\npub struct Gr { pub calls: Vec<(&'static str, String)> }\n");
        s.push_str("impl Gr { pub fn new() -> Self { Self::default() } }\n");
        s.push_str("impl GrTrait for Gr {\n");
    }
    for (name, params) in &fns {
        if name == "on_comment" {
            continue;
        }
        // params: ( & mut self , _arg : & Type … — rebuild text, renaming the argument
        let mut text = String::new();
        for (n, p) in params.iter().enumerate() {
            if n == 0 {
                continue; // the opening parenthesis
            }
            let p = if p == "_arg" { "arg" } else { p.as_str() };
            let prev_is_word = text.chars().last().map(|c| c.is_alphanumeric() || c == '_').unwrap_or(false);
            let this_is_word = p.chars().next().map(|c| c.is_alphanumeric() || c == '_' || c == '\'').unwrap_or(false);
            if prev_is_word && this_is_word {
                text.push(' ');
            }
            text.push_str(p);
        }
        s.push_str(&format!(
            "    fn {name}({text}) -> Result<()> {{ self.calls.push((\"{name}\", format!(\"{{:?}}\", arg))); Ok(()) }}\n"
        ));
    }
    s.push_str("}\n");
    Ok(s)
}

const MAIN_RS: &str = r#"mod gr;
mod gr_parser;
mod gr_trait;
use std::io::BufRead;

fn unhex(w: &str) -> String {
    let b = w.as_bytes();
    let mut out = vec![];
    let mut i = 0;
    while i + 1 < b.len() {
        out.push(u8::from_str_radix(&w[i..i + 2], 16).unwrap());
        i += 2;
    }
    String::from_utf8(out).unwrap()
}

fn main() {
    let stdin = std::io::stdin();
    for line in stdin.lock().lines() {
        let line = line.unwrap();
        let text = unhex(line.trim());
        let mut g = gr::Gr::new();
        match gr_parser::parse(&text, "input", &mut g) {
            Ok(_) => {
                println!("ok {}", g.calls.len());
                for (n, d) in &g.calls {
                    println!("call {} {}", n, d.replace('\n', " "));
                }
            }
            Err(_) => println!("err"),
        }
        println!("end");
    }
}
"#;

pub struct Crate {
    pub dir: PathBuf,
    pub name: String,
    /// production-type struct name → production number (from the doc comments of the generated file)
    pub prod_types: BTreeMap<String, usize>,
    /// user-action function name → non-terminal name
    pub action_nt: BTreeMap<String, String>,
}

/// `/// Type derived for production <n>` … `pub struct <Name>`
fn production_types(user_trait: &str) -> BTreeMap<String, usize> {
    let mut m = BTreeMap::new();
    let mut pending: Option<usize> = None;
    for line in user_trait.lines() {
        let l = line.trim();
        if let Some(r) = l.strip_prefix("/// Type derived for production ") {
            pending = r.trim().parse().ok();
        } else if let Some(r) = l.strip_prefix("pub struct ") {
            if let Some(p) = pending.take() {
                let name: String = r.chars().take_while(|c| c.is_alphanumeric() || *c == '_').collect();
                m.insert(name, p);
            }
        } else if l.starts_with("/// Type derived for non-terminal") {
            pending = None;
        }
    }
    m
}

/// `/// Semantic action for non-terminal '<Nt>'` … `fn <name>(`
fn action_names(user_trait: &str) -> BTreeMap<String, String> {
    let mut m = BTreeMap::new();
    let mut pending: Option<String> = None;
    for line in user_trait.lines() {
        let l = line.trim();
        if let Some(r) = l.strip_prefix("/// Semantic action for non-terminal '") {
            pending = r.strip_suffix('\'').map(|s| s.to_string());
        } else if let Some(r) = l.strip_prefix("fn ") {
            if let Some(nt) = pending.take() {
                let name: String = r.chars().take_while(|c| c.is_alphanumeric() || *c == '_').collect();
                m.insert(name, nt);
            }
        }
    }
    m
}

fn write_if_changed(p: &Path, s: &str) -> std::io::Result<()> {
    if let Ok(old) = std::fs::read_to_string(p) {
        if old == s {
            return Ok(());
        }
    }
    std::fs::write(p, s)
}

/// Writes (if changed) and builds the crate for one grammar. Err = short reason.
pub fn make_crate(par: &str) -> Result<Crate, String> {
    let src = generate_sources(par).map_err(|e| format!("generate-{e}"))?;
    let rt = runtime_path().ok_or("no-runtime-path")?;
    let repo_root = Path::new(&rt).join("..").join("..");
    let scnr2 = workspace_dep(&repo_root, "scnr2").unwrap_or_else(|| "0.5".into());
    let name = format!("c23_g{:016x}", fnv(&format!("{}\u{0}{}\u{0}{}", par, src.parser, src.user_trait)));
    let work = work_dir();
    let dir = work.join(&name);
    std::fs::create_dir_all(dir.join("src")).map_err(|e| e.to_string())?;
    let cargo = format!(
        "[package]\nname = \"{name}\"\nversion = \"0.0.0\"\nedition = \"2024\"\n\n[workspace]\n\n[dependencies]\nparol_runtime = {{ path = \"{rt}\", default-features = false }}\nscnr2 = \"{scnr2}\"\n\n[profile.dev]\nopt-level = 0\ndebug = false\nincremental = false\n"
    );
    let gr = user_grammar_source(&src.user_trait)?;
    let io = |e: std::io::Error| e.to_string();
    write_if_changed(&dir.join("Cargo.toml"), &cargo).map_err(io)?;
    write_if_changed(&dir.join("src").join("main.rs"), MAIN_RS).map_err(io)?;
    write_if_changed(&dir.join("src").join("gr.rs"), &gr).map_err(io)?;
    write_if_changed(&dir.join("src").join("gr_parser.rs"), &src.parser).map_err(io)?;
    write_if_changed(&dir.join("src").join("gr_trait.rs"), &src.user_trait).map_err(io)?;
    write_if_changed(&dir.join("grammar.par"), par).map_err(io)?;
    let lock = dir.join("Cargo.lock");
    if !lock.exists() {
        std::fs::copy(repo_root.join("Cargo.lock"), &lock).map_err(io)?;
    }
    let out = Command::new("cargo")
        .args(["build", "--offline", "--quiet"])
        .current_dir(&dir)
        .env("CARGO_TARGET_DIR", work.join("target"))
        .env("CARGO_NET_OFFLINE", "true")
        .env_remove("RUSTFLAGS")
        .env_remove("CARGO_ENCODED_RUSTFLAGS")
        .output()
        .map_err(|e| format!("cargo: {e}"))?;
    if !out.status.success() {
        let _ = std::fs::write(dir.join("build.log"), &out.stderr);
        return Err("rustc-rejects-generated-code".into());
    }
    Ok(Crate {
        dir,
        name,
        prod_types: production_types(&src.user_trait),
        action_nt: action_names(&src.user_trait),
    })
}

fn hex(s: &str) -> String {
    s.bytes().map(|b| format!("{b:02x}")).collect()
}

/// Runs the built binary on the inputs; per input: None (parse error) or the recorded calls.
pub fn run_crate(c: &Crate, inputs: &[String]) -> Result<Vec<Option<Vec<(String, String)>>>, String> {
    let bin = work_dir().join("target").join("debug").join(&c.name);
    let mut child = Command::new(&bin)
        .stdin(Stdio::piped())
        .stdout(Stdio::piped())
        .stderr(Stdio::null())
        .spawn()
        .map_err(|e| format!("spawn: {e}"))?;
    {
        let mut si = child.stdin.take().ok_or("stdin")?;
        for i in inputs {
            writeln!(si, "{}", hex(i)).map_err(|e| e.to_string())?;
        }
    }
    let out = child.wait_with_output().map_err(|e| e.to_string())?;
    let text = String::from_utf8_lossy(&out.stdout);
    let mut res = vec![];
    let mut cur: Option<Vec<(String, String)>> = None;
    let mut is_err = false;
    for line in text.lines() {
        if line.starts_with("ok ") {
            cur = Some(vec![]);
            is_err = false;
        } else if line == "err" {
            is_err = true;
            cur = None;
        } else if let Some(r) = line.strip_prefix("call ") {
            let (n, d) = r.split_once(' ').ok_or("call line")?;
            if let Some(c) = cur.as_mut() {
                c.push((n.to_string(), d.to_string()));
            }
        } else if line == "end" {
            res.push(if is_err { None } else { cur.take() });
            is_err = false;
        }
    }
    if res.len() != inputs.len() {
        return Err(format!("binary answered {} of {} inputs", res.len(), inputs.len()));
    }
    Ok(res)
}

// ------------------------------------------------------------------------------------------------
// Debug dump → canonical AST text

#[derive(Debug, Clone)]
pub enum Dbg {
    /// `Name { f: v, … }` / `Name` (no fields)
    Struct(String, Vec<(String, Dbg)>),
    /// `Name(v, …)`
    Tuple(String, Vec<Dbg>),
    List(Vec<Dbg>),
    Str(String),
    Num(String),
}

struct DP<'a> {
    s: &'a [u8],
    i: usize,
}

impl DP<'_> {
    fn ws(&mut self) {
        while self.i < self.s.len() && (self.s[self.i] as char).is_whitespace() {
            self.i += 1;
        }
    }
    fn peek(&mut self) -> Option<u8> {
        self.ws();
        self.s.get(self.i).copied()
    }
    fn eat(&mut self, c: u8) -> Option<()> {
        if self.peek()? == c {
            self.i += 1;
            Some(())
        } else {
            None
        }
    }
    fn ident(&mut self) -> Option<String> {
        self.ws();
        let st = self.i;
        while self.i < self.s.len() && ((self.s[self.i] as char).is_ascii_alphanumeric() || self.s[self.i] == b'_') {
            self.i += 1;
        }
        if st == self.i { None } else { Some(String::from_utf8_lossy(&self.s[st..self.i]).to_string()) }
    }
    fn value(&mut self) -> Option<Dbg> {
        let c = self.peek()?;
        if c == b'"' {
            self.i += 1;
            let mut out = vec![];
            loop {
                let c = *self.s.get(self.i)?;
                self.i += 1;
                match c {
                    b'"' => break,
                    b'\\' => {
                        let d = *self.s.get(self.i)?;
                        self.i += 1;
                        out.push(b'\\');
                        out.push(d);
                    }
                    _ => out.push(c),
                }
            }
            return Some(Dbg::Str(String::from_utf8_lossy(&out).to_string()));
        }
        if c == b'[' {
            self.i += 1;
            let mut v = vec![];
            loop {
                if self.peek()? == b']' {
                    self.i += 1;
                    break;
                }
                v.push(self.value()?);
                if self.peek()? == b',' {
                    self.i += 1;
                }
            }
            return Some(Dbg::List(v));
        }
        if c.is_ascii_digit() || c == b'-' {
            let st = self.i;
            self.i += 1;
            while self.i < self.s.len() && (self.s[self.i].is_ascii_alphanumeric() || self.s[self.i] == b'.' || self.s[self.i] == b'_') {
                self.i += 1;
            }
            return Some(Dbg::Num(String::from_utf8_lossy(&self.s[st..self.i]).to_string()));
        }
        let name = self.ident()?;
        match self.peek() {
            Some(b'{') => {
                self.i += 1;
                let mut fs = vec![];
                loop {
                    if self.peek()? == b'}' {
                        self.i += 1;
                        break;
                    }
                    let f = self.ident()?;
                    self.eat(b':')?;
                    let v = self.value()?;
                    fs.push((f, v));
                    if self.peek()? == b',' {
                        self.i += 1;
                    }
                }
                Some(Dbg::Struct(name, fs))
            }
            Some(b'(') => {
                self.i += 1;
                let mut v = vec![];
                loop {
                    if self.peek()? == b')' {
                        self.i += 1;
                        break;
                    }
                    v.push(self.value()?);
                    if self.peek()? == b',' {
                        self.i += 1;
                    }
                }
                Some(Dbg::Tuple(name, v))
            }
            _ => Some(Dbg::Struct(name, vec![])),
        }
    }
}

pub fn parse_debug(s: &str) -> Option<Dbg> {
    let mut p = DP { s: s.as_bytes(), i: 0 };
    let v = p.value()?;
    p.ws();
    if p.i == s.len() { Some(v) } else { None }
}

/// Canonical AST text of a Debug dump of a generated AST type.
pub fn canon(d: &Dbg, prod_types: &BTreeMap<String, usize>) -> Option<String> {
    match d {
        Dbg::Struct(n, fs) if n == "Token" => {
            let loc = fs.iter().find(|f| f.0 == "location")?;
            if let Dbg::Struct(_, lf) = &loc.1 {
                if let Dbg::Num(s) = &lf.iter().find(|f| f.0 == "start")?.1 {
                    return Some(format!("t{s}"));
                }
            }
            None
        }
        Dbg::Struct(n, fs) if n == "None" && fs.is_empty() => Some("N".into()),
        Dbg::Struct(_, fs) => {
            let ms: Option<Vec<String>> = fs.iter().map(|f| canon(&f.1, prod_types)).collect();
            Some(format!("{{{}}}", ms?.join(",")))
        }
        Dbg::Tuple(n, v) if n == "Some" && v.len() == 1 => Some(format!("S({})", canon(&v[0], prod_types)?)),
        // enum variant of a non-terminal type: `Variant(ProductionType { … })`
        Dbg::Tuple(_, v) if v.len() == 1 => {
            if let Dbg::Struct(pn, _) = &v[0] {
                let p = prod_types.get(pn)?;
                Some(format!("v{p}{}", canon(&v[0], prod_types)?))
            } else {
                None
            }
        }
        Dbg::List(v) => {
            let ms: Option<Vec<String>> = v.iter().map(|x| canon(x, prod_types)).collect();
            Some(format!("[{}]", ms?.join(",")))
        }
        _ => None,
    }
}

// ------------------------------------------------------------------------------------------------
// protocol

fn build_dyn(par: &str) -> Option<Built> {
    dynparse::build(par, 5).ok()
}

/// The case line for one (grammar, input) pair; None if the real parser does not accept the input
/// or the grammar is outside the model's scope.
pub fn case_line(b: &Built, par: &str, user_start: &str, input: &str) -> Option<String> {
    let g = enc_grammar(b, user_start)?;
    let r = b.run(input, &Opts { trim: false, recovery: false, max_depth: None });
    if r.result != "ok" {
        return None;
    }
    let tr = enc_trace(b, &r.actions)?;
    let k = match &b.tables {
        dynparse::Tables::LL { max_k, .. } => *max_k,
        _ => 1,
    };
    let toks = b.tokens(input, k.max(1)).ok()?;
    let sig: Vec<String> = toks.iter().filter(|t| !t.1).map(|t| format!("{}/{}", t.0.start, t.0.ty)).collect();
    Some(format!(
        "adapter {g} {tr} {} {} {}",
        if sig.is_empty() { "-".to_string() } else { sig.join(",") },
        enc(par),
        enc(input)
    ))
}

fn original_start(par: &str) -> Option<String> {
    parol::obtain_grammar_config_from_string(par, false).ok().map(|gc| gc.cfg.st.clone())
}

thread_local! {
    static CRATES: std::cell::RefCell<BTreeMap<String, Result<std::rc::Rc<Crate>, String>>> = const { std::cell::RefCell::new(BTreeMap::new()) };
}

fn crate_for(par: &str) -> Result<std::rc::Rc<Crate>, String> {
    CRATES.with(|c| {
        let mut c = c.borrow_mut();
        if let Some(r) = c.get(par) {
            return r.clone();
        }
        let r = make_crate(par).map(std::rc::Rc::new);
        c.insert(par.to_string(), r.clone());
        r
    })
}

pub fn run_case(w: &[&str]) -> Option<String> {
    match w {
        ["adapter", _ty, _st, _ust, _unts, _prods, _trace, _sig, par, input] => {
            let par = dec(par)?;
            let input = dec(input)?;
            let b = build_dyn(&par)?;
            let c = match crate_for(&par) {
                Ok(c) => c,
                Err(e) => return Some(format!("build-failed {e}")),
            };
            let res = match run_crate(&c, std::slice::from_ref(&input)) {
                Ok(r) => r,
                Err(e) => return Some(format!("run-failed {}", e.replace(' ', "_"))),
            };
            match &res[0] {
                None => Some("err".into()),
                Some(calls) => {
                    let mut out = vec![];
                    for (f, d) in calls {
                        let nt = c.action_nt.get(f)?;
                        let idx = b.nt_names.iter().position(|x| x == nt)?;
                        let v = match parse_debug(d).and_then(|d| canon(&d, &c.prod_types)) {
                            Some(v) => v,
                            None => return Some("dump-unreadable".into()),
                        };
                        out.push(format!("{idx}={v}"));
                    }
                    Some(format!("ok {}", if out.is_empty() { "-".to_string() } else { out.join(";") }))
                }
            }
        }
        _ => None,
    }
}

fn full_par(body: &str, lalr: bool) -> String {
    format!(
        "%start S\n%title \"g\"\n%comment \"c\"\n{}%%\n{}\n",
        if lalr { "%grammar_type 'LALR(1)'\n" } else { "" },
        body
    )
}

pub fn generate(seed: u64, thorough: bool) -> Vec<String> {
    let mut rng = Rng::new(seed ^ 0xC23);
    let mut out = vec![];
    let (n_hand, n_rand, n_sent) = if thorough { (10, 30, 12) } else { (3, 3, 8) };
    let hp = hand_picked();
    // quick: a rotating window of the hand-picked grammars (deterministic in the seed)
    let off = if thorough { 0 } else { (seed as usize * 3) % hp.len() };
    for i in 0..n_hand.min(hp.len()) {
        let (body, lalr, sents) = &hp[(off + i) % hp.len()];
        let par = full_par(body, *lalr);
        let Some(b) = build_dyn(&par) else { continue };
        let Some(st) = original_start(&par) else { continue };
        for s in sents {
            if let Some(l) = case_line(&b, &par, &st, s) {
                out.push(l);
            }
        }
    }
    let mut made = 0;
    let mut tries = 0;
    while made < n_rand && tries < n_rand * 40 {
        tries += 1;
        let g = random_gram(&mut rng, tries % 2 == 0);
        let par = par_text(&g);
        if par.len() > 1500 {
            continue;
        }
        let Some(b) = build_dyn(&par) else { continue };
        if b.lr_conflicts > 0 {
            continue;
        }
        let Some(st) = original_start(&par) else { continue };
        let mut lines = vec![];
        let mut seen = std::collections::BTreeSet::new();
        for k in 0..n_sent * 3 {
            if lines.len() >= n_sent {
                break;
            }
            let w = random_sentence(&g, &mut rng, 6 + 3 * (k % 8));
            if w.len() > 60 {
                continue;
            }
            let text = sentence_text(&w);
            if !seen.insert(text.clone()) {
                continue;
            }
            if let Some(l) = case_line(&b, &par, &st, &text) {
                lines.push(l);
            }
        }
        if lines.len() >= 2 {
            made += 1;
            out.extend(lines);
        }
    }
    out
}

pub fn cli(args: &[String]) {
    match args.first().map(|s| s.as_str()) {
        // debugging aid: `pv c23 crate <file.par> [input…]` builds the crate and prints the raw calls
        Some("crate") => {
            let par = std::fs::read_to_string(&args[1]).expect("par file");
            match make_crate(&par) {
                Err(e) => println!("build-failed {e}"),
                Ok(c) => {
                    println!("crate {}", c.dir.display());
                    let inputs: Vec<String> = args[2..].to_vec();
                    match run_crate(&c, &inputs) {
                        Err(e) => println!("run-failed {e}"),
                        Ok(r) => {
                            for (i, x) in r.iter().enumerate() {
                                println!("input {:?}", inputs[i]);
                                match x {
                                    None => println!("  err"),
                                    Some(calls) => {
                                        for (f, d) in calls {
                                            println!("  {f} {d}");
                                            println!("    = {:?}", parse_debug(d).and_then(|d| canon(&d, &c.prod_types)));
                                        }
                                    }
                                }
                            }
                        }
                    }
                    if let (Some(b), Some(st)) = (build_dyn(&par), original_start(&par)) {
                        for i in &inputs {
                            println!("{:?}", case_line(&b, &par, &st, i));
                        }
                    }
                }
            }
        }
        // the recursive-start witnesses of finding F28 (case lines)
        Some("witness") => {
            std::panic::set_hook(Box::new(|_| {}));
            for l in witnesses() {
                println!("@@ {l}");
            }
        }
        _ => standard_cli(args, generate, run_case),
    }
}

/// Grammars whose start symbol is recursive: the start action is called once per application.
pub fn witnesses() -> Vec<String> {
    let mut out = vec![];
    for (body, lalr, sents) in [
        ("S: \"a\" [ S ];", false, vec!["a a", "a a a"]),
        ("S: S \"a\" | \"b\";", true, vec!["b a"]),
    ] {
        let par = full_par(body, lalr);
        let (Some(b), Some(st)) = (build_dyn(&par), original_start(&par)) else { continue };
        for s in sents {
            if let Some(l) = case_line(&b, &par, &st, s) {
                out.push(l);
            }
        }
    }
    out
}
