//! In-process "dynamic" parsers: runs parol's real pipeline on a grammar text and builds, at run
//! time, the same `'static` objects a generated parser consists of — lookahead automata,
//! productions, LR parse table, terminal/non-terminal names, skip-token lists and the scnr2 scanner
//! (built with `scnr2_generate` exactly as parol's own C# lexer generator does at run time) — and
//! then calls the real `LLKParser::parse_into` / `LRParser::parse_into` with a recording
//! `UserActionsTrait` and a recording `TreeConstruct`.
use parol::analysis::lalr1_parse_table::{LRAction as PLRAction, LRParseTable as PLRParseTable};
use parol::generators::{GrammarConfig, ParserExportModel, generate_terminal_names};
use parol::parser::parol_grammar::{GrammarType, ScannerStateSwitch};
use parol::{
    calculate_lalr1_parse_table, calculate_lookahead_dfas, check_and_transform_grammar,
    obtain_grammar_config_from_string,
};
use parol_runtime::lr_parser::{LR1State, LRAction, LRParseTable, LRParser, LRProduction};
use parol_runtime::parser::parse_tree_type::TreeConstruct;
use parol_runtime::{
    LLKParser, LookaheadDFA, ParolError, ParseTreeType, ParseType, ParserError, Production,
    TerminalIndex, Token, TokenStream, Trans, UserActionsTrait,
};
use scnr2::ScannerImpl;
use scnr2_generate::character_classes::CharacterClasses;
use scnr2_generate::dfa::Dfa as GDfa;
use scnr2_generate::nfa::Nfa;
use scnr2_generate::pattern::{AutomatonType, Lookahead as GLookahead, Pattern};
use std::cell::RefCell;
use std::collections::BTreeMap;
use std::ops::RangeInclusive;
use std::path::PathBuf;
use std::rc::Rc;

pub type MatchFn = &'static (dyn Fn(char) -> Option<usize> + 'static);

fn leak<T>(v: Vec<T>) -> &'static [T] {
    Box::leak(v.into_boxed_slice())
}
fn leak_str(s: &str) -> &'static str {
    Box::leak(s.to_owned().into_boxed_str())
}

/// One scanner mode as parol describes it: (regex, token type, optional (positive?, regex)).
#[derive(Clone, Debug)]
pub struct ModeDesc {
    pub name: String,
    pub patterns: Vec<(String, usize, Option<(bool, String)>)>,
    /// (token type, kind, target mode): kind 0 = enter, 1 = push, 2 = pop
    pub transitions: Vec<(usize, u8, usize)>,
}

pub struct DynScanner {
    pub modes: &'static [scnr2::ScannerMode],
    pub match_function: &'static MatchFn,
    pub descs: Vec<ModeDesc>,
}

impl DynScanner {
    pub fn new_impl(&self) -> Rc<RefCell<ScannerImpl>> {
        Rc::new(RefCell::new(ScannerImpl::new(self.modes)))
    }
}

fn conv_dfa(d: &GDfa, nclasses: usize) -> Result<scnr2::Dfa, String> {
    let mut states = vec![];
    for st in &d.states {
        let mut tr: Vec<Option<scnr2::DfaTransition>> = vec![None; nclasses];
        for t in &st.transitions {
            tr[t.elementary_interval_index.as_usize()] =
                Some(scnr2::DfaTransition { to: t.target.as_usize() });
        }
        let mut acc = vec![];
        for ad in &st.accept_data {
            let la = match &ad.lookahead {
                GLookahead::None => scnr2::Lookahead::None,
                GLookahead::Positive(AutomatonType::Dfa(d)) => {
                    scnr2::Lookahead::Positive(conv_dfa(d, nclasses)?)
                }
                GLookahead::Negative(AutomatonType::Dfa(d)) => {
                    scnr2::Lookahead::Negative(conv_dfa(d, nclasses)?)
                }
                _ => return Err("unexpected lookahead automaton type".into()),
            };
            acc.push(scnr2::AcceptData {
                token_type: ad.terminal_type.as_usize(),
                priority: ad.priority,
                lookahead: la,
            });
        }
        states.push(scnr2::DfaState { transitions: leak(tr), accept_data: leak(acc) });
    }
    Ok(scnr2::Dfa { states: leak(states) })
}

/// Builds a scnr2 scanner at run time from mode descriptions (the steps of `scnr2_generate::generate`).
pub fn build_scanner(descs: Vec<ModeDesc>) -> Result<DynScanner, String> {
    let mut nfas = vec![];
    for m in &descs {
        let mut pats = vec![];
        for (rx, tt, la) in &m.patterns {
            let l = match la {
                Some((true, p)) => GLookahead::positive(p.clone()).map_err(|e| e.to_string())?,
                Some((false, p)) => GLookahead::negative(p.clone()).map_err(|e| e.to_string())?,
                None => GLookahead::None,
            };
            pats.push(Pattern::new(rx.clone(), (*tt as u32).into()).with_lookahead(l));
        }
        nfas.push(Nfa::build_from_patterns(&pats).map_err(|e| e.to_string())?);
    }
    let mut cc = CharacterClasses::new();
    for n in &nfas {
        n.collect_character_classes(&mut cc);
    }
    cc.create_disjoint_character_classes();
    for n in &mut nfas {
        n.convert_to_disjoint_character_classes(&cc);
    }
    let nclasses = cc.intervals.len();
    let mut modes = vec![];
    for (i, n) in nfas.iter().enumerate() {
        let d = GDfa::try_from(n).map_err(|e| e.to_string())?;
        let mut trs: Vec<scnr2::Transition> = descs[i]
            .transitions
            .iter()
            .map(|(tt, kind, target)| match kind {
                0 => scnr2::Transition::SetMode(*tt, *target),
                1 => scnr2::Transition::PushMode(*tt, *target),
                _ => scnr2::Transition::PopMode(*tt),
            })
            .collect();
        trs.sort_by_key(|t| t.token_type());
        modes.push(scnr2::ScannerMode {
            name: leak_str(&descs[i].name),
            transitions: leak(trs),
            dfa: conv_dfa(&d, nclasses)?,
        });
    }
    let table: Vec<(RangeInclusive<char>, usize)> = cc
        .elementary_intervals
        .iter()
        .map(|iv| {
            let idx = cc.intervals.iter().position(|g| g.contains(iv)).expect("interval in group");
            (iv.clone(), idx)
        })
        .collect();
    let table: &'static [(RangeInclusive<char>, usize)] = leak(table);
    let f = move |c: char| -> Option<usize> {
        use std::cmp::Ordering;
        match table.binary_search_by(|iv| {
            if c < *iv.0.start() {
                Ordering::Greater
            } else if c > *iv.0.end() {
                Ordering::Less
            } else {
                Ordering::Equal
            }
        }) {
            Ok(i) => Some(table[i].1),
            Err(_) => None,
        }
    };
    let boxed: &'static (dyn Fn(char) -> Option<usize> + 'static) = Box::leak(Box::new(f));
    let mf: &'static MatchFn = Box::leak(Box::new(boxed));
    Ok(DynScanner { modes: leak(modes), match_function: mf, descs })
}

/// Mode descriptions exactly as parol's lexer generators obtain them.
pub fn mode_descs(gc: &GrammarConfig) -> Result<Vec<ModeDesc>, String> {
    let terminal_names = generate_terminal_names(gc);
    let names: Vec<String> = gc.scanner_configurations.iter().map(|s| s.scanner_name.clone()).collect();
    let mut res = vec![];
    for sc in &gc.scanner_configurations {
        let (mappings, transitions) =
            sc.generate_build_information(gc, &terminal_names).map_err(|e| e.to_string())?;
        let patterns = mappings.into_iter().map(|(rx, ti, la, _)| (rx, ti as usize, la)).collect();
        let mut trs = vec![];
        for (ti, sw) in transitions {
            let t = match sw {
                ScannerStateSwitch::Switch(n, _) => {
                    (ti as usize, 0u8, names.iter().position(|x| *x == n).ok_or("unknown mode")?)
                }
                ScannerStateSwitch::SwitchPush(n, _) => {
                    (ti as usize, 1u8, names.iter().position(|x| *x == n).ok_or("unknown mode")?)
                }
                ScannerStateSwitch::SwitchPop(_) => (ti as usize, 2u8, 0),
            };
            trs.push(t);
        }
        res.push(ModeDesc { name: sc.scanner_name.clone(), patterns, transitions: trs });
    }
    Ok(res)
}

pub enum Tables {
    LL {
        automata: &'static [LookaheadDFA],
        productions: &'static [Production],
        max_k: usize,
    },
    LR {
        table: &'static LRParseTable,
        productions: &'static [LRProduction],
    },
}

pub struct Built {
    pub grammar_config: GrammarConfig,
    pub model: ParserExportModel,
    pub tables: Tables,
    pub start: usize,
    pub t_names: &'static [&'static str],
    pub nt_names: &'static [&'static str],
    pub skip_tokens: &'static [&'static [TerminalIndex]],
    pub scanner: DynScanner,
    pub lr_conflicts: usize,
}

/// Stage at which the pipeline stopped, and a short class of the reason.
#[derive(Debug, Clone)]
pub struct BuildErr {
    pub stage: &'static str,
    pub msg: String,
}

fn berr<E: std::fmt::Display>(stage: &'static str) -> impl Fn(E) -> BuildErr {
    move |e| BuildErr { stage, msg: format!("{e:#}") }
}

pub fn build(par_text: &str, max_k: usize) -> Result<Built, BuildErr> {
    let mut gc = obtain_grammar_config_from_string(par_text, false).map_err(berr("parse"))?;
    let cfg = check_and_transform_grammar(&gc.cfg, gc.grammar_type).map_err(berr("check"))?;
    gc.update_cfg(cfg);
    build_from_config(gc, max_k)
}

pub fn build_from_config(mut gc: GrammarConfig, max_k: usize) -> Result<Built, BuildErr> {
    let (model, tables, lr_conflicts) = match gc.grammar_type {
        GrammarType::LLK => {
            let dfas = calculate_lookahead_dfas(&gc, max_k).map_err(berr("lookahead"))?;
            let k = dfas.values().map(|d| d.k).max().unwrap_or(0);
            gc.update_lookahead_size(k);
            let model = parol::generators::parser_generator::generate_parser_export_model(&gc, &dfas)
                .map_err(berr("export"))?;
            let automata: Vec<LookaheadDFA> = model
                .lookahead_automata
                .iter()
                .map(|a| {
                    let tr: Vec<Trans> = a
                        .transitions
                        .iter()
                        .map(|t| Trans(t.from_state, t.term, t.to_state, t.prod_num))
                        .collect();
                    LookaheadDFA::new(a.prod0, leak(tr), a.k)
                })
                .collect();
            let productions: Vec<Production> = model
                .productions
                .iter()
                .enumerate()
                .map(|(i, p)| {
                    // `ProductionSymbolExportModel` is not nameable outside parol: go through the JSON form
                    let pj = serde_json::to_value(p).expect("production to json");
                    let mut rhs: Vec<ParseType> = pj["rhs"]
                        .as_array()
                        .expect("rhs")
                        .iter()
                        .map(|s| {
                            if let Some(n) = s.get("NonTerminal") {
                                ParseType::N(n.as_u64().unwrap() as usize)
                            } else {
                                ParseType::T(s["Terminal"]["index"].as_u64().unwrap() as TerminalIndex)
                            }
                        })
                        .collect();
                    rhs.reverse();
                    Production {
                        lhs: p.lhs_index,
                        production: leak(rhs),
                        is_push_production: gc.cfg.pr[i].2 == parol::grammar::ProductionAttribute::AddToCollection,
                    }
                })
                .collect();
            (model, Tables::LL { automata: leak(automata), productions: leak(productions), max_k: k }, 0)
        }
        GrammarType::LALR1 => {
            let (pt, conflicts) = calculate_lalr1_parse_table(&gc).map_err(berr("lalr"))?;
            gc.update_lookahead_size(1);
            let model = parol::generators::parser_generator::generate_lalr1_parser_export_model(&gc, &pt)
                .map_err(berr("export"))?;
            let table = conv_lr_table(&pt);
            let productions: Vec<LRProduction> = model
                .productions
                .iter()
                .enumerate()
                .map(|(i, p)| LRProduction {
                    lhs: p.lhs_index,
                    len: p.rhs.len(),
                    is_push_production: gc.cfg.pr[i].2 == parol::grammar::ProductionAttribute::AddToCollection,
                })
                .collect();
            (model, Tables::LR { table, productions: leak(productions) }, conflicts.len())
        }
    };
    let t_names: Vec<&'static str> = generate_terminal_names(&gc).iter().map(|s| leak_str(s)).collect();
    let nt_names: Vec<&'static str> = model.non_terminal_names.iter().map(|s| leak_str(s)).collect();
    let skip: Vec<&'static [TerminalIndex]> =
        gc.scanner_configurations.iter().map(|sc| leak(sc.skip_tokens.clone())).collect();
    let scanner = build_scanner(mode_descs(&gc).map_err(|e| BuildErr { stage: "scanner", msg: e })?)
        .map_err(|e| BuildErr { stage: "scanner", msg: e })?;
    let start = model.start_symbol_index;
    Ok(Built {
        grammar_config: gc,
        model,
        tables,
        start,
        t_names: leak(t_names),
        nt_names: leak(nt_names),
        skip_tokens: leak(skip),
        scanner,
        lr_conflicts,
    })
}

fn conv_lr_table(pt: &PLRParseTable) -> &'static LRParseTable {
    // as `generate_parse_table_source` does: a deduplicated action list + per state (terminal, action index)
    let mut actions: Vec<PLRAction> = vec![];
    let mut index: BTreeMap<PLRAction, usize> = BTreeMap::new();
    for st in &pt.states {
        for (_, a) in &st.actions {
            index.entry(a.clone()).or_insert(0);
        }
    }
    for (i, (a, slot)) in index.iter_mut().enumerate() {
        *slot = i;
        actions.push(a.clone());
    }
    let rt_actions: Vec<LRAction> = actions
        .iter()
        .map(|a| match a {
            PLRAction::Shift(s) => LRAction::Shift(*s),
            PLRAction::Reduce(n, p) => LRAction::Reduce(*n, *p),
            PLRAction::Accept => LRAction::Accept,
        })
        .collect();
    let states: Vec<LR1State> = pt
        .states
        .iter()
        .map(|st| {
            let acts: Vec<(TerminalIndex, usize)> = st.actions.iter().map(|(t, a)| (*t, index[a])).collect();
            let gotos: Vec<(usize, usize)> = st.gotos.iter().map(|(n, s)| (*n, *s)).collect();
            LR1State { actions: leak(acts), gotos: leak(gotos) }
        })
        .collect();
    Box::leak(Box::new(LRParseTable { actions: leak(rt_actions), states: leak(states) }))
}

// -------------------------------------------------------------------------------------------------
// running

#[derive(Clone, Debug, Default)]
pub struct Opts {
    pub trim: bool,
    pub recovery: bool,
    pub max_depth: Option<usize>,
}

/// A recorded token: (type, start, end, line, column, end_line, end_column).
#[derive(Clone, Debug, PartialEq, Eq)]
pub struct Tok {
    pub ty: u16,
    pub start: usize,
    pub end: usize,
    pub line: u32,
    pub col: u32,
    pub text: String,
}

fn tok_of(t: &Token<'_>) -> Tok {
    Tok {
        ty: t.token_type,
        start: t.location.start as usize,
        end: t.location.end as usize,
        line: t.location.start_line,
        col: t.location.start_column,
        text: t.text().to_string(),
    }
}

#[derive(Clone, Debug, PartialEq, Eq)]
pub enum Child {
    T(Tok),
    N(String),
}

#[derive(Clone, Debug, PartialEq, Eq)]
pub enum TreeEv {
    Open(String),
    Close,
    Tok(Tok),
}

#[derive(Default)]
pub struct Recorder {
    pub actions: Vec<(usize, Vec<Child>)>,
    pub comments: Vec<Tok>,
}

impl<'t> UserActionsTrait<'t> for Recorder {
    fn call_semantic_action_for_production_number(
        &mut self,
        prod_num: usize,
        children: &[ParseTreeType<'t>],
    ) -> parol_runtime::Result<()> {
        let ch = children
            .iter()
            .map(|c| match c {
                ParseTreeType::T(t) => Child::T(tok_of(t)),
                ParseTreeType::N(n) => Child::N(n.to_string()),
            })
            .collect();
        self.actions.push((prod_num, ch));
        Ok(())
    }
    fn on_comment(&mut self, token: Token<'t>) {
        self.comments.push(tok_of(&token));
    }
}

#[derive(Default)]
pub struct TreeRec {
    pub events: Vec<TreeEv>,
}

impl<'t> TreeConstruct<'t> for TreeRec {
    type Error = ParolError;
    type Tree = ();
    fn open_non_terminal(&mut self, name: &'static str, _: Option<usize>) -> Result<(), ParolError> {
        self.events.push(TreeEv::Open(name.to_string()));
        Ok(())
    }
    fn close_non_terminal(&mut self) -> Result<(), ParolError> {
        self.events.push(TreeEv::Close);
        Ok(())
    }
    fn add_token(&mut self, token: &Token<'t>) -> Result<(), ParolError> {
        self.events.push(TreeEv::Tok(tok_of(token)));
        Ok(())
    }
    fn build(self) -> Result<(), ParolError> {
        Ok(())
    }
}

pub struct RunOut {
    /// `ok` | `syntax <n> <first-error-start>` | `unprocessed` | `predict` | `depth <d>` | `internal` | …
    pub result: String,
    pub actions: Vec<(usize, Vec<Child>)>,
    pub comments: Vec<Tok>,
    pub tree: Vec<TreeEv>,
}

pub fn classify(e: &ParolError) -> String {
    match e {
        ParolError::ParserError(pe) => match pe {
            ParserError::SyntaxErrors { entries } => format!(
                "syntax {} {}",
                entries.len(),
                entries.first().map(|x| x.error_location.start as i64).unwrap_or(-1)
            ),
            ParserError::UnprocessedInput { .. } => "unprocessed".into(),
            ParserError::PredictionError { .. } => "predict".into(),
            ParserError::MaxParsingDepthExceeded { depth } => format!("depth {depth}"),
            ParserError::InternalError(_) => "internal".into(),
            ParserError::DataError(_) => "data".into(),
            ParserError::TooManyErrors { count } => format!("too-many {count}"),
            ParserError::RecoveryFailed => "recovery-failed".into(),
            ParserError::TreeError { .. } => "tree".into(),
            ParserError::Unsupported { .. } => "unsupported".into(),
        },
        ParolError::LexerError(_) => "lexer".into(),
        ParolError::UserError(_) => "user".into(),
    }
}

impl Built {
    pub fn is_ll(&self) -> bool {
        matches!(self.tables, Tables::LL { .. })
    }

    pub fn run(&self, input: &str, opts: &Opts) -> RunOut {
        let mut rec = Recorder::default();
        let mut tree = TreeRec::default();
        let file: PathBuf = PathBuf::from("input");
        let res = match &self.tables {
            Tables::LL { automata, productions, max_k } => {
                let mut p = LLKParser::new(self.start, automata, productions, self.t_names, self.nt_names);
                if opts.trim {
                    p.trim_parse_tree();
                }
                if !opts.recovery {
                    p.disable_recovery();
                }
                if let Some(d) = opts.max_depth {
                    p.set_max_parsing_depth(d);
                }
                let ts = TokenStream::new_with_skip_tokens(
                    input,
                    file,
                    self.scanner.new_impl(),
                    self.scanner.match_function,
                    *max_k,
                    self.skip_tokens,
                )
                .unwrap();
                p.parse_into(&mut tree, ts, &mut rec)
            }
            Tables::LR { table, productions } => {
                let mut p = LRParser::new(self.start, table, productions, self.t_names, self.nt_names);
                if opts.trim {
                    p.trim_parse_tree();
                }
                if let Some(d) = opts.max_depth {
                    p.set_max_parsing_depth(d);
                }
                let ts = TokenStream::new_with_skip_tokens(
                    input,
                    file,
                    self.scanner.new_impl(),
                    self.scanner.match_function,
                    1,
                    self.skip_tokens,
                )
                .unwrap();
                p.parse_into(&mut tree, ts, &mut rec)
            }
        };
        RunOut {
            result: match &res {
                Ok(()) => "ok".into(),
                Err(e) => classify(e),
            },
            actions: rec.actions,
            comments: rec.comments,
            tree: tree.events,
        }
    }

    /// All tokens (significant and skipped) the real TokenStream delivers for `input` with lookahead `k`.
    pub fn tokens(&self, input: &str, k: usize) -> Result<Vec<(Tok, bool)>, String> {
        let mut ts = TokenStream::new_with_skip_tokens(
            input,
            PathBuf::from("input"),
            self.scanner.new_impl(),
            self.scanner.match_function,
            k,
            self.skip_tokens,
        )
        .map_err(|e| e.to_string())?;
        let mut out = vec![];
        loop {
            for t in ts.take_skip_tokens() {
                out.push((tok_of(&t), true));
            }
            if ts.all_input_consumed() {
                break;
            }
            let t = ts.consume().map_err(|e| e.to_string())?;
            out.push((tok_of(&t), false));
            if out.len() > 100000 {
                return Err("too many tokens".into());
            }
        }
        Ok(out)
    }
}
