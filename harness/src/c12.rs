//! C12: LR augmentation. Drives the real `augment_grammar` and
//! `check_and_transform_grammar_with_ignored(_, LALR1, _)` (the grammar handed to the LALR(1)
//! table construction).
//!
//! Non-terminal `n<i>` is named `N<i>` here (decimal, NOT zero-padded as in `cfgenc`), so that the
//! numeric-suffix rule of `generate_name` runs into existing names and has to count up.
//!
//! Requests / replies:
//!   `augment <ignored> <start> <prods>` -> `<new start name> <start'> <prods'> <via>`
//!        via = `same`     check_and_transform_grammar accepts and returns the same grammar
//!              `diff`     … returns a different grammar
//!              `rejected` … rejects the grammar (well-formedness checks of C11)
//!   `augname <start name> <other,names|->` -> name of the start symbol after augmenting
//!        `start: ; start: other…;` (two productions, so always augmented): `generate_name` on
//!        arbitrary names.
use crate::cfgenc::{enumerate_grams, random_gram, GenCfg, Gram, Sym};
use crate::rng::Rng;
use crate::util::*;
use parol::generators::grammar_trans::check_and_transform_grammar_with_ignored;
use parol::parser::parol_grammar::GrammarType;
use parol::{augment_grammar, Cfg, Pr, Symbol, SymbolAttribute, Terminal};
use std::collections::BTreeSet;

fn nt_name(i: usize) -> String {
    format!("N{i}")
}

/// Canonical decimal only: `N7` -> 7, `N07` -> None.
fn nt_index(name: &str) -> Option<usize> {
    let d = name.strip_prefix('N')?;
    let i: usize = d.parse().ok()?;
    if i.to_string() == d { Some(i) } else { None }
}

fn to_cfg(g: &Gram) -> Cfg {
    let mut cfg = Cfg::with_start_symbol(&nt_name(g.start));
    for (l, r) in &g.prods {
        let rhs = r
            .iter()
            .map(|s| match s {
                Sym::T(a) => Symbol::T(Terminal::t(&crate::cfgenc::t_text(*a), vec![0], SymbolAttribute::None)),
                Sym::N(a) => Symbol::n(&nt_name(*a)),
            })
            .collect();
        cfg = cfg.add_pr(Pr::new(&nt_name(*l), rhs));
    }
    cfg
}

/// Like `to_cfg`, but the non-terminal occurrences on right-hand sides are decorated the way a PAR text can
/// decorate them (`N^`, `N@member`, a repetition/option attribute as canonicalisation leaves it): two bits of
/// `mask` per occurrence. Decorations must not influence augmentation (seeded change mut-C12).
fn to_cfg_decorated(g: &Gram, mask: u64) -> Cfg {
    let mut cfg = Cfg::with_start_symbol(&nt_name(g.start));
    let mut j = 0u32;
    for (l, r) in &g.prods {
        let rhs = r
            .iter()
            .map(|s| match s {
                Sym::T(a) => Symbol::T(Terminal::t(&crate::cfgenc::t_text(*a), vec![0], SymbolAttribute::None)),
                Sym::N(a) => {
                    let d = (mask >> (2 * (j % 32))) & 3;
                    j += 1;
                    match d {
                        0 => Symbol::n(&nt_name(*a)),
                        1 => Symbol::N(nt_name(*a), SymbolAttribute::Clipped, None, None),
                        2 => Symbol::N(nt_name(*a), SymbolAttribute::None, None, Some("rest".to_string())),
                        _ => Symbol::N(nt_name(*a), SymbolAttribute::Option, None, None),
                    }
                }
            })
            .collect();
        cfg = cfg.add_pr(Pr::new(&nt_name(*l), rhs));
    }
    cfg
}

fn from_cfg(cfg: &Cfg) -> Option<Gram> {
    let start = nt_index(&cfg.st)?;
    let mut prods = vec![];
    for p in &cfg.pr {
        let l = nt_index(p.get_n_str())?;
        let mut rhs = vec![];
        for s in p.get_r() {
            match s {
                Symbol::N(n, ..) => rhs.push(Sym::N(nt_index(n)?)),
                Symbol::T(Terminal::Trm(t, ..)) => rhs.push(Sym::T(crate::cfgenc::t_index(t)?)),
                _ => return None,
            }
        }
        prods.push((l, rhs));
    }
    Some(Gram { start, prods })
}

pub fn run_case(w: &[&str]) -> Option<String> {
    match w {
        ["augment", ign, st, prods] | ["augment-attr", ign, st, prods, _] => {
            let g = Gram::parse(st, prods)?;
            let ign: Vec<usize> = parse_nats(ign)?;
            let ignored: BTreeSet<String> = ign.iter().map(|i| nt_name(*i)).collect();
            let cfg = match w {
                [_, _, _, _, mask] => to_cfg_decorated(&g, mask.parse().ok()?),
                _ => to_cfg(&g),
            };
            let aug = augment_grammar(&cfg);
            let name = aug.st.clone();
            let shown = match from_cfg(&aug) {
                Some(g2) => g2.show(),
                None => "undecodable -".to_string(),
            };
            let via = match check_and_transform_grammar_with_ignored(&cfg, GrammarType::LALR1, &ignored) {
                Ok(c) => {
                    if c.st == aug.st && c.pr == aug.pr {
                        "same"
                    } else {
                        "diff"
                    }
                }
                Err(_) => "rejected",
            };
            Some(format!("{name} {shown} {via}"))
        }
        ["augname", st, others] => {
            let ok = |s: &str| !s.is_empty() && s.chars().all(|c| c.is_ascii_alphanumeric() || c == '_');
            if !ok(st) {
                return None;
            }
            let os: Vec<&str> = if *others == "-" { vec![] } else { others.split(',').collect() };
            if os.iter().any(|o| !ok(o)) {
                return None;
            }
            let cfg = Cfg::with_start_symbol(st)
                .add_pr(Pr::new(st, vec![]))
                .add_pr(Pr::new(st, os.iter().map(|o| Symbol::n(o)).collect()));
            Some(augment_grammar(&cfg).st)
        }
        _ => None,
    }
}

fn line(g: &Gram, ign: &[usize]) -> String {
    format!("augment {} {}", show_nats(ign), g.show())
}

/// Random grammars biased towards what C12 is about: start symbols with one or several
/// productions, used or not used on right-hand sides (directly, through an optional-like helper,
/// left- or right-recursively), and non-terminal numbers that collide with the candidates
/// `N<start>`, `N<start+1>`, … of the new start symbol's name.
fn biased_gram(rng: &mut Rng) -> Gram {
    let c = GenCfg {
        max_nts: rng.range(1, 5),
        max_terms: 2,
        max_prods_per_nt: rng.range(1, 3),
        max_rhs: rng.range(1, 3),
        nt_bias: rng.range(2, 6),
        allow_undefined: rng.chance(1, 6),
    };
    let mut g = random_gram(rng, &c);
    let n = g.nts().len().max(1);
    match rng.below(8) {
        0 => {
            // the F1 shape: S -> t SOpt ; SOpt -> S ; SOpt -> ε (single start production, start used)
            let h = n;
            g.prods.retain(|(l, _)| *l != 0);
            g.prods.insert(0, (0, vec![Sym::T(5), Sym::N(h)]));
            g.prods.push((h, vec![Sym::N(0)]));
            g.prods.push((h, vec![]));
        }
        1 => {
            // single start production, start not used anywhere
            for (_, r) in g.prods.iter_mut() {
                r.retain(|s| *s != Sym::N(0));
            }
            let mut seen = false;
            g.prods.retain(|(l, _)| {
                if *l == 0 {
                    let keep = !seen;
                    seen = true;
                    keep
                } else {
                    true
                }
            });
        }
        2 => {
            // start symbol directly recursive
            g.prods.push((0, if rng.chance(1, 2) { vec![Sym::T(5), Sym::N(0)] } else { vec![Sym::N(0), Sym::T(5)] }));
        }
        3 => {
            // renumber so that the start symbol is not the smallest number: candidate names collide
            let shift = rng.range(1, 3);
            let m = n + shift;
            let f = |i: usize| (i + shift) % m;
            g.start = f(g.start);
            for (l, r) in g.prods.iter_mut() {
                *l = f(*l);
                for s in r.iter_mut() {
                    if let Sym::N(a) = s {
                        *a = f(*a);
                    }
                }
            }
        }
        4 => {
            // sparse numbering with gaps right after the start symbol
            let k = rng.range(2, 4);
            let f = |i: usize| if i == 0 { 0 } else { i * k };
            for (l, r) in g.prods.iter_mut() {
                *l = f(*l);
                for s in r.iter_mut() {
                    if let Sym::N(a) = s {
                        *a = f(*a);
                    }
                }
            }
        }
        _ => {}
    }
    g
}

const NAME_POOL: &[&str] = &[
    "S", "S0", "S1", "S2", "S01", "S00", "S10", "S9", "S09", "S99", "S100", "A1B", "A1B2", "A1B3", "X_", "X_0", "X_1", "N", "N0",
    "N1", "N2", "N3", "s", "s0", "S18446744073709551616", "S1844674407370955161", "S000",
    "S18446744073709551617", "S2_", "a12b", "a12b0", "T007", "T7", "T8",
];

pub fn generate(seed: u64, thorough: bool) -> Vec<String> {
    let mut rng = Rng::new(seed ^ 0xC12);
    let mut out = vec![];
    let scopes: &[(usize, usize, usize, usize)] = if thorough {
        &[(1, 1, 4, 2), (2, 1, 3, 2), (2, 2, 3, 2), (3, 1, 3, 2)]
    } else {
        &[(1, 1, 4, 2), (2, 1, 3, 2), (2, 2, 3, 2), (3, 1, 2, 2)]
    };
    for &(n, nt, mp, mr) in scopes {
        for g in enumerate_grams(n, nt, mp, mr) {
            out.push(line(&g, &[]));
        }
    }
    let nrand = if thorough { 40_000 } else { 6_000 };
    for i in 0..nrand {
        let g = biased_gram(&mut rng);
        let ign: Vec<usize> = if i % 7 == 0 { g.nts().into_iter().filter(|_| rng.chance(1, 3)).collect() } else { vec![] };
        out.push(line(&g, &ign));
        if i % 3 == 0 {
            // the same grammar with decorated non-terminal occurrences (`N^`, `N@rest`, option attribute)
            out.push(format!("augment-attr {} {} {}", show_nats(&ign), g.show(), rng.next() >> 1));
        }
    }
    // the naming rule on arbitrary names
    let nnames = if thorough { 6_000 } else { 1_500 };
    for _ in 0..nnames {
        let st = *rng.pick(NAME_POOL);
        let k = rng.range(0, 6);
        let mut os: Vec<&str> = (0..k).map(|_| *rng.pick(NAME_POOL)).collect();
        os.sort();
        os.dedup();
        let os: Vec<String> = os.into_iter().map(|s| s.to_string()).collect();
        out.push(format!("augname {} {}", st, if os.is_empty() { "-".to_string() } else { os.join(",") }));
    }
    out
}

pub fn cli(args: &[String]) {
    standard_cli(args, generate, run_case)
}
