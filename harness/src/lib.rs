//! Verification harness for jsinger67/parol: case generators and drivers of the real
//! implementation for the differential (D) and checker (V) ties described in /verif/DESIGN.md.
pub mod c31;
pub mod rng;
pub mod util;
