//! Shared helpers for the runtime-parser properties (C01, C02, C03, C14, C17, C19, C20):
//! PAR text for numeric BNF grammars, sentence generation, input texts, table encoders.
use crate::cfgenc::{Gram, Sym};
use crate::dynparse::*;
use crate::rng::Rng;
use parol_runtime::lexer::FIRST_USER_TOKEN;

/// Terminal `t<i>` (i ≥ 5) is written as the keyword `k<letter>` … we use plain words: a, b, c, …
pub fn term_word(i: usize) -> String {
    let n = i - 5;
    // a..w ; x, y, z are reserved as foreign words
    assert!(n < 23);
    ((b'a' + n as u8) as char).to_string()
}

pub fn word_term(w: &str) -> Option<usize> {
    let c = w.chars().next()?;
    if w.len() == 1 && ('a'..='w').contains(&c) {
        Some(5 + (c as usize - 'a' as usize))
    } else {
        None
    }
}

#[derive(Clone, Debug, Default)]
pub struct ParOpts {
    pub lalr: bool,
    pub line_comment: bool,
    pub block_comment: bool,
    pub allow_unmatched: bool,
    pub auto_newline_off: bool,
    pub auto_ws_off: bool,
    /// adds `%skip N98`, `N98: "x";` and the (dead) alternative `<start>: N98;` — the word `x` is then
    /// skipped in the INITIAL scanner state; inputs may contain it anywhere
    pub skip_x: bool,
}

/// PAR text of a plain BNF grammar. Non-terminals are `N00`, `N01`, …; terminals are the one-letter
/// string literals "a", "b", …
pub fn par_text(g: &Gram, o: &ParOpts) -> String {
    let mut s = format!("%start {}\n", crate::cfgenc::nt_name(g.start));
    if o.lalr {
        s.push_str("%grammar_type 'LALR(1)'\n");
    }
    if o.line_comment {
        s.push_str("%line_comment '//'\n");
    }
    if o.block_comment {
        s.push_str("%block_comment '/*' '*/'\n");
    }
    if o.auto_newline_off {
        s.push_str("%auto_newline_off\n");
    }
    if o.auto_ws_off {
        s.push_str("%auto_ws_off\n");
    }
    if o.allow_unmatched {
        s.push_str("%allow_unmatched\n");
    }
    if o.skip_x {
        s.push_str("%skip N98\n");
    }
    s.push_str("%%\n");
    for (l, r) in &g.prods {
        s.push_str(&crate::cfgenc::nt_name(*l));
        s.push(':');
        for x in r {
            s.push(' ');
            match x {
                Sym::T(a) => s.push_str(&format!("\"{}\"", term_word(*a))),
                Sym::N(a) => s.push_str(&crate::cfgenc::nt_name(*a)),
            }
        }
        s.push_str(";\n");
    }
    if o.skip_x {
        s.push_str(&format!("{}: N98;\nN98: \"x\";\n", crate::cfgenc::nt_name(g.start)));
    }
    s
}

/// Random sentence (terminal ids) by leftmost expansion with a size budget; None if the budget is
/// exceeded or a non-terminal has no production.
pub fn random_sentence(g: &Gram, rng: &mut Rng, budget: usize) -> Option<Vec<usize>> {
    let mut out = vec![];
    let mut stack = vec![Sym::N(g.start)];
    let mut steps = 0;
    while let Some(s) = stack.pop() {
        steps += 1;
        if steps > budget * 8 || out.len() > budget {
            return None;
        }
        match s {
            Sym::T(a) => out.push(a),
            Sym::N(a) => {
                let alts: Vec<&(usize, Vec<Sym>)> = g.prods.iter().filter(|p| p.0 == a).collect();
                if alts.is_empty() {
                    return None;
                }
                // prefer short alternatives when the budget gets tight
                let pick = if steps > budget * 2 {
                    alts.iter().min_by_key(|p| p.1.len()).unwrap()
                } else {
                    alts[rng.below(alts.len())]
                };
                for x in pick.1.iter().rev() {
                    stack.push(x.clone());
                }
            }
        }
    }
    Some(out)
}

/// Mutates a token string: delete / insert / replace / transpose / foreign token (id 99 = word `z`).
pub fn mutate(w: &[usize], terms: &[usize], rng: &mut Rng) -> Vec<usize> {
    let mut v = w.to_vec();
    let pool: Vec<usize> = terms.iter().cloned().chain(std::iter::once(99)).collect();
    match rng.below(5) {
        0 if !v.is_empty() => {
            let i = rng.below(v.len());
            v.remove(i);
        }
        1 => {
            let i = rng.below(v.len() + 1);
            v.insert(i, *rng.pick(&pool));
        }
        2 if !v.is_empty() => {
            let i = rng.below(v.len());
            v[i] = *rng.pick(&pool);
        }
        3 if v.len() > 1 => {
            let i = rng.below(v.len() - 1);
            v.swap(i, i + 1);
        }
        _ => {
            let i = rng.below(v.len() + 1);
            v.insert(i, 99);
        }
    }
    v
}

pub fn all_strings(alpha: &[usize], max_len: usize, cap: usize) -> Vec<Vec<usize>> {
    let mut res: Vec<Vec<usize>> = vec![vec![]];
    let mut frontier: Vec<Vec<usize>> = vec![vec![]];
    for _ in 0..max_len {
        let mut next = vec![];
        for s in &frontier {
            for &a in alpha {
                let mut t = s.clone();
                t.push(a);
                next.push(t);
                if res.len() + next.len() >= cap {
                    res.extend(next);
                    return res;
                }
            }
        }
        res.extend(next.iter().cloned());
        frontier = next;
    }
    res
}

/// Renders a token string as text: words separated by blanks (style 0), or with random
/// whitespace / newlines / comments (style 1; needs the comment directives in the grammar).
pub fn render_text(w: &[usize], style: u8, o: &ParOpts, rng: &mut Rng) -> String {
    let mut s = String::new();
    let sep = |s: &mut String, rng: &mut Rng| {
        if style == 0 {
            s.push(' ');
            return;
        }
        match rng.below(if o.skip_x { 10 } else { 8 }) {
            8 => s.push_str(" x "),
            9 => s.push_str(" x x\n"),
            0 => s.push_str("  "),
            1 => s.push('\n'),
            2 => s.push_str("\r\n"),
            3 => s.push('\t'),
            4 if o.line_comment => s.push_str(" // c\n"),
            5 if o.block_comment => s.push_str(" /* c */ "),
            6 if o.block_comment => s.push_str("/**/ "),
            _ => s.push(' '),
        }
    };
    if style == 1 && rng.chance(1, 3) {
        sep(&mut s, rng);
    }
    for (i, t) in w.iter().enumerate() {
        if i > 0 {
            sep(&mut s, rng);
        }
        if *t == 99 {
            s.push('z');
        } else {
            s.push_str(&term_word(*t));
        }
    }
    if style == 1 && rng.chance(1, 3) {
        sep(&mut s, rng);
    }
    s
}

// ---- encoders of the real tables / tokens into the line protocol ---------------------------------

pub fn enc_ll_tables(b: &Built) -> Option<String> {
    if let Tables::LL { automata, productions, .. } = &b.tables {
        let ps: Vec<String> = productions
            .iter()
            .map(|p| {
                format!(
                    "{}:{}:{}",
                    p.lhs,
                    if p.is_push_production { 1 } else { 0 },
                    p.production
                        .iter()
                        .map(|s| match s {
                            parol_runtime::ParseType::T(t) => format!("t{t}"),
                            parol_runtime::ParseType::N(n) => format!("n{n}"),
                            parol_runtime::ParseType::E(e) => format!("e{e}"),
                        })
                        .collect::<Vec<_>>()
                        .join(",")
                )
            })
            .collect();
        let ds: Vec<String> = automata
            .iter()
            .map(|d| {
                let tr: Vec<String> =
                    d.transitions.iter().map(|t| format!("{}:{}:{}:{}", t.0, t.1, t.2, t.3)).collect();
                format!("{}/{}/{}", d.prod0, d.k, if tr.is_empty() { "-".to_string() } else { tr.join("+") })
            })
            .collect();
        Some(format!(
            "{} {} {}",
            b.start,
            if ps.is_empty() { "-".into() } else { ps.join(";") },
            if ds.is_empty() { "-".into() } else { ds.join(";") }
        ))
    } else {
        None
    }
}

pub fn enc_tokens(toks: &[(Tok, bool)]) -> String {
    if toks.is_empty() {
        return "-".into();
    }
    toks.iter()
        .map(|(t, skip)| {
            let comment = t.ty == 3 || t.ty == 4;
            format!("{}:{}", t.ty, if !*skip { 0 } else if comment { 2 } else { 1 })
        })
        .collect::<Vec<_>>()
        .join(",")
}

pub fn enc_opts(o: &Opts) -> String {
    format!(
        "{}{} {}",
        if o.trim { 1 } else { 0 },
        if o.recovery { 1 } else { 0 },
        o.max_depth.map(|d| d.to_string()).unwrap_or("-".into())
    )
}

/// Canonical reply of a real run, in the vocabulary of the Lean model (`showOut`).
pub fn show_run(b: &Built, toks: &[(Tok, bool)], o: &Opts, r: &RunOut) -> String {
    let id_of = |t: &Tok| -> String {
        match toks.iter().position(|(x, _)| x.start == t.start && x.end == t.end && x.ty == t.ty) {
            Some(i) => format!("t{i}"),
            None => format!("t?{}", t.start),
        }
    };
    let res = {
        let w: Vec<&str> = r.result.split(' ').collect();
        match w[0] {
            "ok" => "ok".to_string(),
            "syntax" => {
                let start: i64 = w[2].parse().unwrap_or(-1);
                match toks.iter().position(|(x, skip)| !*skip && x.start as i64 == start) {
                    Some(i) => format!("syntax:{i}"),
                    None => "syntax:eoi".to_string(),
                }
            }
            "unprocessed" => "unprocessed".to_string(),
            "depth" => format!("depth:{}", w[1]),
            "recovery-failed" => "recovery-failed".to_string(),
            other => format!("other:{other}"),
        }
    };
    if o.recovery && res != "ok" {
        return "err".into();
    }
    let acts = if r.actions.is_empty() {
        "-".to_string()
    } else {
        r.actions
            .iter()
            .map(|(p, ch)| {
                format!(
                    "{}({})",
                    p,
                    ch.iter()
                        .map(|c| match c {
                            Child::T(t) => id_of(t),
                            Child::N(n) => format!(
                                "n{}",
                                b.nt_names.iter().position(|x| x == n).map(|i| i.to_string()).unwrap_or("?".into())
                            ),
                        })
                        .collect::<Vec<_>>()
                        .join(",")
                )
            })
            .collect::<Vec<_>>()
            .join(";")
    };
    let tree = if r.tree.is_empty() {
        "-".to_string()
    } else {
        r.tree
            .iter()
            .map(|e| match e {
                TreeEv::Open(n) if n.is_empty() => "or".to_string(),
                TreeEv::Open(n) => format!(
                    "o{}",
                    b.nt_names.iter().position(|x| x == n).map(|i| i.to_string()).unwrap_or("?".into())
                ),
                TreeEv::Close => "c".to_string(),
                TreeEv::Tok(t) => id_of(t),
            })
            .collect::<Vec<_>>()
            .join(",")
    };
    let comments = if r.comments.is_empty() {
        "-".to_string()
    } else {
        r.comments.iter().map(|t| id_of(t).trim_start_matches('t').to_string()).collect::<Vec<_>>().join(",")
    };
    format!("{res} {acts} {tree} {comments}")
}

/// The terminal index parol assigned to the one-letter terminal with protocol id `t` (None if the
/// terminal does not occur in the transformed grammar).
pub fn parol_index(b: &Built, t: usize) -> Option<usize> {
    let word = term_word(t);
    b.grammar_config
        .cfg
        .get_ordered_terminals()
        .iter()
        .position(|(x, ..)| *x == word)
        .map(|i| i + FIRST_USER_TOKEN as usize)
}

/// Random grammar biased towards needing lookahead k >= 2: a random BNF grammar to which "clone"
/// conflicts (`A: Y1 u | Y2 v; Y1: w; Y2: w;` — not removable by left factoring) and
/// follow-dependent nullables (`A: B t u; B: t | ;`) are added.
pub fn random_ll_gram(rng: &mut Rng, base: &crate::cfgenc::GenCfg) -> Gram {
    let mut g = crate::cfgenc::random_gram(rng, base);
    let mut next_nt = g.nts().iter().max().map(|m| m + 1).unwrap_or(1);
    let nterm = g.terminals().len().max(2);
    let term = |rng: &mut Rng| Sym::T(5 + rng.below(nterm + 1));
    let tweaks = rng.below(3);
    for _ in 0..tweaks {
        if g.prods.is_empty() {
            break;
        }
        match rng.below(3) {
            0 | 1 => {
                // clone conflict on a random non-terminal
                let a = g.prods[rng.below(g.prods.len())].0;
                let wlen = rng.range(1, 2);
                let w: Vec<Sym> = (0..wlen).map(|_| term(rng)).collect();
                let (y1, y2) = (next_nt, next_nt + 1);
                next_nt += 2;
                let t1 = 5 + rng.below(nterm + 1);
                let mut t2 = 5 + rng.below(nterm + 1);
                if t2 == t1 {
                    t2 = t1 + 1;
                }
                g.prods.push((a, vec![Sym::N(y1), Sym::T(t1)]));
                g.prods.push((a, vec![Sym::N(y2), Sym::T(t2)]));
                g.prods.push((y1, w.clone()));
                g.prods.push((y2, w));
            }
            _ => {
                // follow-dependent nullable
                let a = g.prods[rng.below(g.prods.len())].0;
                let b = next_nt;
                next_nt += 1;
                let t = 5 + rng.below(nterm + 1);
                let u = 5 + rng.below(nterm + 1);
                g.prods.push((a, vec![Sym::N(b), Sym::T(t), Sym::T(u)]));
                g.prods.push((b, vec![Sym::T(t)]));
                g.prods.push((b, vec![]));
            }
        }
    }
    g
}

/// Productions of the TRANSFORMED grammar in parol's own numbering (`lhs:sym,sym;…`, the encoding
/// of Model/CfgProto.lean), read from the export model through its JSON form.
pub fn enc_tprods(b: &Built) -> String {
    let v = serde_json::to_value(&b.model.productions).expect("productions to json");
    let ps: Vec<String> = v
        .as_array()
        .unwrap()
        .iter()
        .map(|p| {
            let rhs: Vec<String> = p["rhs"]
                .as_array()
                .unwrap()
                .iter()
                .map(|s| {
                    if let Some(n) = s.get("NonTerminal") {
                        format!("n{}", n.as_u64().unwrap())
                    } else {
                        format!("t{}", s["Terminal"]["index"].as_u64().unwrap())
                    }
                })
                .collect();
            format!("{}:{}", p["lhs_index"].as_u64().unwrap(), rhs.join(","))
        })
        .collect();
    if ps.is_empty() { "-".into() } else { ps.join(";") }
}
