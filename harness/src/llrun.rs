//! Runtime LL(k) parser ties (C01, C02, C14, C17, C19, C20): random grammars through parol's real
//! pipeline, real `LLKParser` on rendered inputs vs the Lean model `llRun` on the real tables and
//! the real token sequence.
//!
//! Case line:
//! `ll <start> <prods> <dfas> <opts> <depth> <tokens> <gstart> <gprods> <w> <K> <parflags> <texthex> <tprods> <conflicts>`
//! (words 1–6 are what the Lean handler reads; the rest lets `run` rebuild everything from the
//! grammar with the real pipeline and lets the oracle judge `w` against the ORIGINAL grammar).
use crate::cfgenc::{GenCfg, Gram, random_gram};
use crate::dynparse::*;
use crate::parsegen::*;
use crate::rng::Rng;
use crate::util::*;
use std::cell::RefCell;
use std::collections::HashMap;

pub fn hex(s: &str) -> String {
    if s.is_empty() {
        return "-".into();
    }
    s.bytes().map(|b| format!("{b:02x}")).collect()
}
pub fn unhex(s: &str) -> Option<String> {
    if s == "-" {
        return Some(String::new());
    }
    let b: Option<Vec<u8>> =
        (0..s.len()).step_by(2).map(|i| u8::from_str_radix(s.get(i..i + 2)?, 16).ok()).collect();
    String::from_utf8(b?).ok()
}

pub fn par_flags(o: &ParOpts) -> String {
    [o.lalr, o.line_comment, o.block_comment, o.allow_unmatched, o.auto_newline_off, o.auto_ws_off, o.skip_x]
        .iter()
        .map(|b| if *b { '1' } else { '0' })
        .collect()
}
pub fn parse_par_flags(s: &str) -> Option<ParOpts> {
    let b: Vec<bool> = s.chars().map(|c| c == '1').collect();
    if b.len() != 7 {
        return None;
    }
    Some(ParOpts {
        lalr: b[0],
        line_comment: b[1],
        block_comment: b[2],
        allow_unmatched: b[3],
        auto_newline_off: b[4],
        auto_ws_off: b[5],
        skip_x: b[6],
    })
}

thread_local! {
    static CACHE: RefCell<HashMap<String, Option<&'static Built>>> = RefCell::new(HashMap::new());
}

pub fn cached_build(par: &str, k: usize) -> Option<&'static Built> {
    let key = format!("{k}\n{par}");
    CACHE.with(|c| {
        let mut c = c.borrow_mut();
        if let Some(b) = c.get(&key) {
            return *b;
        }
        let b = std::panic::catch_unwind(|| build(par, k)).ok().and_then(|r| r.ok()).map(|b| &*Box::leak(Box::new(b)));
        c.insert(key, b);
        b
    })
}

pub fn parse_opts(bits: &str, depth: &str) -> Option<Opts> {
    let b: Vec<char> = bits.chars().collect();
    if b.len() != 2 {
        return None;
    }
    Some(Opts {
        trim: b[0] == '1',
        recovery: b[1] == '1',
        max_depth: if depth == "-" { None } else { Some(depth.parse().ok()?) },
    })
}

pub fn run_case(w: &[&str]) -> Option<String> {
    if w.len() < 13 || w[0] != "ll" {
        return None;
    }
    let opts = parse_opts(w[4], w[5])?;
    let g = Gram::parse(w[7], w[8])?;
    let k: usize = w[10].parse().ok()?;
    let po = parse_par_flags(w[11])?;
    let text = unhex(w[12])?;
    let par = par_text(&g, &po);
    let b = cached_build(&par, k)?;
    let toks = b.tokens(&text, 1).ok()?;
    let r = b.run(&text, &opts);
    Some(show_run(b, &toks, &opts, &r))
}

pub struct GenParams {
    pub grammars: usize,
    pub max_k: usize,
    pub exhaustive_len: usize,
    pub exhaustive_cap: usize,
    pub sentences: usize,
    pub styled: bool,
    pub all_opts: bool,
    /// inputs are random character soup and garbled sentences (robustness, C19)
    pub junk: bool,
    /// keep cyclic LALR(1) grammars (the real LR parser may not terminate on them: finding F24)
    pub keep_cyclic: bool,
}

fn opts_cycle(i: usize, all: bool) -> Vec<Opts> {
    let depths = [None, Some(2usize), Some(6), Some(1000)];
    if all {
        let mut v = vec![];
        for trim in [false, true] {
            for recovery in [false, true] {
                for d in depths {
                    v.push(Opts { trim, recovery, max_depth: d });
                }
            }
        }
        v
    } else {
        vec![Opts { trim: i % 7 == 3, recovery: i % 2 == 1, max_depth: if i % 11 == 5 { Some(3) } else { None } }]
    }
}

pub fn gen_cases(seed: u64, p: &GenParams, lalr: bool) -> Vec<String> {
    let mut rng = Rng::new(seed ^ 0x11AA);
    let mut out = vec![];
    let mut accepted = 0;
    let mut attempts = 0;
    let mut seen = std::collections::HashSet::new();
    let mut simple = 0; // grammars whose automata all have k <= 1
    while accepted < p.grammars && attempts < p.grammars * 60 {
        attempts += 1;
        let gc = GenCfg {
            max_nts: rng.range(1, 4),
            max_terms: rng.range(1, 3),
            max_prods_per_nt: 3,
            max_rhs: rng.range(1, 3),
            nt_bias: rng.range(2, 5),
            allow_undefined: false,
        };
        let g = if lalr || rng.chance(1, 3) { random_gram(&mut rng, &gc) } else { random_ll_gram(&mut rng, &gc) };
        if !seen.insert(g.show()) {
            continue;
        }
        if p.keep_cyclic && !g.has_cycle() {
            continue;
        }
        if lalr && g.has_cycle() && !p.keep_cyclic {
            continue; // F24: the generated LR parser may not terminate on cyclic grammars (C19 handles it)
        }
        let po = ParOpts {
            lalr,
            line_comment: p.styled,
            block_comment: p.styled,
            allow_unmatched: p.styled && rng.chance(1, 4),
            skip_x: p.styled && rng.chance(1, 2),
            ..Default::default()
        };
        let par = par_text(&g, &po);
        let k = rng.range(1, p.max_k);
        let b = match cached_build(&par, k) {
            Some(b) => b,
            None => continue,
        };
        if let Tables::LL { max_k, .. } = &b.tables {
            if *max_k <= 1 {
                // at most 40 % of the grammars may be LL(1)
                if simple * 5 >= p.grammars * 2 {
                    continue;
                }
                simple += 1;
            }
        }
        accepted += 1;
        let tables = if lalr { crate::lrrun::enc_lr_tables(b) } else { enc_ll_tables(b) };
        let tables = match tables {
            Some(t) => t,
            None => continue,
        };
        let tprods = enc_tprods(b);
        let terms = g.terminals();
        let mut alpha = terms.clone();
        alpha.push(99);
        let mut ws = all_strings(&alpha, p.exhaustive_len, p.exhaustive_cap);
        for _ in 0..p.sentences {
            if let Some(s) = random_sentence(&g, &mut rng, 12) {
                ws.push(mutate(&s, &terms, &mut rng));
                if rng.chance(1, 2) {
                    let m = mutate(&s, &terms, &mut rng);
                    ws.push(mutate(&m, &terms, &mut rng));
                }
                ws.push(s);
            }
        }
        if p.junk {
            ws.truncate(p.exhaustive_cap / 4);
        }
        for (i, w) in ws.iter().enumerate() {
            let style = if p.styled && i % 2 == 1 { 1 } else { 0 };
            let mut text = render_text(w, style, &po, &mut rng);
            if p.junk && i % 3 != 0 {
                text = junk_text(&text, &mut rng);
            }
            let toks = match b.tokens(&text, 1) {
                Ok(t) => t,
                Err(_) => continue,
            };
            if lalr && !p.keep_cyclic && !crate::lrrun::lr_sim_terminates(b, &toks, 20_000) {
                continue; // F24 on a non-cyclic grammar (hidden left recursion resolved toward the empty reduction)
            }
            for o in opts_cycle(i, p.all_opts) {
                out.push(format!(
                    "{} {} {} {} {} {} {} {} {} {} {}",
                    if lalr { "lr" } else { "ll" },
                    tables,
                    enc_opts(&o),
                    enc_tokens(&toks),
                    g.show(),
                    show_nats(w),
                    k,
                    par_flags(&po),
                    hex(&text),
                    tprods,
                    b.lr_conflicts
                ));
            }
        }
    }
    out
}

/// Garbles a text: random insertions of arbitrary characters (ASCII punctuation, digits, control
/// characters, multi-byte characters), deletions, duplications, or pure character soup.
pub fn junk_text(text: &str, rng: &mut Rng) -> String {
    let pool: Vec<char> = "abcxyz019 \t\n\r!\"#$%&'()*+,-./:;<=>?@[\\]^_`{|}~\u{0}\u{7f}\u{e4}\u{20ac}\u{1F600}".chars().collect();
    if rng.chance(1, 4) {
        let n = rng.range(0, 24);
        return (0..n).map(|_| pool[rng.below(pool.len())]).collect();
    }
    let mut cs: Vec<char> = text.chars().collect();
    for _ in 0..rng.range(1, 4) {
        match rng.below(3) {
            0 => {
                let i = rng.below(cs.len() + 1);
                cs.insert(i, pool[rng.below(pool.len())]);
            }
            1 if !cs.is_empty() => {
                let i = rng.below(cs.len());
                cs.remove(i);
            }
            _ if !cs.is_empty() => {
                let i = rng.below(cs.len());
                let c = cs[i];
                cs.insert(i, c);
            }
            _ => {}
        }
    }
    cs.into_iter().collect()
}

pub fn generate(seed: u64, thorough: bool, mode: &str) -> Vec<String> {
    let p = match (mode, thorough) {
        ("junk", false) => GenParams { grammars: 50, max_k: 3, exhaustive_len: 3, exhaustive_cap: 80, sentences: 12, styled: true, all_opts: false, junk: true, keep_cyclic: false },
        ("junk", true) => GenParams { grammars: 600, max_k: 4, exhaustive_len: 4, exhaustive_cap: 240, sentences: 30, styled: true, all_opts: false, junk: true, keep_cyclic: false },
        ("opts", false) => GenParams { grammars: 25, max_k: 2, exhaustive_len: 3, exhaustive_cap: 40, sentences: 6, styled: true, all_opts: true, junk: false, keep_cyclic: false },
        ("opts", true) => GenParams { grammars: 150, max_k: 3, exhaustive_len: 4, exhaustive_cap: 120, sentences: 12, styled: true, all_opts: true, junk: false, keep_cyclic: false },
        ("styled", false) => GenParams { grammars: 60, max_k: 2, exhaustive_len: 3, exhaustive_cap: 60, sentences: 10, styled: true, all_opts: false, junk: false, keep_cyclic: false },
        ("styled", true) => GenParams { grammars: 500, max_k: 3, exhaustive_len: 4, exhaustive_cap: 200, sentences: 20, styled: true, all_opts: false, junk: false, keep_cyclic: false },
        (_, false) => GenParams { grammars: 120, max_k: 3, exhaustive_len: 4, exhaustive_cap: 150, sentences: 10, styled: false, all_opts: false, junk: false, keep_cyclic: false },
        (_, true) => GenParams { grammars: 1500, max_k: 4, exhaustive_len: 6, exhaustive_cap: 1500, sentences: 30, styled: false, all_opts: false, junk: false, keep_cyclic: false },
    };
    gen_cases(seed, &p, false)
}

pub fn cli(args: &[String]) {
    let mode = args.get(3).cloned().unwrap_or_else(|| "plain".to_string());
    standard_cli(args, move |s, t| generate(s, t, &mode), run_case)
}
