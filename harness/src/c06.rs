//! C06: FIRST_k / FOLLOW_k. Drives the real public `first_k`, `follow_k`, `FirstCache::get`,
//! `FollowCache::get` on grammars built via `cfgenc`, prints `KTuples` as sorted lists of token-id
//! lists (ε-tuple = `e`, end of input = 0, user terminals by the numeric id in their text `t<n>`).
use crate::cfgenc::{t_index, Gram, Sym};
use crate::rng::Rng;
use crate::util::*;
use parol::analysis::compiled_terminal::EPS;
use parol::analysis::{first_k, follow_k, FirstCache, FollowCache, FirstSet, FollowSet};
use parol::{GrammarConfig, KTuples};
use std::collections::BTreeSet;

/// parol terminal index -> protocol id (index 0 = EOI stays 0; user terminals start at 5 in
/// first-occurrence order and are mapped back through their text `t<n>`).
pub struct TermMap(pub Vec<usize>);

impl TermMap {
    pub fn new(gc: &GrammarConfig) -> Option<TermMap> {
        let mut v = vec![];
        for (t, _, _, _) in gc.cfg.get_ordered_terminals() {
            v.push(t_index(t)?);
        }
        Some(TermMap(v))
    }
    pub fn id(&self, ti: usize) -> usize {
        if ti == 0 {
            0
        } else if ti >= 5 && ti - 5 < self.0.len() {
            self.0[ti - 5]
        } else {
            // reserved indices 1..4 or out of range: must not occur; made visible in the reply
            900_000 + ti
        }
    }
}

pub fn tuples_of(set: &KTuples, tm: &TermMap) -> Vec<Vec<usize>> {
    let mut v: Vec<Vec<usize>> = set
        .sorted()
        .iter()
        .map(|t| {
            t.terminals()
                .iter()
                .filter(|x| *x != EPS)
                .map(|x| tm.id(x as usize))
                .collect::<Vec<usize>>()
        })
        .collect();
    v.sort();
    v.dedup();
    v
}

pub fn show_tuple(t: &[usize]) -> String {
    if t.is_empty() {
        "e".into()
    } else {
        t.iter().map(|x| x.to_string()).collect::<Vec<_>>().join(",")
    }
}

pub fn show_set(v: &[Vec<usize>]) -> String {
    if v.is_empty() {
        "-".into()
    } else {
        v.iter().map(|t| show_tuple(t)).collect::<Vec<_>>().join(";")
    }
}

pub fn show_ktuples(set: &KTuples, tm: &TermMap) -> String {
    show_set(&tuples_of(set, tm))
}

fn join_or_dash(v: Vec<String>) -> String {
    if v.is_empty() {
        "-".into()
    } else {
        v.join("|")
    }
}

/// non-terminal ids in parol's non-terminal index order
pub fn nt_ids(gc: &GrammarConfig) -> Option<Vec<usize>> {
    gc.cfg.get_non_terminal_set().iter().map(|n| crate::cfgenc::nt_index(n)).collect()
}

pub fn show_first(fs: &FirstSet, gc: &GrammarConfig, tm: &TermMap) -> Option<String> {
    let nts = nt_ids(gc)?;
    if nts.len() != fs.non_terminals.len() {
        return Some("shape-mismatch".into());
    }
    let p = join_or_dash(fs.productions.iter().map(|s| show_ktuples(s, tm)).collect());
    let n = join_or_dash(
        nts.iter().zip(fs.non_terminals.iter()).map(|(a, s)| format!("{}={}", a, show_ktuples(s, tm))).collect(),
    );
    Some(format!("{p} {n}"))
}

pub fn show_follow_nts(fs: &FollowSet, gc: &GrammarConfig, tm: &TermMap) -> Option<String> {
    let nts = nt_ids(gc)?;
    if nts.len() != fs.non_terminals.len() {
        return Some("shape-mismatch".into());
    }
    Some(join_or_dash(
        nts.iter().zip(fs.non_terminals.iter()).map(|(a, s)| format!("{}={}", a, show_ktuples(s, tm))).collect(),
    ))
}

pub fn config_of(g: &Gram, k: usize) -> GrammarConfig {
    GrammarConfig::new(g.to_cfg(), k)
}

#[derive(Clone, Debug, PartialEq)]
pub enum Req {
    First(usize),
    FollowGet(usize),
    FollowDirect(usize),
}

pub fn parse_reqs(s: &str) -> Option<Vec<Req>> {
    if s == "-" {
        return Some(vec![]);
    }
    s.split(',')
        .map(|r| {
            let (c, n) = r.split_at(1);
            let k: usize = n.parse().ok()?;
            if k > parol::MAX_K {
                return None;
            }
            match c {
                "f" => Some(Req::First(k)),
                "w" => Some(Req::FollowGet(k)),
                "W" => Some(Req::FollowDirect(k)),
                _ => None,
            }
        })
        .collect()
}

pub fn show_reqs(r: &[Req]) -> String {
    if r.is_empty() {
        return "-".into();
    }
    r.iter()
        .map(|q| match q {
            Req::First(k) => format!("f{k}"),
            Req::FollowGet(k) => format!("w{k}"),
            Req::FollowDirect(k) => format!("W{k}"),
        })
        .collect::<Vec<_>>()
        .join(",")
}

pub fn run_case(w: &[&str]) -> Option<String> {
    match w {
        ["c06-first", st, ps, k] => {
            let g = Gram::parse(st, ps)?;
            let k: usize = k.parse().ok()?;
            if k > parol::MAX_K || g.prods.is_empty() {
                return None;
            }
            let gc = config_of(&g, k);
            let tm = TermMap::new(&gc)?;
            let cache = FirstCache::new();
            let fs = first_k(&gc, k, &cache);
            Some(format!("ok {}", show_first(&fs, &gc, &tm)?))
        }
        ["c06-follow", st, ps, k] => {
            let g = Gram::parse(st, ps)?;
            let k: usize = k.parse().ok()?;
            if k > parol::MAX_K || g.prods.is_empty() {
                return None;
            }
            let gc = config_of(&g, k);
            let tm = TermMap::new(&gc)?;
            let fc = FirstCache::new();
            let flc = FollowCache::new();
            let (map, fs) = follow_k(&gc, k, &fc, &flc);
            let mut pos: Vec<((usize, usize), String)> =
                map.iter().map(|(p, s)| (p.as_tuple(), show_ktuples(s, &tm))).collect();
            pos.sort();
            let posmap = join_or_dash(pos.iter().map(|((a, b), s)| format!("{a}.{b}={s}")).collect());
            Some(format!("ok {} {}", show_follow_nts(&fs, &gc, &tm)?, posmap))
        }
        ["c06-cache", st, ps, reqs] => {
            let g = Gram::parse(st, ps)?;
            let reqs = parse_reqs(reqs)?;
            if g.prods.is_empty() {
                return None;
            }
            let gc = config_of(&g, parol::MAX_K);
            let tm = TermMap::new(&gc)?;
            let fc = FirstCache::new();
            let flc = FollowCache::new();
            let mut out = vec![];
            for r in &reqs {
                match r {
                    Req::First(k) => {
                        let e = fc.get(*k, &gc);
                        let s = show_first(&e.borrow(), &gc, &tm)?;
                        out.push(s.replace(' ', "#"));
                    }
                    Req::FollowGet(k) => {
                        // fields of CacheEntry are crate-private: the effect is observed through later requests
                        let _ = flc.get(*k, &gc, &fc);
                        out.push("-".to_string());
                    }
                    Req::FollowDirect(k) => {
                        let (map, fs) = follow_k(&gc, *k, &fc, &flc);
                        let mut pos: Vec<((usize, usize), String)> =
                            map.iter().map(|(p, s)| (p.as_tuple(), show_ktuples(s, &tm))).collect();
                        pos.sort();
                        let posmap = join_or_dash(pos.iter().map(|((a, b), s)| format!("{a}.{b}={s}")).collect());
                        out.push(format!("{}#{}", show_follow_nts(&fs, &gc, &tm)?, posmap));
                    }
                }
            }
            Some(format!("ok {}", if out.is_empty() { "-".to_string() } else { out.join("/") }))
        }
        _ => None,
    }
}

// ---------------------------------------------------------------------------------------------
// grammar class (own computation; the real parol checks are applied in addition)

pub fn nullable_set(g: &Gram) -> BTreeSet<usize> {
    let mut s = BTreeSet::new();
    loop {
        let mut ch = false;
        for (l, r) in &g.prods {
            if !s.contains(l) && r.iter().all(|x| matches!(x, Sym::N(a) if s.contains(a))) {
                s.insert(*l);
                ch = true;
            }
        }
        if !ch {
            return s;
        }
    }
}

pub fn productive_set(g: &Gram) -> BTreeSet<usize> {
    let mut s = BTreeSet::new();
    loop {
        let mut ch = false;
        for (l, r) in &g.prods {
            if !s.contains(l) && r.iter().all(|x| match x {
                Sym::T(_) => true,
                Sym::N(a) => s.contains(a),
            }) {
                s.insert(*l);
                ch = true;
            }
        }
        if !ch {
            return s;
        }
    }
}

pub fn reachable_set(g: &Gram) -> BTreeSet<usize> {
    let mut s = BTreeSet::new();
    s.insert(g.start);
    loop {
        let mut ch = false;
        for (l, r) in &g.prods {
            if s.contains(l) {
                for x in r {
                    if let Sym::N(a) = x {
                        ch |= s.insert(*a);
                    }
                }
            }
        }
        if !ch {
            return s;
        }
    }
}

/// left recursion including nullable-hidden: A can-start-with⁺ A
pub fn left_recursive(g: &Gram) -> bool {
    let nul = nullable_set(g);
    let nts = g.nts();
    let mut rel: BTreeSet<(usize, usize)> = BTreeSet::new();
    for (l, r) in &g.prods {
        for x in r {
            match x {
                Sym::T(_) => break,
                Sym::N(a) => {
                    rel.insert((*l, *a));
                    if !nul.contains(a) {
                        break;
                    }
                }
            }
        }
    }
    loop {
        let mut add = vec![];
        for (a, b) in &rel {
            for c in &nts {
                if rel.contains(&(*b, *c)) && !rel.contains(&(*a, *c)) {
                    add.push((*a, *c));
                }
            }
        }
        if add.is_empty() {
            break;
        }
        rel.extend(add);
    }
    nts.iter().any(|a| rel.contains(&(*a, *a)))
}

/// productive, reachable, free of (hidden) left recursion — by own computation AND by parol's checks
pub fn in_class(g: &Gram) -> bool {
    let nts: BTreeSet<usize> = g.nts().into_iter().collect();
    if g.prods.is_empty() || productive_set(g) != nts || reachable_set(g) != nts || left_recursive(g) {
        return false;
    }
    let cfg = g.to_cfg();
    parol::analysis::non_productive_non_terminals(&cfg).is_empty()
        && parol::analysis::unreachable_non_terminals(&cfg).is_empty()
        && parol::analysis::detect_left_recursive_non_terminals(&cfg).is_empty()
}

/// Random grammar of the property's class, biased to nullable non-terminals and shared prefixes.
/// Left-corner non-terminals are drawn from higher indices only, so most candidates pass the filter.
pub fn random_class_gram(rng: &mut Rng, max_nts: usize, max_terms: usize, max_rhs: usize) -> Gram {
    loop {
        let n = rng.range(1, max_nts);
        let nt = rng.range(1, max_terms);
        let mut prods: Vec<(usize, Vec<Sym>)> = vec![];
        for a in 0..n {
            let np = rng.range(1, 3);
            let mut mine: Vec<Vec<Sym>> = vec![];
            for _ in 0..np {
                let mut rhs: Vec<Sym> = vec![];
                if a > 0 && rng.chance(1, 3) || a == 0 && rng.chance(1, 6) {
                    // ε-production (nullable bias)
                } else if !mine.is_empty() && rng.chance(1, 3) {
                    // shared prefix with an earlier alternative
                    let other = rng.pick(&mine).clone();
                    let cut = if other.is_empty() { 0 } else { rng.range(0, other.len()) };
                    rhs.extend(other[..cut].iter().cloned());
                    let extra = rng.range(0, 2);
                    for _ in 0..extra {
                        rhs.push(random_sym(rng, a, n, nt, &rhs));
                    }
                } else {
                    let len = rng.range(1, max_rhs);
                    for _ in 0..len {
                        let s = random_sym(rng, a, n, nt, &rhs);
                        rhs.push(s);
                    }
                }
                mine.push(rhs);
            }
            mine.dedup();
            for r in mine {
                prods.push((a, r));
            }
        }
        if rng.chance(1, 4) && prods.len() > 1 {
            let i = rng.below(prods.len());
            let j = rng.below(prods.len());
            prods.swap(i, j);
        }
        let g = Gram { start: 0, prods };
        if in_class(&g) {
            return g;
        }
    }
}

fn random_sym(rng: &mut Rng, a: usize, n: usize, nt: usize, sofar: &[Sym]) -> Sym {
    let left_corner = sofar.iter().all(|s| matches!(s, Sym::N(_)));
    if rng.chance(1, 2) {
        if left_corner {
            if a + 1 < n {
                return Sym::N(rng.range(a + 1, n - 1));
            }
        } else {
            return Sym::N(rng.range(0, n - 1));
        }
    }
    Sym::T(5 + rng.below(nt))
}

fn random_reqs(rng: &mut Rng, maxk: usize) -> Vec<Req> {
    let mode = rng.below(4);
    let mut v = vec![];
    match mode {
        0 => {
            for k in 0..=maxk {
                v.push(Req::First(k));
                v.push(if rng.chance(1, 2) { Req::FollowGet(k) } else { Req::FollowDirect(k) });
            }
        }
        1 => {
            for k in (0..=maxk).rev() {
                v.push(if rng.chance(1, 2) { Req::FollowGet(k) } else { Req::FollowDirect(k) });
                v.push(Req::First(k));
            }
        }
        2 => {
            let n = rng.range(2, 6);
            for _ in 0..n {
                let k = rng.range(0, maxk);
                v.push(match rng.below(3) {
                    0 => Req::First(k),
                    1 => Req::FollowGet(k),
                    _ => Req::FollowDirect(k),
                });
            }
        }
        _ => {
            let k = rng.range(0, maxk);
            v.push(Req::First(k));
            v.push(Req::FollowGet(k));
            v.push(Req::First(k));
            v.push(Req::FollowDirect(k));
            v.push(Req::FollowDirect(k));
        }
    }
    // every sequence ends with direct observations of what FollowCache::get left behind
    let k = rng.range(0, maxk);
    v.push(Req::FollowDirect(k));
    v
}

/// Hand-picked boundary grammars (always generated first).
pub fn fixed_grams() -> Vec<Gram> {
    let g = |s: &str| Gram::parse("0", s).unwrap();
    vec![
        g("0:t5"),
        g("0:"),
        g("0:n1;1:t5"),
        g("0:n1,t6;1:;1:t5"),
        g("0:n1,n1;1:;1:t5"),
        g("0:t5,n0;0:"),
        g("0:n1,n2;1:;1:t5,t6;2:;2:t6,n2"),
        g("0:t5,t6,t7;0:t5,t6,t5;0:t5,n1;1:t6;1:"),
        g("0:n1,n2,n3;1:;1:t5;2:;2:t6;3:;3:t7"),
        g("0:t5,n1,t5,t5;1:t5;1:"),
    ]
}

pub fn generate(seed: u64, thorough: bool) -> Vec<String> {
    let mut rng = Rng::new(seed ^ 0xC06);
    let mut out = vec![];
    let mut grams = fixed_grams();
    let n = if thorough { 3000 } else { 390 };
    for i in 0..n {
        // size caps: k ≤ 3 with up to 3 terminals; k = 4..6 (thorough) with 2 terminals and ≤ 4 non-terminals
        let big_k = thorough && i % 4 == 3;
        let g = if big_k { random_class_gram(&mut rng, 4, 2, 3) } else { random_class_gram(&mut rng, 5, 3, 4) };
        grams.push(g);
    }
    for (i, g) in grams.iter().enumerate() {
        let big_k = thorough && i >= 10 && (i - 10) % 4 == 3;
        let maxk = if big_k { 6 } else { 3 };
        let gs = g.show();
        for k in 0..=maxk {
            out.push(format!("c06-first {gs} {k}"));
            out.push(format!("c06-follow {gs} {k}"));
        }
        let cmax = if big_k { 4 } else { 3 };
        let reqs = random_reqs(&mut rng, cmax);
        out.push(format!("c06-cache {gs} {}", show_reqs(&reqs)));
        let reqs = random_reqs(&mut rng, cmax.min(2));
        out.push(format!("c06-cache {gs} {}", show_reqs(&reqs)));
    }
    out
}

pub fn cli(args: &[String]) {
    standard_cli(args, generate, run_case)
}
