//! Manual smoke tests of the dynamic parser: `pv smoke <grammar.par> <max_k> <input-text>`.
use crate::dynparse::*;

pub fn cli(args: &[String]) {
    let text = std::fs::read_to_string(&args[0]).expect("grammar file");
    let k: usize = args[1].parse().unwrap();
    match build(&text, k) {
        Err(e) => println!("build error at {}: {}", e.stage, e.msg.lines().next().unwrap_or("")),
        Ok(b) => {
            println!("kind={} start={} nts={:?} ts={:?} conflicts={}", if b.is_ll() { "LL" } else { "LR" }, b.start, b.nt_names, b.t_names, b.lr_conflicts);
            for inp in &args[2..] {
                let o = b.run(inp, &Opts { trim: false, recovery: true, max_depth: None });
                println!("input {:?} -> {} ; actions {:?}", inp, o.result, o.actions.iter().map(|a| a.0).collect::<Vec<_>>());
                println!("  tree: {}", o.tree.iter().map(|e| match e { TreeEv::Open(n) => format!("({n}"), TreeEv::Close => ")".into(), TreeEv::Tok(t) => format!("{:?}", t.text) }).collect::<Vec<_>>().join(" "));
            }
        }
    }
}
