//! C21 — generated parser source and export model encode the analysis faithfully (and the shared
//! machinery of C18).
//!
//! Per grammar THREE independent parser descriptions (`Desc`, wire form of `ParserDesc` in
//! lean/ParolModel/Model/Tables.lean) are produced:
//!  * `desc_analysis` — from the analysis objects: `calculate_lookahead_dfas` /
//!    `calculate_lalr1_parse_table`, `cfg.pr` + `get_terminal_index_function`,
//!    `generate_terminal_names`, `ScannerConfig::generate_build_information`;
//!  * `desc_export`   — from the JSON form of the `ParserExportModel`;
//!  * `desc_source`   — from the TEXT of the generated Rust parser (`generate_lexer_source` +
//!    `generate_parser_source` / `generate_lalr1_parser_source`), read with a small tokenizer and
//!    value parser (`LOOKAHEAD_AUTOMATA`, `PRODUCTIONS`, `PARSE_TABLE`, `TERMINAL_NAMES`,
//!    `NON_TERMINALS`, `SKIP_TOKENS_BY_SCANNER_STATE`, `MAX_K`, the `scanner! { … }` body, the first
//!    argument of `LLKParser::new` / `LRParser::new`).
//! They are compared and range-checked by the Lean oracle `d3-check`.
//!
//! Case line: `d3 <par> <k> <A: 11 words> <M: 11 words> <S: 11 words>` (`<par>` is the `%HH`-escaped
//! PAR text). `run` rebuilds the three descriptions from `<par>` with the real pipeline and answers
//! `same` iff they are reproduced word for word.
use crate::c33::{dec, enc};
use crate::dynparse::{ModeDesc, mode_descs};
use crate::rng::Rng;
use crate::util::*;
use parol::analysis::lalr1_parse_table::{LRAction, LRParseTable};
use parol::analysis::LookaheadDFA;
use parol::generators::grammar_trans::check_and_transform_grammar_with_ignored;
use parol::generators::{GrammarConfig, generate_terminal_names};
use parol::grammar::cfg::{NonTerminalIndexFn, TerminalIndexFn};
use parol::grammar::ProductionAttribute;
use parol::parser::parol_grammar::{GrammarType, ScannerStateSwitch};
use parol::{Cfg, ParolGrammar, Pr, Symbol, Terminal};
use std::collections::{BTreeMap, BTreeSet};

// -------------------------------------------------------------------------------------------------
// descriptions

#[derive(Clone, Debug, PartialEq, Eq)]
pub enum Sym {
    T(usize),
    N(usize),
    Unk,
}

#[derive(Clone, Debug, PartialEq, Eq)]
pub enum Act {
    Shift(usize),
    Reduce(usize, usize),
    Accept,
}

#[derive(Clone, Debug, PartialEq, Eq)]
pub struct Tok {
    pub rx: Option<String>,
    pub ty: usize,
    pub la: Option<(bool, String)>,
}

#[derive(Clone, Debug, PartialEq, Eq)]
pub struct Mode {
    pub name: String,
    pub toks: Vec<Tok>,
    /// (token type, 0 enter / 1 push / 2 pop, target mode)
    pub trans: Vec<(usize, u8, usize)>,
}

#[derive(Clone, Debug, PartialEq, Eq)]
pub struct Auto {
    pub nt: usize,
    pub prod0: i64,
    pub k: usize,
    pub trans: Vec<(usize, usize, usize, i64)>,
}

#[derive(Clone, Debug, PartialEq, Eq)]
pub struct Desc {
    pub ll: bool,
    pub start: usize,
    pub prods: Vec<(usize, Vec<Sym>, bool)>,
    pub autos: Vec<Auto>,
    pub lracts: Vec<Act>,
    pub lrrows: Vec<(Vec<(usize, usize)>, Vec<(usize, usize)>)>,
    pub tnames: Vec<Option<String>>,
    pub ntnames: Vec<String>,
    pub skips: Vec<Vec<usize>>,
    pub modes: Vec<Mode>,
    pub maxk: Option<usize>,
}

fn join_or<T>(v: &[T], sep: &str, f: impl Fn(&T) -> String) -> String {
    if v.is_empty() { "-".to_string() } else { v.iter().map(f).collect::<Vec<_>>().join(sep) }
}

impl Desc {
    /// The eleven words of the wire form (see Model/Tables.lean).
    pub fn enc(&self) -> String {
        let prods = join_or(&self.prods, ";", |(l, r, p)| {
            format!(
                "{}:{}:{}",
                l,
                if *p { 1 } else { 0 },
                r.iter()
                    .map(|s| match s {
                        Sym::T(i) => format!("t{i}"),
                        Sym::N(i) => format!("n{i}"),
                        Sym::Unk => "x".to_string(),
                    })
                    .collect::<Vec<_>>()
                    .join(",")
            )
        });
        let autos = join_or(&self.autos, ";", |a| {
            format!(
                "{}/{}/{}/{}",
                a.nt,
                a.prod0,
                a.k,
                join_or(&a.trans, "+", |t| format!("{}:{}:{}:{}", t.0, t.1, t.2, t.3))
            )
        });
        let lracts = join_or(&self.lracts, ",", |a| match a {
            Act::Shift(s) => format!("S:{s}"),
            Act::Reduce(n, p) => format!("R:{n}:{p}"),
            Act::Accept => "A".to_string(),
        });
        let lrrows = join_or(&self.lrrows, ";", |(a, g)| {
            format!(
                "{}/{}",
                join_or(a, "+", |(t, i)| format!("{t}:{i}")),
                join_or(g, "+", |(n, s)| format!("{n}:{s}"))
            )
        });
        let tnames = join_or(&self.tnames, ",", |n| match n {
            Some(s) => enc(s),
            None => "?".to_string(),
        });
        let ntnames = join_or(&self.ntnames, ",", |n| enc(n));
        let skips = if self.skips.is_empty() {
            "~".to_string()
        } else {
            self.skips.iter().map(|l| show_nats(l)).collect::<Vec<_>>().join(";")
        };
        let modes = join_or(&self.modes, ";", |m| {
            format!(
                "{}|{}|{}",
                enc(&m.name),
                join_or(&m.toks, "+", |t| {
                    format!(
                        "{}:{}:{}",
                        t.rx.as_ref().map(|r| enc(r)).unwrap_or("?".to_string()),
                        t.ty,
                        match &t.la {
                            None => "-".to_string(),
                            Some((true, p)) => format!("p.{}", enc(p)),
                            Some((false, p)) => format!("n.{}", enc(p)),
                        }
                    )
                }),
                join_or(&m.trans, "+", |(ty, k, tg)| match k {
                    0 => format!("{ty}:e:{tg}"),
                    1 => format!("{ty}:u:{tg}"),
                    _ => format!("{ty}:o"),
                })
            )
        });
        let maxk = self.maxk.map(|k| k.to_string()).unwrap_or("?".to_string());
        format!(
            "{} {} {} {} {} {} {} {} {} {} {}",
            if self.ll { "ll" } else { "lr" },
            self.start,
            prods,
            autos,
            lracts,
            lrrows,
            tnames,
            ntnames,
            skips,
            modes,
            maxk
        )
    }
}

/// A description that could not be produced: eleven words the Lean side refuses (`bad-op`).
pub fn err_desc(why: &str) -> String {
    format!("err {} - - - - - - - - -", enc(why))
}

pub fn enc_desc(d: &Result<Desc, String>) -> String {
    match d {
        Ok(d) => d.enc(),
        Err(e) => err_desc(e),
    }
}

// -------------------------------------------------------------------------------------------------
// the real pipeline

#[derive(Clone, Debug, Default)]
pub struct Directives {
    /// (primary non-terminal, 0 enter / 1 push / 2 pop, target scanner name)
    pub trans: Vec<(String, u8, String)>,
    pub skips: Vec<String>,
}

pub struct Pipe {
    pub gc: GrammarConfig,
    /// the grammar before `check_and_transform_grammar` (what `GrammarConfig::try_from` resolved `%on` / `%skip` on)
    pub pre_cfg: Cfg,
    pub dfas: Option<BTreeMap<String, LookaheadDFA>>,
    pub table: Option<LRParseTable>,
    pub conflicts: usize,
    /// `%on` / `%skip` directives per scanner state as written in the PAR text
    pub directives: Vec<Directives>,
}

/// parse → `GrammarConfig` → check + transform → lookahead automata / LALR(1) table, as
/// `parol::build` does it (`check_and_transform_grammar_with_ignored`, `update_lookahead_size`).
pub fn pipeline(par: &str, max_k: usize) -> Result<Pipe, String> {
    let mut pg = ParolGrammar::new();
    parol::parse(par, "No file", &mut pg).map_err(|_| "parse".to_string())?;
    let directives: Vec<Directives> = pg
        .scanner_configurations
        .iter()
        .map(|sc| Directives {
            trans: sc
                .transitions
                .iter()
                .map(|(tok, sw)| match sw {
                    ScannerStateSwitch::Switch(m, _) => (tok.text().to_string(), 0u8, m.clone()),
                    ScannerStateSwitch::SwitchPush(m, _) => (tok.text().to_string(), 1u8, m.clone()),
                    ScannerStateSwitch::SwitchPop(_) => (tok.text().to_string(), 2u8, String::new()),
                })
                .collect(),
            skips: sc.skip.iter().map(|t| t.text().to_string()).collect(),
        })
        .collect();
    let mut gc = GrammarConfig::try_from(pg).map_err(|_| "convert".to_string())?;
    let ignored: BTreeSet<String> = gc.unreachable_non_terminals_to_ignore.iter().cloned().collect();
    let cfg = check_and_transform_grammar_with_ignored(&gc.cfg, gc.grammar_type, &ignored)
        .map_err(|_| "check".to_string())?;
    let pre_cfg = gc.cfg.clone();
    gc.update_cfg(cfg);
    match gc.grammar_type {
        GrammarType::LLK => {
            let dfas = parol::calculate_lookahead_dfas(&gc, max_k).map_err(|_| "lookahead".to_string())?;
            let k = dfas.values().map(|d| d.k).max().unwrap_or(0);
            gc.update_lookahead_size(k);
            Ok(Pipe { gc, pre_cfg, dfas: Some(dfas), table: None, conflicts: 0, directives })
        }
        GrammarType::LALR1 => {
            let (table, conflicts) = parol::calculate_lalr1_parse_table(&gc).map_err(|_| "lalr".to_string())?;
            gc.update_lookahead_size(1);
            Ok(Pipe { gc, pre_cfg, dfas: None, table: Some(table), conflicts: conflicts.len(), directives })
        }
    }
}

// -------------------------------------------------------------------------------------------------
// (1) from the analysis objects

/// The real `CompiledDFA::from_lookahead_dfa` (crate-private) reached through the export model of a
/// one-non-terminal carrier grammar: compilation (minimisation) of the automaton is the subject of
/// C07; name → index mapping, order and position stay independent of the export of the real grammar.
fn compile_dfa(dfa: &LookaheadDFA) -> Result<(i64, usize, Vec<(usize, usize, usize, i64)>), String> {
    let cfg = Cfg::with_start_symbol("N00").add_pr(Pr::new("N00", vec![]));
    let gc = GrammarConfig::new(cfg, 1);
    let mut m = BTreeMap::new();
    m.insert("N00".to_string(), dfa.clone());
    let model = parol::generators::generate_parser_export_model(&gc, &m).map_err(|_| "carrier-export".to_string())?;
    let a = model.lookahead_automata.first().ok_or("carrier-export-empty")?;
    Ok((
        a.prod0 as i64,
        a.k,
        a.transitions.iter().map(|t| (t.from_state, t.term as usize, t.to_state, t.prod_num as i64)).collect(),
    ))
}

fn modes_of(descs: Vec<ModeDesc>) -> Vec<Mode> {
    descs
        .into_iter()
        .map(|m| Mode {
            name: m.name,
            toks: m.patterns.into_iter().map(|(rx, ty, la)| Tok { rx: Some(rx), ty, la }).collect(),
            trans: m.transitions,
        })
        .collect()
}

pub fn desc_analysis(p: &Pipe) -> Result<Desc, String> {
    let cfg = &p.gc.cfg;
    let ntnames: Vec<String> = cfg.get_non_terminal_set().into_iter().collect();
    let nti = cfg.get_non_terminal_index_function();
    let ti = cfg.get_terminal_index_function();
    let start = nti.non_terminal_index(cfg.get_start_symbol());
    let mut prods = vec![];
    for pr in &cfg.pr {
        let mut rhs = vec![];
        for s in pr.get_r() {
            match s {
                Symbol::N(n, ..) => rhs.push(Sym::N(nti.non_terminal_index(n))),
                Symbol::T(Terminal::Trm(t, k, _, _, _, _, l)) => rhs.push(Sym::T(ti.terminal_index(t, *k, l) as usize)),
                _ => return Err("analysis: unexpected symbol".into()),
            }
        }
        prods.push((nti.non_terminal_index(pr.get_n_str()), rhs, pr.2 == ProductionAttribute::AddToCollection));
    }
    let mut autos = vec![];
    let mut lracts = vec![];
    let mut lrrows = vec![];
    if let Some(dfas) = &p.dfas {
        for (i, n) in ntnames.iter().enumerate() {
            if let Some(d) = dfas.get(n) {
                let (prod0, k, trans) = compile_dfa(d)?;
                autos.push(Auto { nt: i, prod0, k, trans });
            }
        }
    }
    if let Some(t) = &p.table {
        for st in &t.states {
            let mut acts = vec![];
            for (term, a) in &st.actions {
                acts.push((*term as usize, lracts.len()));
                lracts.push(match a {
                    LRAction::Shift(s) => Act::Shift(*s),
                    LRAction::Reduce(n, pr) => Act::Reduce(*n, *pr),
                    LRAction::Accept => Act::Accept,
                });
            }
            lrrows.push((acts, st.gotos.iter().map(|(n, s)| (*n, *s)).collect()));
        }
    }
    let tnames = generate_terminal_names(&p.gc).into_iter().map(Some).collect();
    let skips = p
        .gc
        .scanner_configurations
        .iter()
        .map(|sc| sc.skip_tokens.iter().map(|t| *t as usize).collect())
        .collect();
    let modes = modes_of(mode_descs(&p.gc)?);
    Ok(Desc {
        ll: p.dfas.is_some(),
        start,
        prods,
        autos,
        lracts,
        lrrows,
        tnames,
        ntnames,
        skips,
        modes,
        maxk: Some(p.gc.lookahead_size),
    })
}

// -------------------------------------------------------------------------------------------------
// (2) from the JSON export model

fn ju(v: &serde_json::Value, what: &str) -> Result<usize, String> {
    v.as_u64().map(|x| x as usize).ok_or(format!("export: {what} is not a number"))
}
fn ji(v: &serde_json::Value, what: &str) -> Result<i64, String> {
    v.as_i64().ok_or(format!("export: {what} is not a number"))
}
fn ja<'a>(v: &'a serde_json::Value, what: &str) -> Result<&'a Vec<serde_json::Value>, String> {
    v.as_array().ok_or(format!("export: {what} is not a list"))
}
fn js(v: &serde_json::Value, what: &str) -> Result<String, String> {
    v.as_str().map(|s| s.to_string()).ok_or(format!("export: {what} is not a string"))
}
fn jb(v: &serde_json::Value, what: &str) -> Result<bool, String> {
    v.as_bool().ok_or(format!("export: {what} is not a bool"))
}

pub fn export_json(p: &Pipe) -> Result<serde_json::Value, String> {
    let model = match (&p.dfas, &p.table) {
        (Some(d), _) => parol::generators::generate_parser_export_model(&p.gc, d),
        (_, Some(t)) => parol::generators::generate_lalr1_parser_export_model(&p.gc, t),
        _ => return Err("export: no analysis result".into()),
    }
    .map_err(|_| "export: generation failed".to_string())?;
    serde_json::to_value(&model).map_err(|_| "export: not serialisable".to_string())
}

pub fn desc_export(p: &Pipe) -> Result<Desc, String> {
    desc_of_export(&export_json(p)?)
}

pub fn desc_of_export(v: &serde_json::Value) -> Result<Desc, String> {
    use parol_runtime::lexer::{ERROR_TOKEN, NEW_LINE_TOKEN, WHITESPACE_TOKEN};
    let ll = match v["algorithm"].as_str() {
        Some("Llk") => true,
        Some("Lalr1") => false,
        _ => return Err("export: algorithm".into()),
    };
    let ntnames: Vec<String> =
        ja(&v["non_terminal_names"], "non_terminal_names")?.iter().map(|n| js(n, "name")).collect::<Result<_, _>>()?;
    let start = ju(&v["start_symbol_index"], "start_symbol_index")?;
    let dts = ja(&v["production_datatypes"], "production_datatypes")?;
    let mut prods = vec![];
    for (i, pr) in ja(&v["productions"], "productions")?.iter().enumerate() {
        if ju(&pr["production_index"], "production_index")? != i {
            return Err(format!("export: production {i} carries another index"));
        }
        let mut rhs = vec![];
        for s in ja(&pr["rhs"], "rhs")? {
            if let Some(n) = s.get("NonTerminal") {
                rhs.push(Sym::N(ju(n, "NonTerminal")?));
            } else if let Some(t) = s.get("Terminal") {
                rhs.push(Sym::T(ju(&t["index"], "Terminal.index")?));
            } else {
                return Err("export: production symbol".into());
            }
        }
        let dt = dts.get(i).ok_or(format!("export: no datatype for production {i}"))?;
        if ju(&dt["production_index"], "datatype.production_index")? != i {
            return Err(format!("export: datatype {i} carries another index"));
        }
        let push = js(&dt["production_attribute"], "production_attribute")? == "AddToCollection";
        prods.push((ju(&pr["lhs_index"], "lhs_index")?, rhs, push));
    }
    let mut autos = vec![];
    for a in ja(&v["lookahead_automata"], "lookahead_automata")? {
        let mut trans = vec![];
        for t in ja(&a["transitions"], "transitions")? {
            trans.push((
                ju(&t["from_state"], "from_state")?,
                ju(&t["term"], "term")?,
                ju(&t["to_state"], "to_state")?,
                ji(&t["prod_num"], "prod_num")?,
            ));
        }
        let nt = ju(&a["non_terminal_index"], "non_terminal_index")?;
        if ntnames.get(nt) != Some(&js(&a["non_terminal_name"], "non_terminal_name")?) {
            return Err(format!("export: automaton {nt} carries the name of another non-terminal"));
        }
        autos.push(Auto { nt, prod0: ji(&a["prod0"], "prod0")?, k: ju(&a["k"], "k")?, trans });
    }
    let mut lracts = vec![];
    let mut lrrows = vec![];
    if !v["lalr_parse_table"].is_null() {
        let t = &v["lalr_parse_table"];
        for a in ja(&t["actions"], "actions")? {
            if a.as_str() == Some("Accept") {
                lracts.push(Act::Accept);
            } else if let Some(s) = a.get("Shift") {
                lracts.push(Act::Shift(ju(s, "Shift")?));
            } else if let Some(r) = a.get("Reduce") {
                let r = ja(r, "Reduce")?;
                if r.len() != 2 {
                    return Err("export: Reduce".into());
                }
                lracts.push(Act::Reduce(ju(&r[0], "Reduce.0")?, ju(&r[1], "Reduce.1")?));
            } else {
                return Err("export: action".into());
            }
        }
        let pair = |x: &serde_json::Value| -> Result<(usize, usize), String> {
            let x = ja(x, "pair")?;
            if x.len() != 2 {
                return Err("export: pair".into());
            }
            Ok((ju(&x[0], "pair.0")?, ju(&x[1], "pair.1")?))
        };
        for st in ja(&t["states"], "states")? {
            let acts = ja(&st["actions"], "state.actions")?.iter().map(pair).collect::<Result<_, _>>()?;
            let gotos = ja(&st["gotos"], "state.gotos")?.iter().map(pair).collect::<Result<_, _>>()?;
            lrrows.push((acts, gotos));
        }
    }
    let terms = ja(&v["scanner"]["terminals"], "scanner.terminals")?;
    let states = ja(&v["scanner"]["scanner_states"], "scanner.scanner_states")?;
    let n = terms.len();
    let mut skips = vec![];
    let mut modes = vec![];
    for (s, st) in states.iter().enumerate() {
        if ju(&st["scanner_state"], "scanner_state")? != s {
            return Err(format!("export: scanner state {s} carries another number"));
        }
        skips.push(ja(&st["skip_tokens"], "skip_tokens")?.iter().map(|x| ju(x, "skip token")).collect::<Result<_, _>>()?);
        // The token list of the mode is DERIVED from the flags of the state and the terminal list (the
        // export model has no per-mode list and no comment regexes): order as in a generated scanner.
        let mut toks = vec![];
        if jb(&st["auto_newline"], "auto_newline")? {
            toks.push(Tok { rx: Some(NEW_LINE_TOKEN.to_string()), ty: 1, la: None });
        }
        if jb(&st["auto_ws"], "auto_ws")? {
            toks.push(Tok { rx: Some(WHITESPACE_TOKEN.to_string()), ty: 2, la: None });
        }
        if !ja(&st["line_comments"], "line_comments")?.is_empty() {
            toks.push(Tok { rx: None, ty: 3, la: None });
        }
        if !ja(&st["block_comments"], "block_comments")?.is_empty() {
            toks.push(Tok { rx: None, ty: 4, la: None });
        }
        for t in terms {
            let in_state = ja(&t["scanner_states"], "scanner_states")?.iter().any(|x| x.as_u64() == Some(s as u64));
            if in_state {
                let la = if t["lookahead"].is_null() {
                    None
                } else {
                    Some((
                        jb(&t["lookahead"]["is_positive"], "is_positive")?,
                        js(&t["lookahead"]["expanded_pattern"], "lookahead.expanded_pattern")?,
                    ))
                };
                toks.push(Tok { rx: Some(js(&t["expanded_pattern"], "expanded_pattern")?), ty: ju(&t["index"], "index")?, la });
            }
        }
        if !jb(&st["allow_unmatched"], "allow_unmatched")? {
            toks.push(Tok { rx: Some(ERROR_TOKEN.to_string()), ty: 5 + n, la: None });
        }
        let mut trans = vec![];
        for tr in ja(&st["transitions"], "transitions")? {
            let ty = ju(&tr["terminal_index"], "terminal_index")?;
            let kind = match tr["kind"].as_str() {
                Some("Enter") => 0u8,
                Some("Push") => 1,
                Some("Pop") => 2,
                _ => return Err("export: transition kind".into()),
            };
            let target = if kind == 2 {
                0
            } else {
                let tg = ju(&tr["target_scanner_state"], "target_scanner_state")?;
                let name = js(&tr["target_scanner_name"], "target_scanner_name")?;
                if states.get(tg).and_then(|x| x["scanner_name"].as_str()) != Some(name.as_str()) {
                    return Err(format!("export: transition target {tg} is not the state named {name}"));
                }
                tg
            };
            trans.push((ty, kind, target));
        }
        modes.push(Mode { name: js(&st["scanner_name"], "scanner_name")?, toks, trans });
    }
    Ok(Desc {
        ll,
        start,
        prods,
        autos,
        lracts,
        lrrows,
        tnames: vec![None; n + 6],
        ntnames,
        skips,
        modes,
        maxk: None,
    })
}

// -------------------------------------------------------------------------------------------------
// (3) from the text of the generated parser

/// parser source text produced by the real generators (no rustfmt)
pub fn generate_source(p: &Pipe) -> Result<String, String> {
    use parol::build::Builder;
    let mut builder = Builder::with_explicit_output_dir(std::env::temp_dir());
    builder.user_type_name("Gr").user_trait_module_name("gr");
    let lexer = parol::generators::generate_lexer_source(&p.gc, &builder).map_err(|_| "source: lexer generation failed".to_string())?;
    match (&p.dfas, &p.table) {
        (Some(d), _) => parol::generators::generate_parser_source(&p.gc, &lexer, &builder, d, true),
        (_, Some(t)) => parol::generators::generate_lalr1_parser_source(&p.gc, &lexer, &builder, t, true),
        _ => return Err("source: no analysis result".into()),
    }
    .map_err(|_| "source: parser generation failed".to_string())
}

#[derive(Clone, Debug, PartialEq)]
pub enum RTok {
    Id(String),
    Num(String),
    Str(String),
    Raw(String),
    Cmt(String),
    P(String),
}

/// Tokens of Rust source text as far as generated parsers need them: identifiers, decimal numbers,
/// `"…"` strings (escapes resolved), `r#"…"#` raw strings, nested block comments (kept), line
/// comments (dropped), lifetimes / char literals (dropped), punctuation (`::`, `=>`, `->` joined).
pub fn rust_tokens(src: &str) -> Result<Vec<RTok>, String> {
    let cs: Vec<char> = src.chars().collect();
    let n = cs.len();
    let mut i = 0;
    let mut out = vec![];
    while i < n {
        let c = cs[i];
        if c.is_whitespace() {
            i += 1;
        } else if c == '/' && i + 1 < n && cs[i + 1] == '/' {
            while i < n && cs[i] != '\n' {
                i += 1;
            }
        } else if c == '/' && i + 1 < n && cs[i + 1] == '*' {
            let st = i + 2;
            let mut depth = 1;
            let mut j = st;
            while j < n && depth > 0 {
                if j + 1 < n && cs[j] == '/' && cs[j + 1] == '*' {
                    depth += 1;
                    j += 2;
                } else if j + 1 < n && cs[j] == '*' && cs[j + 1] == '/' {
                    depth -= 1;
                    j += 2;
                } else {
                    j += 1;
                }
            }
            if depth > 0 {
                return Err("source: unterminated block comment".into());
            }
            out.push(RTok::Cmt(cs[st..j - 2].iter().collect()));
            i = j;
        } else if c == 'r' && i + 1 < n && (cs[i + 1] == '"' || cs[i + 1] == '#') && {
            let mut j = i + 1;
            while j < n && cs[j] == '#' {
                j += 1;
            }
            j < n && cs[j] == '"'
        } {
            let mut j = i + 1;
            let mut hashes = 0;
            while cs[j] == '#' {
                hashes += 1;
                j += 1;
            }
            j += 1;
            let st = j;
            loop {
                if j >= n {
                    return Err("source: unterminated raw string".into());
                }
                if cs[j] == '"' && (1..=hashes).all(|h| j + h < n && cs[j + h] == '#') {
                    break;
                }
                j += 1;
            }
            out.push(RTok::Raw(cs[st..j].iter().collect()));
            i = j + 1 + hashes;
        } else if c == '_' || c.is_alphabetic() {
            let mut j = i;
            while j < n && (cs[j] == '_' || cs[j].is_alphanumeric()) {
                j += 1;
            }
            out.push(RTok::Id(cs[i..j].iter().collect()));
            i = j;
        } else if c.is_ascii_digit() {
            let mut j = i;
            while j < n && (cs[j] == '_' || cs[j].is_alphanumeric()) {
                j += 1;
            }
            out.push(RTok::Num(cs[i..j].iter().collect()));
            i = j;
        } else if c == '"' {
            let mut j = i + 1;
            let mut s = String::new();
            loop {
                if j >= n {
                    return Err("source: unterminated string".into());
                }
                if cs[j] == '"' {
                    break;
                }
                if cs[j] == '\\' && j + 1 < n {
                    j += 1;
                    match cs[j] {
                        'n' => s.push('\n'),
                        'r' => s.push('\r'),
                        't' => s.push('\t'),
                        '0' => s.push('\0'),
                        '\\' | '"' | '\'' => s.push(cs[j]),
                        _ => return Err("source: unsupported escape in string".into()),
                    }
                    j += 1;
                } else {
                    s.push(cs[j]);
                    j += 1;
                }
            }
            out.push(RTok::Str(s));
            i = j + 1;
        } else if c == '\'' {
            // lifetime (`'t`) or char literal: not needed
            let mut j = i + 1;
            while j < n && (cs[j] == '_' || cs[j].is_alphanumeric()) {
                j += 1;
            }
            if j < n && cs[j] == '\'' {
                j += 1;
            }
            i = j.max(i + 1);
        } else {
            let two: String = cs[i..(i + 2).min(n)].iter().collect();
            if two == "::" || two == "->" || two == "=>" {
                out.push(RTok::P(two));
                i += 2;
            } else {
                out.push(RTok::P(c.to_string()));
                i += 1;
            }
        }
    }
    Ok(out)
}

/// Values of the generated statics.
#[derive(Clone, Debug, PartialEq)]
pub enum Val {
    Num(i64),
    Str(String),
    /// path (last segment) with optional arguments: `Trans(..)`, `ParseType::T(5)`, `LRAction::Accept`, `true`
    Call(String, Vec<Val>),
    /// `Name { field: value, … }`
    Struct(String, Vec<(String, Val)>),
    /// `[ … ]` with the block comment in front of each element
    List(Vec<(Option<String>, Val)>),
    Tuple(Vec<Val>),
}

struct VP<'a> {
    t: &'a [RTok],
    i: usize,
}

impl<'a> VP<'a> {
    fn peek(&self) -> Option<&RTok> {
        self.t.get(self.i)
    }
    fn is_p(&self, p: &str) -> bool {
        matches!(self.peek(), Some(RTok::P(q)) if q == p)
    }
    fn eat_p(&mut self, p: &str) -> Result<(), String> {
        if self.is_p(p) {
            self.i += 1;
            Ok(())
        } else {
            Err(format!("source: expected `{p}` at token {}", self.i))
        }
    }
    /// skips comments, returns the last one
    fn comments(&mut self) -> Option<String> {
        let mut last = None;
        while let Some(RTok::Cmt(c)) = self.peek() {
            last = Some(c.clone());
            self.i += 1;
        }
        last
    }
    fn seq(&mut self, close: &str) -> Result<Vec<(Option<String>, Val)>, String> {
        let mut v = vec![];
        loop {
            let c = self.comments();
            if self.is_p(close) {
                self.i += 1;
                return Ok(v);
            }
            let x = self.value()?;
            v.push((c, x));
            self.comments();
            if self.is_p(",") {
                self.i += 1;
            } else {
                self.comments();
                self.eat_p(close)?;
                return Ok(v);
            }
        }
    }
    fn value(&mut self) -> Result<Val, String> {
        self.comments();
        match self.peek().cloned() {
            Some(RTok::P(p)) if p == "&" => {
                self.i += 1;
                self.value()
            }
            Some(RTok::P(p)) if p == "-" => {
                self.i += 1;
                match self.peek().cloned() {
                    Some(RTok::Num(n)) => {
                        self.i += 1;
                        Ok(Val::Num(-n.parse::<i64>().map_err(|_| "source: number".to_string())?))
                    }
                    _ => Err("source: `-` without number".into()),
                }
            }
            Some(RTok::Num(n)) => {
                self.i += 1;
                Ok(Val::Num(n.parse::<i64>().map_err(|_| "source: number".to_string())?))
            }
            Some(RTok::Str(s)) | Some(RTok::Raw(s)) => {
                self.i += 1;
                Ok(Val::Str(s))
            }
            Some(RTok::P(p)) if p == "[" => {
                self.i += 1;
                Ok(Val::List(self.seq("]")?))
            }
            Some(RTok::P(p)) if p == "(" => {
                self.i += 1;
                Ok(Val::Tuple(self.seq(")")?.into_iter().map(|x| x.1).collect()))
            }
            Some(RTok::Id(first)) => {
                self.i += 1;
                let mut name = first;
                while self.is_p("::") {
                    self.i += 1;
                    match self.peek().cloned() {
                        Some(RTok::Id(s)) => {
                            name = s;
                            self.i += 1;
                        }
                        _ => return Err("source: path".into()),
                    }
                }
                if self.is_p("(") {
                    self.i += 1;
                    Ok(Val::Call(name, self.seq(")")?.into_iter().map(|x| x.1).collect()))
                } else if self.is_p("{") {
                    self.i += 1;
                    let mut fields = vec![];
                    loop {
                        self.comments();
                        if self.is_p("}") {
                            self.i += 1;
                            break;
                        }
                        let f = match self.peek().cloned() {
                            Some(RTok::Id(f)) => f,
                            _ => return Err("source: field name".into()),
                        };
                        self.i += 1;
                        self.eat_p(":")?;
                        let v = self.value()?;
                        fields.push((f, v));
                        self.comments();
                        if self.is_p(",") {
                            self.i += 1;
                        }
                    }
                    Ok(Val::Struct(name, fields))
                } else {
                    Ok(Val::Call(name, vec![]))
                }
            }
            other => Err(format!("source: unexpected token {other:?}")),
        }
    }
}

/// The value of `const NAME: … = <value>;` / `static NAME: … = <value>;` (`None`: no such item).
fn static_value(t: &[RTok], name: &str) -> Result<Option<Val>, String> {
    let pos = (1..t.len()).find(|&i| {
        t[i] == RTok::Id(name.to_string()) && matches!(&t[i - 1], RTok::Id(k) if k == "const" || k == "static")
    });
    let Some(pos) = pos else { return Ok(None) };
    let mut depth = 0i32;
    let mut i = pos + 1;
    while i < t.len() {
        match &t[i] {
            RTok::P(p) if p == "[" || p == "(" || p == "<" => depth += 1,
            RTok::P(p) if p == "]" || p == ")" || p == ">" => depth -= 1,
            RTok::P(p) if p == "=" && depth == 0 => break,
            _ => {}
        }
        i += 1;
    }
    if i >= t.len() {
        return Err(format!("source: no value for {name}"));
    }
    let mut vp = VP { t, i: i + 1 };
    let v = vp.value()?;
    vp.comments();
    vp.eat_p(";")?;
    Ok(Some(v))
}

/// declared array length in `NAME: &[T; <n>]`
fn declared_len(t: &[RTok], name: &str) -> Option<usize> {
    let pos = (1..t.len()).find(|&i| {
        t[i] == RTok::Id(name.to_string()) && matches!(&t[i - 1], RTok::Id(k) if k == "const" || k == "static")
    })?;
    let mut last_num = None;
    for tk in &t[pos + 1..] {
        match tk {
            RTok::P(p) if p == "=" => break,
            RTok::Num(n) => last_num = n.parse().ok(),
            _ => {}
        }
    }
    last_num
}

fn vnum(v: &Val, what: &str) -> Result<i64, String> {
    match v {
        Val::Num(n) => Ok(*n),
        _ => Err(format!("source: {what} is not a number")),
    }
}
fn vusize(v: &Val, what: &str) -> Result<usize, String> {
    let n = vnum(v, what)?;
    if n < 0 { Err(format!("source: {what} is negative")) } else { Ok(n as usize) }
}
fn vlist<'a>(v: &'a Val, what: &str) -> Result<&'a Vec<(Option<String>, Val)>, String> {
    match v {
        Val::List(l) => Ok(l),
        _ => Err(format!("source: {what} is not a list")),
    }
}
fn vfield<'a>(v: &'a Val, sname: &str, f: &str) -> Result<&'a Val, String> {
    match v {
        Val::Struct(n, fs) if n == sname => {
            fs.iter().find(|(k, _)| k == f).map(|(_, v)| v).ok_or(format!("source: {sname} without field {f}"))
        }
        _ => Err(format!("source: expected a {sname}")),
    }
}
fn vbool(v: &Val, what: &str) -> Result<bool, String> {
    match v {
        Val::Call(n, a) if a.is_empty() && n == "true" => Ok(true),
        Val::Call(n, a) if a.is_empty() && n == "false" => Ok(false),
        _ => Err(format!("source: {what} is not a bool")),
    }
}
fn vpair(v: &Val, what: &str) -> Result<(usize, usize), String> {
    match v {
        Val::Tuple(t) if t.len() == 2 => Ok((vusize(&t[0], what)?, vusize(&t[1], what)?)),
        _ => Err(format!("source: {what} is not a pair")),
    }
}
fn check_len(t: &[RTok], name: &str, actual: usize) -> Result<(), String> {
    match declared_len(t, name) {
        Some(n) if n == actual => Ok(()),
        Some(n) => Err(format!("source: {name} declares {n} entries and lists {actual}")),
        None => Err(format!("source: {name} declares no length")),
    }
}

/// the `scanner! { Name { mode M { token r"…" [not] followed by r"…" => n; on n enter M; } … } }` body
fn scanner_modes(t: &[RTok]) -> Result<Vec<Mode>, String> {
    let pos = (0..t.len().saturating_sub(2))
        .find(|&i| t[i] == RTok::Id("scanner".into()) && t[i + 1] == RTok::P("!".into()) && t[i + 2] == RTok::P("{".into()))
        .ok_or("source: no scanner! invocation")?;
    let t: Vec<&RTok> = t[pos + 3..].iter().filter(|x| !matches!(x, RTok::Cmt(_))).collect();
    let mut i = 0;
    let id = |i: usize| -> Option<&str> {
        match t.get(i) {
            Some(RTok::Id(s)) => Some(s.as_str()),
            _ => None,
        }
    };
    let is_p = |i: usize, p: &str| matches!(t.get(i), Some(RTok::P(q)) if q == p);
    if id(i).is_none() || !is_p(i + 1, "{") {
        return Err("source: scanner! without scanner name".into());
    }
    i += 2;
    // first pass: mode names (transition targets are names)
    let mut names = vec![];
    {
        let mut j = i;
        let mut depth = 0;
        while j < t.len() {
            if depth == 0 && id(j) == Some("mode") {
                names.push(id(j + 1).ok_or("source: mode without name")?.to_string());
            }
            if is_p(j, "{") {
                depth += 1;
            } else if is_p(j, "}") {
                if depth == 0 {
                    break;
                }
                depth -= 1;
            }
            j += 1;
        }
    }
    let mut modes = vec![];
    while id(i) == Some("mode") {
        let name = id(i + 1).ok_or("source: mode without name")?.to_string();
        if !is_p(i + 2, "{") {
            return Err("source: mode without body".into());
        }
        i += 3;
        let mut toks = vec![];
        let mut trans = vec![];
        loop {
            if is_p(i, "}") {
                i += 1;
                break;
            }
            match id(i) {
                Some("token") => {
                    let rx = match t.get(i + 1) {
                        Some(RTok::Raw(s)) | Some(RTok::Str(s)) => s.clone(),
                        _ => return Err("source: token without pattern".into()),
                    };
                    i += 2;
                    let mut la = None;
                    let mut positive = true;
                    if id(i) == Some("not") {
                        positive = false;
                        i += 1;
                    }
                    if id(i) == Some("followed") && id(i + 1) == Some("by") {
                        match t.get(i + 2) {
                            Some(RTok::Raw(s)) | Some(RTok::Str(s)) => la = Some((positive, s.clone())),
                            _ => return Err("source: lookahead without pattern".into()),
                        }
                        i += 3;
                    } else if !positive {
                        return Err("source: `not` without `followed by`".into());
                    }
                    if !is_p(i, "=>") {
                        return Err("source: token without `=>`".into());
                    }
                    let ty = match t.get(i + 1) {
                        Some(RTok::Num(n)) => n.parse::<usize>().map_err(|_| "source: token type".to_string())?,
                        _ => return Err("source: token without type".into()),
                    };
                    if !is_p(i + 2, ";") {
                        return Err("source: token without `;`".into());
                    }
                    i += 3;
                    toks.push(Tok { rx: Some(rx), ty, la });
                }
                Some("on") => {
                    let ty = match t.get(i + 1) {
                        Some(RTok::Num(n)) => n.parse::<usize>().map_err(|_| "source: transition token".to_string())?,
                        _ => return Err("source: `on` without token type".into()),
                    };
                    let (kind, target, adv) = match id(i + 2) {
                        Some("enter") | Some("push") => {
                            let tn = id(i + 3).ok_or("source: transition without target")?;
                            // an unknown target name becomes an out-of-range mode index
                            let tg = names.iter().position(|x| x == tn).unwrap_or(names.len());
                            (if id(i + 2) == Some("enter") { 0u8 } else { 1u8 }, tg, 4)
                        }
                        Some("pop") => (2u8, 0, 3),
                        _ => return Err("source: transition kind".into()),
                    };
                    if !is_p(i + adv, ";") {
                        return Err("source: transition without `;`".into());
                    }
                    i += adv + 1;
                    trans.push((ty, kind, target));
                }
                _ => return Err(format!("source: unexpected item in mode {name}")),
            }
        }
        modes.push(Mode { name, toks, trans });
    }
    if !is_p(i, "}") {
        return Err("source: scanner! body not closed".into());
    }
    Ok(modes)
}

pub fn desc_source(p: &Pipe) -> Result<Desc, String> {
    desc_of_source(&generate_source(p)?)
}

pub fn desc_of_source(src: &str) -> Result<Desc, String> {
    let t = rust_tokens(src)?;
    let strs = |name: &str| -> Result<Vec<String>, String> {
        let v = static_value(&t, name)?.ok_or(format!("source: no {name}"))?;
        let l = vlist(&v, name)?;
        check_len(&t, name, l.len())?;
        l.iter()
            .map(|(_, x)| match x {
                Val::Str(s) => Ok(s.clone()),
                _ => Err(format!("source: {name} entry is not a string")),
            })
            .collect()
    };
    let tnames: Vec<Option<String>> = strs("TERMINAL_NAMES")?.into_iter().map(Some).collect();
    let ntnames = strs("NON_TERMINALS")?;
    let skips = {
        let v = static_value(&t, "SKIP_TOKENS_BY_SCANNER_STATE")?.ok_or("source: no SKIP_TOKENS_BY_SCANNER_STATE")?;
        let l = vlist(&v, "skip lists")?;
        check_len(&t, "SKIP_TOKENS_BY_SCANNER_STATE", l.len())?;
        l.iter()
            .map(|(_, x)| vlist(x, "skip list")?.iter().map(|(_, y)| vusize(y, "skip token")).collect::<Result<Vec<_>, _>>())
            .collect::<Result<Vec<_>, _>>()?
    };
    let modes = scanner_modes(&t)?;
    let start_of = |ctor: &str| -> Result<usize, String> {
        let pos = (0..t.len().saturating_sub(4))
            .find(|&i| {
                t[i] == RTok::Id(ctor.to_string())
                    && t[i + 1] == RTok::P("::".into())
                    && t[i + 2] == RTok::Id("new".into())
                    && t[i + 3] == RTok::P("(".into())
            })
            .ok_or(format!("source: no {ctor}::new"))?;
        match &t[pos + 4] {
            RTok::Num(n) => n.parse().map_err(|_| "source: start symbol index".to_string()),
            _ => Err("source: start symbol index is not a literal".into()),
        }
    };
    let prods_v = static_value(&t, "PRODUCTIONS")?.ok_or("source: no PRODUCTIONS")?;
    let prods_l = vlist(&prods_v, "PRODUCTIONS")?;
    check_len(&t, "PRODUCTIONS", prods_l.len())?;
    if let Some(av) = static_value(&t, "LOOKAHEAD_AUTOMATA")? {
        let al = vlist(&av, "LOOKAHEAD_AUTOMATA")?;
        check_len(&t, "LOOKAHEAD_AUTOMATA", al.len())?;
        let mut autos = vec![];
        for (i, (cmt, a)) in al.iter().enumerate() {
            // `/* <index> - "<name>" */` in front of the automaton; without it the position is taken
            let nt = cmt
                .as_ref()
                .and_then(|c| c.trim().split(' ').next().and_then(|x| x.parse::<usize>().ok()))
                .unwrap_or(i);
            let mut trans = vec![];
            for (_, tr) in vlist(vfield(a, "LookaheadDFA", "transitions")?, "transitions")? {
                match tr {
                    Val::Call(n, args) if n == "Trans" && args.len() == 4 => trans.push((
                        vusize(&args[0], "Trans.0")?,
                        vusize(&args[1], "Trans.1")?,
                        vusize(&args[2], "Trans.2")?,
                        vnum(&args[3], "Trans.3")?,
                    )),
                    _ => return Err("source: transition is not Trans(a, b, c, d)".into()),
                }
            }
            autos.push(Auto {
                nt,
                prod0: vnum(vfield(a, "LookaheadDFA", "prod0")?, "prod0")?,
                k: vusize(vfield(a, "LookaheadDFA", "k")?, "k")?,
                trans,
            });
        }
        let mut prods = vec![];
        for (_, pr) in prods_l {
            let mut rhs = vec![];
            for (_, s) in vlist(vfield(pr, "Production", "production")?, "production")? {
                match s {
                    Val::Call(n, a) if n == "T" && a.len() == 1 => rhs.push(Sym::T(vusize(&a[0], "T")?)),
                    Val::Call(n, a) if n == "N" && a.len() == 1 => rhs.push(Sym::N(vusize(&a[0], "N")?)),
                    _ => return Err("source: production symbol".into()),
                }
            }
            rhs.reverse(); // generated right-hand sides are stored reversed
            prods.push((
                vusize(vfield(pr, "Production", "lhs")?, "lhs")?,
                rhs,
                vbool(vfield(pr, "Production", "is_push_production")?, "is_push_production")?,
            ));
        }
        let maxk = static_value(&t, "MAX_K")?.ok_or("source: no MAX_K")?;
        Ok(Desc {
            ll: true,
            start: start_of("LLKParser")?,
            prods,
            autos,
            lracts: vec![],
            lrrows: vec![],
            tnames,
            ntnames,
            skips,
            modes,
            maxk: Some(vusize(&maxk, "MAX_K")?),
        })
    } else {
        let tv = static_value(&t, "PARSE_TABLE")?.ok_or("source: neither LOOKAHEAD_AUTOMATA nor PARSE_TABLE")?;
        let mut lracts = vec![];
        for (_, a) in vlist(vfield(&tv, "LRParseTable", "actions")?, "actions")? {
            lracts.push(match a {
                Val::Call(n, x) if n == "Shift" && x.len() == 1 => Act::Shift(vusize(&x[0], "Shift")?),
                Val::Call(n, x) if n == "Reduce" && x.len() == 2 => Act::Reduce(vusize(&x[0], "Reduce.0")?, vusize(&x[1], "Reduce.1")?),
                Val::Call(n, x) if n == "Accept" && x.is_empty() => Act::Accept,
                _ => return Err("source: LR action".into()),
            });
        }
        let mut lrrows = vec![];
        for (_, st) in vlist(vfield(&tv, "LRParseTable", "states")?, "states")? {
            let acts = vlist(vfield(st, "LR1State", "actions")?, "state actions")?
                .iter()
                .map(|(_, x)| vpair(x, "state action"))
                .collect::<Result<Vec<_>, _>>()?;
            let gotos = vlist(vfield(st, "LR1State", "gotos")?, "state gotos")?
                .iter()
                .map(|(_, x)| vpair(x, "state goto"))
                .collect::<Result<Vec<_>, _>>()?;
            lrrows.push((acts, gotos));
        }
        let mut prods = vec![];
        for (_, pr) in prods_l {
            let len = vusize(vfield(pr, "LRProduction", "len")?, "len")?;
            prods.push((
                vusize(vfield(pr, "LRProduction", "lhs")?, "lhs")?,
                vec![Sym::Unk; len],
                vbool(vfield(pr, "LRProduction", "is_push_production")?, "is_push_production")?,
            ));
        }
        Ok(Desc {
            ll: false,
            start: start_of("LRParser")?,
            prods,
            autos: vec![],
            lracts,
            lrrows,
            tnames,
            ntnames,
            skips,
            modes,
            maxk: None,
        })
    }
}

// -------------------------------------------------------------------------------------------------
// grammar generator: PAR texts biased to equal text in different quoting, lookahead, scanner states

const TEXTS_RX: &[&str] = &["a", "b", "c", "ab", "a.b", "a+", "b*", r"\+", r"a\.b", "a|b", "[ab]", "if", "x", "-"];
const TEXTS_RAW: &[&str] = &["a", "b", "c", "ab", "a.b", "a+", "b*", "+", "(", ")", "*", "?", "{", "$", "if", "x", "-", "a|b", "[ab]"];

fn quoted(rng: &mut Rng, text_bias: &[&str]) -> String {
    // the same small set of texts in all three quoting styles
    let style = rng.below(3);
    let biased = rng.chance(3, 4);
    let pool: &[&str] = if biased { text_bias } else if style == 2 { TEXTS_RAW } else { TEXTS_RX };
    let t = *rng.pick(pool);
    match style {
        0 => format!("\"{t}\""),
        1 => format!("/{t}/"),
        _ => format!("'{t}'"),
    }
}

fn terminal(rng: &mut Rng, bias: &[&str], scanners: &[String]) -> String {
    let mut s = String::new();
    if !scanners.is_empty() && rng.chance(1, 3) {
        let mut names = vec![];
        if rng.chance(1, 2) {
            names.push("INITIAL".to_string());
        }
        names.push(rng.pick(scanners).clone());
        if scanners.len() > 1 && rng.chance(1, 4) {
            let other = rng.pick(scanners).clone();
            if !names.contains(&other) {
                names.push(other);
            }
        }
        s.push_str(&format!("<{}>", names.join(", ")));
    }
    s.push_str(&quoted(rng, bias));
    if rng.chance(1, 5) {
        s.push_str(if rng.chance(1, 2) { " ?= " } else { " ?! " });
        s.push_str(&quoted(rng, bias));
    }
    if rng.chance(1, 8) {
        s.push('^');
    }
    s
}

/// Family "left factoring moves first occurrences": two alternatives share a prefix, the first one
/// continues with a repetition / optional / group over fresh terminals, and a terminal `Z` that a
/// `%skip` / `%on` directive refers to (through its primary non-terminal) occurs in SEVERAL quoting
/// styles — so that left factoring reorders the first occurrences, changes `Z`'s number and possibly the
/// recorded kind of its first occurrence (findings F29, F11 and the seeded change mut-C18 live here).
fn lf_directive_par(rng: &mut Rng) -> String {
    let zs = ["z", "if", "x", "a.b", "-"];
    let z = *rng.pick(&zs);
    let style = |rng: &mut Rng, t: &str, allow_raw: bool| -> String {
        match rng.below(if allow_raw { 3 } else { 2 }) {
            0 => format!("\"{t}\""),
            1 => format!("/{t}/"),
            _ => format!("'{t}'"),
        }
    };
    let lalr = rng.chance(1, 5);
    let two_modes = rng.chance(1, 2);
    let mut s = String::from("%start S\n");
    if lalr {
        s.push_str("%grammar_type 'LALR(1)'\n");
    }
    let use_skip = rng.chance(1, 2) || !two_modes;
    if use_skip {
        s.push_str("%skip Sk\n");
    }
    if two_modes {
        s.push_str(match rng.below(3) {
            0 => "%on Sk %enter M\n",
            1 => "%on Sk %push M\n",
            _ => "%on Back %enter M\n",
        });
        s.push_str("%scanner M {\n    %on Back %enter INITIAL\n");
        if rng.chance(1, 2) {
            s.push_str("    %skip Sk\n");
        }
        s.push_str("}\n");
    }
    s.push_str("%%\n");
    let inner_z = if rng.chance(2, 3) { format!(" {}", style(rng, z, false)) } else { String::new() };
    let wrap = match rng.below(3) {
        0 => format!("{{ \"q\"{inner_z} }}"),
        1 => format!("[ \"q\"{inner_z} ]"),
        _ => format!("( \"q\"{inner_z} | \"r\" )"),
    };
    let z2 = style(rng, z, false);
    let modes = if two_modes { "<INITIAL, M>" } else { "" };
    s.push_str(&format!("S: \"a\" {wrap} \"b\"\n | \"a\" {z2}\n | Sk"));
    if two_modes {
        s.push_str(" Back");
    }
    s.push_str(";\n");
    s.push_str(&format!("Sk: {modes}{};\n", style(rng, z, false)));
    if two_modes {
        s.push_str("Back: <M, INITIAL>\"y\";\n");
    }
    s
}

/// One random PAR grammar. Non-terminals only refer to later ones (no recursion, all productive,
/// all reachable); primary non-terminals (`Tk: <terminal>;`) feed `%on` and `%skip`.
pub fn random_par(rng: &mut Rng) -> String {
    if rng.chance(1, 6) {
        return lf_directive_par(rng);
    }
    // a per-grammar bias: two or three texts that exist in both pools
    let common = ["a", "b", "ab", "a.b", "a+", "b*", "if", "x", "a|b", "[ab]", "-"];
    let nb = rng.range(1, 3);
    let bias: Vec<&str> = (0..nb).map(|_| *rng.pick(&common)).collect();
    let lalr = rng.chance(1, 3);
    let nscanners = if rng.chance(1, 2) { 0 } else { rng.range(1, 2) };
    let scanners: Vec<String> = (0..nscanners).map(|i| format!("M{i}")).collect();
    let nnt = rng.range(1, 4);
    let nprim = if nscanners > 0 || rng.chance(1, 3) { rng.range(1, 3) } else { 0 };
    let prims: Vec<String> = (0..nprim).map(|i| format!("Tk{i}")).collect();
    let mut s = String::from("%start N0\n");
    if lalr {
        s.push_str("%grammar_type 'LALR(1)'\n");
    }
    if rng.chance(1, 4) {
        s.push_str("%line_comment '//'\n");
    }
    if rng.chance(1, 5) {
        s.push_str("%block_comment '/*' '*/'\n");
    }
    if rng.chance(1, 8) {
        s.push_str("%auto_newline_off\n");
    }
    if rng.chance(1, 8) {
        s.push_str("%auto_ws_off\n");
    }
    if rng.chance(1, 6) {
        s.push_str("%allow_unmatched\n");
    }
    let all_modes: Vec<String> = std::iter::once("INITIAL".to_string()).chain(scanners.iter().cloned()).collect();
    let directives = |rng: &mut Rng, own: &str| -> String {
        let mut d = String::new();
        if !prims.is_empty() && rng.chance(1, 3) {
            let k = rng.range(1, prims.len().min(2));
            let names: Vec<String> = (0..k).map(|_| rng.pick(&prims).clone()).collect();
            d.push_str(&format!("%skip {}\n", names.join(", ")));
        }
        if !prims.is_empty() && all_modes.len() > 1 {
            let n = rng.below(3);
            let mut used: Vec<String> = vec![];
            for _ in 0..n {
                let p = rng.pick(&prims).clone();
                if used.contains(&p) {
                    continue;
                }
                used.push(p.clone());
                let target = rng.pick(&all_modes).clone();
                match rng.below(3) {
                    0 => d.push_str(&format!("%on {p} %enter {target}\n")),
                    1 => d.push_str(&format!("%on {p} %push {target}\n")),
                    _ => d.push_str(&format!("%on {p} %pop\n")),
                }
            }
        }
        let _ = own;
        d
    };
    s.push_str(&directives(rng, "INITIAL"));
    for m in &scanners {
        s.push_str(&format!("%scanner {m} {{\n"));
        if rng.chance(1, 3) {
            s.push_str("%auto_newline_off\n");
        }
        if rng.chance(1, 4) {
            s.push_str("%auto_ws_off\n");
        }
        if rng.chance(1, 5) {
            s.push_str("%line_comment '#'\n");
        }
        if rng.chance(1, 6) {
            s.push_str("%allow_unmatched\n");
        }
        s.push_str(&directives(rng, m));
        s.push_str("}\n");
    }
    s.push_str("%%\n");
    // every primary non-terminal is used by some production (reachability)
    let mut pending_prims: Vec<String> = prims.clone();
    for i in 0..nnt {
        let nalt = rng.range(1, 3);
        let mut alts = vec![];
        for a in 0..nalt {
            let len = rng.range(if a == 0 { 1 } else { 0 }, 3);
            let mut syms = vec![];
            for _ in 0..len {
                match rng.below(10) {
                    0..=5 => syms.push(terminal(rng, &bias, &scanners)),
                    // recursion: never in the first alternative (productivity), never as first symbol (left recursion)
                    6 if a > 0 && !syms.is_empty() && rng.chance(1, 2) => syms.push(format!("N{}", rng.range(0, i))),
                    6 | 7 if i + 1 < nnt => syms.push(format!("N{}", rng.range(i + 1, nnt - 1))),
                    8 if !prims.is_empty() => syms.push(rng.pick(&prims).clone()),
                    9 => {
                        let inner = terminal(rng, &bias, &scanners);
                        match rng.below(3) {
                            0 => syms.push(format!("{{ {inner} }}")),
                            1 => syms.push(format!("[ {inner} ]")),
                            _ => syms.push(format!("( {inner} | {} )", terminal(rng, &bias, &scanners))),
                        }
                    }
                    _ => syms.push(terminal(rng, &bias, &scanners)),
                }
            }
            alts.push(syms);
        }
        // reachability: N(i+1) is referenced by Ni's first alternative, the primaries by the last non-terminal
        if i + 1 < nnt {
            alts[0].push(format!("N{}", i + 1));
        } else {
            for p in pending_prims.drain(..) {
                alts[0].push(p);
            }
        }
        s.push_str(&format!(
            "N{i}: {};\n",
            alts.iter().map(|a| a.join(" ")).collect::<Vec<_>>().join(" | ")
        ));
    }
    for p in &prims {
        s.push_str(&format!("{p}: {};\n", terminal(rng, &bias, &scanners).trim_end_matches('^')));
    }
    s
}

/// `*.par` files of the repository (examples and valid test data), smallest first.
pub fn repo_pars(limit_bytes: u64) -> Vec<String> {
    fn walk(d: &std::path::Path, out: &mut Vec<std::path::PathBuf>) {
        if let Ok(rd) = std::fs::read_dir(d) {
            let mut es: Vec<_> = rd.flatten().map(|e| e.path()).collect();
            es.sort();
            for p in es {
                if p.is_dir() {
                    if p.file_name().map(|n| n == "target").unwrap_or(false) {
                        continue;
                    }
                    walk(&p, out);
                } else if p.extension().map(|e| e == "par").unwrap_or(false) {
                    out.push(p);
                }
            }
        }
    }
    let repo = std::path::PathBuf::from(env!("CARGO_MANIFEST_DIR"));
    // the repository path is recorded in Cargo.toml (package.metadata.verif.repo)
    let toml = std::fs::read_to_string(repo.join("Cargo.toml")).unwrap_or_default();
    let root = toml
        .lines()
        .find_map(|l| l.strip_prefix("repo = \"").and_then(|r| r.strip_suffix('"')))
        .unwrap_or("/repo")
        .to_string();
    let mut files = vec![];
    walk(&std::path::Path::new(&root).join("examples"), &mut files);
    walk(&std::path::Path::new(&root).join("crates/parol/data/valid"), &mut files);
    let mut sized: Vec<(u64, std::path::PathBuf)> =
        files.into_iter().filter_map(|p| std::fs::metadata(&p).ok().map(|m| (m.len(), p))).collect();
    sized.sort();
    sized
        .into_iter()
        .filter(|(n, _)| *n <= limit_bytes)
        .filter_map(|(_, p)| std::fs::read_to_string(p).ok())
        .collect()
}

/// Hand-picked grammars run first (terminal identity across quoting styles, lookahead, states).
pub const FIXED: &[&str] = &[
    "%start S\n%%\nS: 'a.b' \"a.b\";\n",
    "%start S\n%%\nS: \"a\" 'a' /a/ \"b\";\n",
    "%start S\n%grammar_type 'LALR(1)'\n%%\nS: 'a.b' \"a.b\" /a.b/;\n",
    "%start S\n%%\nS: 'a+' A | \"a+\" 'a+';\nA: /a+/ ?= 'b' | \"a+\" ?! 'b';\n",
    "%start S\n%on Tk %enter M\n%scanner M { %auto_newline_off %on Tk %enter INITIAL %skip Sk }\n%%\nS: 'x' Tk <M>\"x\" Tk Sk;\nTk: <INITIAL, M>/x/ ?= 'y';\nSk: <M>'-';\n",
    "%start S\n%grammar_type 'LALR(1)'\n%skip Sk\n%on P %push M\n%scanner M { %on Q %pop }\n%%\nS: P 'if' Q \"if\" Sk;\nP: '(';\nQ: <M>')';\nSk: '-';\n",
    "%start S\n%%\nS: \"a\" \"q\" X | \"y\" | \"a\" \"z\" 'a';\nX: 'x';\n",
];

/// `corpus/C18_grammars.txt`: minimised grammars of past findings, one per line as `<%HH-escaped PAR text> <k>`
/// (`#` comments). The case lines embed descriptions of the CURRENT tree, so the corpus holds grammars,
/// not case lines; they are run first by C18 and C21.
pub fn corpus_grammars() -> Vec<(String, usize)> {
    let p = std::path::Path::new(env!("CARGO_MANIFEST_DIR")).join("../corpus/C18_grammars.txt");
    let Ok(text) = std::fs::read_to_string(p) else { return vec![] };
    text.lines()
        .filter(|l| !l.trim().is_empty() && !l.starts_with('#'))
        .filter_map(|l| {
            let w: Vec<&str> = l.split_whitespace().collect();
            Some((dec(w.first()?)?, w.get(1).and_then(|k| k.parse().ok()).unwrap_or(3)))
        })
        .collect()
}

pub fn par_cases(seed: u64, thorough: bool) -> Vec<(String, usize)> {
    let mut rng = Rng::new(seed ^ 0xC21);
    let mut out = corpus_grammars();
    out.extend(FIXED.iter().map(|s| (s.to_string(), 3)));
    for p in repo_pars(if thorough { 2_000_000 } else { 20_000 }) {
        out.push((p, 5));
    }
    let n = if thorough { 60000 } else { 1500 };
    for _ in 0..n {
        out.push((random_par(&mut rng), rng.range(1, 3)));
    }
    out
}

// -------------------------------------------------------------------------------------------------
// cases

pub fn three(p: &Pipe) -> String {
    format!("{} {} {}", enc_desc(&desc_analysis(p)), enc_desc(&desc_export(p)), enc_desc(&desc_source(p)))
}

pub fn make_case(par: &str, k: usize) -> Option<String> {
    let p = std::panic::catch_unwind(|| pipeline(par, k)).ok()?.ok()?;
    let body = std::panic::catch_unwind(std::panic::AssertUnwindSafe(|| three(&p)))
        .unwrap_or_else(|_| format!("{} {} {}", err_desc("panic"), err_desc("panic"), err_desc("panic")));
    Some(format!("d3 {} {} {}", enc(par), k, body))
}

pub fn generate(seed: u64, thorough: bool) -> Vec<String> {
    let mut seen = BTreeSet::new();
    let mut out = vec![];
    for (par, k) in par_cases(seed, thorough) {
        if !seen.insert(par.clone()) {
            continue;
        }
        if let Some(c) = make_case(&par, k) {
            out.push(c);
        }
    }
    out
}

pub fn run_case(w: &[&str]) -> Option<String> {
    if w.len() != 3 + 33 || w[0] != "d3" {
        return None;
    }
    let par = dec(w[1])?;
    let k: usize = w[2].parse().ok()?;
    match pipeline(&par, k) {
        Err(e) => Some(format!("rejected {e}")),
        Ok(p) => {
            let now = three(&p);
            Some(if now == w[3..].join(" ") { "same".to_string() } else { "changed".to_string() })
        }
    }
}

pub fn cli(args: &[String]) {
    match args.first().map(|s| s.as_str()) {
        // `mk <file.par> <k>`: the case line for one grammar file (replays, debugging)
        Some("mk") => {
            let par = std::fs::read_to_string(&args[1]).expect("read");
            let k = args.get(2).and_then(|s| s.parse().ok()).unwrap_or(3);
            match make_case(&par, k) {
                Some(c) => println!("@@ {c}"),
                None => println!("@@ rejected"),
            }
        }
        // `pair <file.par> <k> <parser.rs>`: case line whose third description is decoded from a parser
        // file on disk (rustfmt-formatted, checked in) instead of a fresh generation
        Some("pair") => {
            let par = std::fs::read_to_string(&args[1]).expect("read par");
            let k = args.get(2).and_then(|s| s.parse().ok()).unwrap_or(3);
            let src = std::fs::read_to_string(&args[3]).expect("read parser");
            match pipeline(&par, k) {
                Ok(p) => println!(
                    "@@ d3 {} {} {} {} {}",
                    enc(&par),
                    k,
                    enc_desc(&desc_analysis(&p)),
                    enc_desc(&desc_export(&p)),
                    enc_desc(&desc_of_source(&src))
                ),
                Err(e) => println!("@@ rejected {e}"),
            }
        }
        // `src <file.par> <k>`: the generated parser text
        Some("src") => {
            let par = std::fs::read_to_string(&args[1]).expect("read");
            let k = args.get(2).and_then(|s| s.parse().ok()).unwrap_or(3);
            match pipeline(&par, k).and_then(|p| generate_source(&p)) {
                Ok(s) => println!("{s}"),
                Err(e) => println!("rejected {e}"),
            }
        }
        _ => standard_cli(args, generate, run_case),
    }
}
