//! Combined runtime-parser module (C14, C17, C19, C20): `ll …` and `lr …` case lines in one stream.
//! `pv prun gen <seed> <tier> <mode>` with mode ∈ plain | styled | opts generates LL and LR cases;
//! `pv prun run` dispatches on the first word;
//! `pv prun skipmeta <seed> <tier>`: metamorphic check on the REAL parsers — the same token string
//! rendered (a) with single blanks and (b) with random whitespace / newlines / comments / `%skip`ped
//! words must give the same verdict and the same action trace (productions and argument kinds).
use crate::cfgenc::{GenCfg, random_gram};
use crate::dynparse::*;
use crate::llrun;
use crate::lrrun;
use crate::parsegen::*;
use crate::rng::Rng;
use crate::util::*;

pub fn run_case(w: &[&str]) -> Option<String> {
    match w.first() {
        Some(&"ll") => llrun::run_case(w),
        Some(&"lr") => lrrun::run_case(w),
        _ => None,
    }
}

pub fn generate(seed: u64, thorough: bool, mode: &str) -> Vec<String> {
    let mut v = llrun::generate(seed, thorough, mode);
    v.extend(lrrun::generate(seed.wrapping_add(77), thorough, mode));
    v
}

fn shape(b: &Built, r: &RunOut) -> String {
    // verdict + action trace with argument kinds (token TYPE or non-terminal), independent of offsets
    let acts: Vec<String> = r
        .actions
        .iter()
        .map(|(p, ch)| {
            format!(
                "{}({})",
                p,
                ch.iter()
                    .map(|c| match c {
                        Child::T(t) => format!("t{}", t.ty),
                        Child::N(n) => format!("n{}", b.nt_names.iter().position(|x| x == n).unwrap_or(999)),
                    })
                    .collect::<Vec<_>>()
                    .join(",")
            )
        })
        .collect();
    let res = r.result.split(' ').next().unwrap_or("").to_string();
    format!("{} {}", res, acts.join(";"))
}

pub fn skipmeta(seed: u64, thorough: bool) {
    std::panic::set_hook(Box::new(|_| {}));
    let mut rng = Rng::new(seed ^ 0x5117);
    let ngr = if thorough { 400 } else { 60 };
    let mut done = 0;
    let mut attempts = 0;
    let mut cases = 0usize;
    let mut with_skipx = 0usize;
    while done < ngr && attempts < ngr * 60 {
        attempts += 1;
        let lalr = attempts % 2 == 0;
        let gc = GenCfg { max_nts: rng.range(1, 4), max_terms: rng.range(1, 3), max_prods_per_nt: 3, max_rhs: rng.range(1, 3), nt_bias: rng.range(2, 5), allow_undefined: false };
        let g = if lalr { random_gram(&mut rng, &gc) } else { random_ll_gram(&mut rng, &gc) };
        if lalr && g.has_cycle() {
            continue;
        }
        let po = ParOpts { lalr, line_comment: true, block_comment: true, skip_x: rng.chance(2, 3), ..Default::default() };
        let par = par_text(&g, &po);
        let b = match llrun::cached_build(&par, 3) {
            Some(b) => b,
            None => continue,
        };
        done += 1;
        let terms = g.terminals();
        let mut ws: Vec<Vec<usize>> = vec![];
        for _ in 0..(if thorough { 20 } else { 10 }) {
            if let Some(s) = random_sentence(&g, &mut rng, 12) {
                ws.push(mutate(&s, &terms, &mut rng));
                ws.push(s);
            }
        }
        for w in ws {
            let plain = render_text(&w, 0, &po, &mut rng);
            let styled = render_text(&w, 1, &po, &mut rng);
            if lalr {
                // F24 guard: never run the real LR parser in-process on an input it loops on
                let ok = [&plain, &styled].iter().all(|t| match b.tokens(t, 1) {
                    Ok(toks) => crate::lrrun::lr_sim_terminates(b, &toks, 20_000),
                    Err(_) => true,
                });
                if !ok {
                    continue;
                }
            }
            for rec in [false, true] {
                let o = Opts { trim: false, recovery: rec, max_depth: None };
                let a = b.run(&plain, &o);
                let c = b.run(&styled, &o);
                let (sa, sc) = (shape(b, &a), shape(b, &c));
                cases += 1;
                if po.skip_x && styled.contains('x') {
                    with_skipx += 1;
                }
                if sa != sc {
                    println!(
                        "@@ fail kind={} recovery={} plain={} styled={} plain_out={} styled_out={} grammar={}",
                        if lalr { "lr" } else { "ll" },
                        rec,
                        llrun::hex(&plain),
                        llrun::hex(&styled),
                        sa.replace(' ', "_"),
                        sc.replace(' ', "_"),
                        llrun::hex(&par)
                    );
                }
            }
        }
    }
    println!("@@ done grammars={done} cases={cases} with_state_skipped_words={with_skipx}");
}

pub fn cli(args: &[String]) {
    if args.first().map(|s| s.as_str()) == Some("skipmeta") {
        let seed: u64 = args.get(1).and_then(|s| s.parse().ok()).unwrap_or(0);
        let thorough = args.get(2).map(|s| s == "thorough").unwrap_or(false);
        skipmeta(seed, thorough);
        return;
    }
    let mode = args.get(3).cloned().unwrap_or_else(|| "plain".to_string());
    standard_cli(args, move |s, t| generate(s, t, &mode), run_case)
}
