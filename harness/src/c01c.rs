//! C01c: the LL(k) table generator as a whole, tied to the Lean function `genTables`
//! (lean/ParolModel/Model/Pipeline.lean).
//!
//! Case line: `gen-tables <start> <prods> <K>` — a plain BNF grammar that is fed UNTRANSFORMED
//! (a `Cfg` built directly from the `Gram`, no PAR front end, no left factoring) to the real
//! `calculate_lookahead_dfas` and then to the real table layout (`generate_parser_export_model`:
//! `build_production_model`, `build_lookahead_automata_model` with `CompiledDFA::from_lookahead_dfa`,
//! `find_start_symbol_index`). Reply: the tables in the encoding of `parsegen::enc_ll_tables`
//! (`<start> <prods> <dfas>`, right-hand sides reversed as in the generated `PRODUCTIONS`), or
//! `err <kind>`.
//!
//! Terminal numbers: the request must number its terminals as parol does (the i-th terminal in
//! order of first occurrence is `5 + i`); the generator canonicalises its random grammars that way,
//! anything else is `bad-op` on both sides.
use crate::c06::{config_of, random_class_gram, TermMap};
use crate::cfgenc::{random_gram, GenCfg, Gram, Sym};
use crate::rng::Rng;
use crate::util::*;
use parol::analysis::calculate_lookahead_dfas;
use parol::generators::parser_generator::generate_parser_export_model;
use parol::GrammarAnalysisError;

fn err_kind(e: &anyhow::Error) -> String {
    if let Some(GrammarAnalysisError::MaxKExceeded { .. }) = e.downcast_ref::<GrammarAnalysisError>() {
        return "err maxk".into();
    }
    let s = e.to_string();
    if s.contains("isn't part of the given grammar") {
        "err notpart".into()
    } else if s.contains("Conflict in union operation") {
        "err conflict".into()
    } else {
        format!("err other:{}", s.replace(' ', "_").chars().take(50).collect::<String>())
    }
}

/// Renumbers the terminals in order of first occurrence from 5 (parol's own numbering).
pub fn canon_terms(g: &Gram) -> Gram {
    let mut order: Vec<usize> = vec![];
    for (_, r) in &g.prods {
        for s in r {
            if let Sym::T(a) = s {
                if !order.contains(a) {
                    order.push(*a);
                }
            }
        }
    }
    let prods = g
        .prods
        .iter()
        .map(|(l, r)| {
            (
                *l,
                r.iter()
                    .map(|s| match s {
                        Sym::T(a) => Sym::T(5 + order.iter().position(|x| x == a).unwrap()),
                        Sym::N(a) => Sym::N(*a),
                    })
                    .collect(),
            )
        })
        .collect();
    Gram { start: g.start, prods }
}

fn is_canonical(g: &Gram, tm: &TermMap) -> bool {
    tm.0.iter().enumerate().all(|(i, t)| *t == 5 + i) && *g == canon_terms(g)
}

/// The real tables of the grammar, encoded exactly as `parsegen::enc_ll_tables` encodes them.
pub fn real_tables(g: &Gram, max_k: usize) -> Option<String> {
    let mut gc = config_of(g, max_k);
    let tm = TermMap::new(&gc)?;
    if !is_canonical(g, &tm) {
        return None;
    }
    let dfas = match calculate_lookahead_dfas(&gc, max_k) {
        Ok(d) => d,
        Err(e) => return Some(err_kind(&e)),
    };
    let k = dfas.values().map(|d| d.k).max().unwrap_or(0);
    gc.update_lookahead_size(k);
    let model = match generate_parser_export_model(&gc, &dfas) {
        Ok(m) => m,
        Err(e) => return Some(format!("err export:{}", e.to_string().replace(' ', "_").chars().take(50).collect::<String>())),
    };
    // productions: as dynparse::build_from_config reads them (through the JSON form, the symbol
    // type is not nameable outside parol), right-hand side reversed as `Production::from_ir` does
    let ps: Vec<String> = model
        .productions
        .iter()
        .enumerate()
        .map(|(i, p)| {
            let pj = serde_json::to_value(p).expect("production to json");
            let mut rhs: Vec<String> = pj["rhs"]
                .as_array()
                .expect("rhs")
                .iter()
                .map(|s| {
                    if let Some(n) = s.get("NonTerminal") {
                        format!("n{}", n.as_u64().unwrap())
                    } else {
                        format!("t{}", s["Terminal"]["index"].as_u64().unwrap())
                    }
                })
                .collect();
            rhs.reverse();
            let push = gc.cfg.pr[i].2 == parol::grammar::ProductionAttribute::AddToCollection;
            format!("{}:{}:{}", p.lhs_index, if push { 1 } else { 0 }, rhs.join(","))
        })
        .collect();
    let ds: Vec<String> = model
        .lookahead_automata
        .iter()
        .map(|a| {
            let tr: Vec<String> = a
                .transitions
                .iter()
                .map(|t| format!("{}:{}:{}:{}", t.from_state, t.term, t.to_state, t.prod_num))
                .collect();
            format!("{}/{}/{}", a.prod0, a.k, if tr.is_empty() { "-".to_string() } else { tr.join("+") })
        })
        .collect();
    Some(format!(
        "{} {} {}",
        model.start_symbol_index,
        if ps.is_empty() { "-".into() } else { ps.join(";") },
        if ds.is_empty() { "-".into() } else { ds.join(";") }
    ))
}

pub fn run_case(w: &[&str]) -> Option<String> {
    match w {
        ["gen-tables", st, ps, maxk] => {
            let g = Gram::parse(st, ps)?;
            let maxk: usize = maxk.parse().ok()?;
            if maxk > parol::MAX_K || g.prods.is_empty() {
                return None;
            }
            real_tables(&g, maxk)
        }
        _ => None,
    }
}

pub fn fixed_grams() -> Vec<Gram> {
    let g = |s: &str| Gram::parse("0", s).unwrap();
    vec![
        g("0:t5"),
        g("0:t5;0:t6"),
        g("0:t5,t6;0:t5,t7"),
        g("0:t5,t5,t6;0:t5,t5,t7"),
        g("0:n1,t5;1:;1:t5"),
        g("0:n1,t5,t6;1:;1:t5"),
        g("0:t5,n0;0:"),
        g("0:n1,n1;1:;1:t5"),
        g("0:t5;0:t5"),
        g("0:n1,t5;0:n2,t6;1:t7;2:t7"),
        g("0:n1,t5;0:n2,t6;1:t7,t7;2:t7,t7"),
        g("0:t5,n1,t5,t6;1:t5;1:"),
        g("0:n1,n2;1:t5;1:;2:t5,t6;2:t6"),
        // S: A; A: ; A: B "b"; A: C "c"; B: "a"; C: "a";   (F19)
        g("0:n1;1:;1:n2,t5;1:n3,t6;2:t7;3:t7"),
        // S: "a" {"b"} ["c"]  in BNF
        g("0:t5,n1,n2;1:t6,n1;1:;2:t7;2:"),
        // non-terminal numbers with a gap (index ≠ number), an undefined non-terminal, left recursion
        g("0:n2,t5;2:t6;2:"),
        g("0:n1,t5"),
        g("0:n0,t5;0:t5"),
    ]
}

/// parol's own left-recursion test. On (hidden) left-recursive grammars — which
/// `check_and_transform_grammar` rejects before the LL(k) stage — the real `first_k`/`follow_k`
/// iterations need not terminate (observed: e.g. `0:;1:t5;2:;2:n1;2:n3,t6,n3;3:n2,t5` runs for
/// minutes; the Lean model answers `fuel-exhausted` there), so such grammars are not generated.
fn safe_to_run(g: &Gram) -> bool {
    if !g.prods.iter().any(|p| p.0 == g.start) {
        return false; // `detect_left_recursive_non_terminals` panics (C11-P1)
    }
    let cfg = g.to_cfg();
    std::panic::catch_unwind(|| parol::analysis::detect_left_recursive_non_terminals(&cfg).is_empty()).unwrap_or(false)
}

pub fn generate(seed: u64, thorough: bool) -> Vec<String> {
    let mut rng = Rng::new(seed ^ 0xC01C);
    let mut out = vec![];
    let mut seen = std::collections::HashSet::new();
    for g in fixed_grams() {
        let g = canon_terms(&g);
        if !safe_to_run(&g) {
            continue;
        }
        for k in 0..=4 {
            let line = format!("gen-tables {} {}", g.show(), k);
            if seen.insert(line.clone()) {
                out.push(line);
            }
        }
    }
    // random grammars: every accepted one is kept, rejected ones up to a quarter of the cases
    let want = if thorough { 12000 } else { 1000 };
    let (mut accepted, mut rejected, mut tries) = (0usize, 0usize, 0usize);
    while accepted < want && tries < want * 40 {
        tries += 1;
        let g = match tries % 4 {
            // grammars of the theorem's class (productive, reachable, no left recursion)
            0 => crate::c05::random_ll_gram(&mut rng, 5, 3),
            1 => random_class_gram(&mut rng, 5, 3, 4),
            2 => crate::parsegen::random_ll_gram(
                &mut rng,
                &GenCfg { max_nts: 4, max_terms: 3, max_prods_per_nt: 3, max_rhs: 3, nt_bias: 4, allow_undefined: false },
            ),
            // anything without left recursion (non-productive / unreachable / undefined non-terminals)
            _ => random_gram(
                &mut rng,
                &GenCfg { max_nts: 4, max_terms: 3, max_prods_per_nt: 3, max_rhs: 3, nt_bias: 3, allow_undefined: tries % 8 == 7 },
            ),
        };
        if g.prods.is_empty() || !safe_to_run(&g) {
            continue;
        }
        let g = canon_terms(&g);
        let k = if thorough && tries % 5 == 4 { rng.range(1, 5) } else { rng.range(1, 3) };
        let line = format!("gen-tables {} {}", g.show(), k);
        if seen.contains(&line) {
            continue;
        }
        let reply = std::panic::catch_unwind(|| real_tables(&g, k)).ok().flatten();
        match reply {
            Some(r) if !r.starts_with("err") => accepted += 1,
            _ => {
                if rejected * 3 >= accepted + 30 {
                    continue;
                }
                rejected += 1;
            }
        }
        seen.insert(line.clone());
        out.push(line);
    }
    out
}

pub fn cli(args: &[String]) {
    standard_cli(args, generate, run_case)
}
