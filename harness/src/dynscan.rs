//! scnr2 scanners built AT RUN TIME from a scanner description, with `scnr2_generate`, the way
//! /repo/crates/parol/src/generators/cs_lexer_generator.rs does (and the `scanner!` macro does at
//! compile time: `Nfa::build_from_patterns`, global `CharacterClasses`, `Dfa::try_from`). The
//! generated tables are leaked to `'static` and handed to the real `scnr2::ScannerImpl` and the
//! real `parol_runtime::TokenStream`.
use parol_runtime::TokenStream;
use scnr2::ScannerImpl;
use scnr2_generate::character_classes::CharacterClasses;
use scnr2_generate::dfa::Dfa as GDfa;
use scnr2_generate::nfa::Nfa;
use scnr2_generate::pattern::{AutomatonType, Lookahead as GLookahead, Pattern};
use scnr2_generate::scanner_data::TransitionToNumericMode;
use scnr2_generate::scanner_mode::ScannerMode as GMode;
use std::cell::RefCell;
use std::collections::HashMap;
use std::rc::Rc;

#[derive(Clone, Debug, PartialEq, Eq, Hash)]
pub enum SwitchOp {
    Enter(usize),
    Push(usize),
    Pop,
}

#[derive(Clone, Debug, PartialEq, Eq, Hash)]
pub struct TermDesc {
    pub regex: String,
    pub tok: usize,
    /// (is_positive, regex)
    pub lookahead: Option<(bool, String)>,
}

#[derive(Clone, Debug, PartialEq, Eq, Hash, Default)]
pub struct ModeDesc {
    pub name: String,
    pub terms: Vec<TermDesc>,
    pub trans: Vec<(usize, SwitchOp)>,
    pub skips: Vec<u16>,
}

pub struct Built {
    pub modes: &'static [scnr2::ScannerMode],
    pub table: &'static [(char, char, usize)],
    pub skips: &'static [&'static [u16]],
}

fn leak<T>(v: Vec<T>) -> &'static [T] {
    Box::leak(v.into_boxed_slice())
}

fn conv_dfa(d: &GDfa, nclasses: usize) -> scnr2::Dfa {
    let states: Vec<scnr2::DfaState> = d
        .states
        .iter()
        .map(|s| {
            let mut tr: Vec<Option<scnr2::DfaTransition>> = vec![None; nclasses];
            for t in &s.transitions {
                tr[t.elementary_interval_index.as_usize()] = Some(scnr2::DfaTransition { to: t.target.as_usize() });
            }
            let acc: Vec<scnr2::AcceptData> = s
                .accept_data
                .iter()
                .map(|ad| scnr2::AcceptData {
                    token_type: ad.terminal_type.as_usize(),
                    priority: ad.priority,
                    lookahead: match &ad.lookahead {
                        GLookahead::None => scnr2::Lookahead::None,
                        GLookahead::Positive(AutomatonType::Dfa(d)) => scnr2::Lookahead::Positive(conv_dfa(d, nclasses)),
                        GLookahead::Negative(AutomatonType::Dfa(d)) => scnr2::Lookahead::Negative(conv_dfa(d, nclasses)),
                        _ => panic!("lookahead not converted to a DFA"),
                    },
                })
                .collect();
            scnr2::DfaState { transitions: leak(tr), accept_data: leak(acc) }
        })
        .collect();
    scnr2::Dfa { states: leak(states) }
}

/// Builds the scanner tables. Errors are mapped to a small vocabulary.
pub fn build(desc: &[ModeDesc]) -> Result<Built, String> {
    let mut gmodes = vec![];
    for m in desc {
        let mut patterns = vec![];
        for t in &m.terms {
            let la = match &t.lookahead {
                Some((true, p)) => GLookahead::positive(p.clone()).map_err(|_| "bad-lookahead".to_string())?,
                Some((false, p)) => GLookahead::negative(p.clone()).map_err(|_| "bad-lookahead".to_string())?,
                None => GLookahead::None,
            };
            patterns.push(Pattern::new(t.regex.clone(), (t.tok as u32).into()).with_lookahead(la));
        }
        let mut trans: Vec<TransitionToNumericMode> = m
            .trans
            .iter()
            .map(|(tok, op)| match op {
                SwitchOp::Enter(t) => TransitionToNumericMode::SetMode(*tok, *t),
                SwitchOp::Push(t) => TransitionToNumericMode::PushMode(*tok, *t),
                SwitchOp::Pop => TransitionToNumericMode::PopMode(*tok),
            })
            .collect();
        trans.sort_by_key(|t| t.token_type());
        gmodes.push(GMode::new(&m.name, patterns, trans));
    }
    let mut nfas = vec![];
    for m in &gmodes {
        nfas.push(Nfa::build_from_patterns(&m.patterns).map_err(|_| "bad-regex".to_string())?);
    }
    let mut cc = CharacterClasses::new();
    for n in &nfas {
        n.collect_character_classes(&mut cc);
    }
    cc.create_disjoint_character_classes();
    for n in &mut nfas {
        n.convert_to_disjoint_character_classes(&cc);
    }
    let nclasses = cc.intervals.len();
    let mut modes = vec![];
    for (i, n) in nfas.iter().enumerate() {
        let d = GDfa::try_from(n).map_err(|_| "dfa-error".to_string())?;
        let trans: Vec<scnr2::Transition> = gmodes[i]
            .transitions
            .iter()
            .map(|t| match t {
                TransitionToNumericMode::SetMode(a, b) => scnr2::Transition::SetMode(*a, *b),
                TransitionToNumericMode::PushMode(a, b) => scnr2::Transition::PushMode(*a, *b),
                TransitionToNumericMode::PopMode(a) => scnr2::Transition::PopMode(*a),
            })
            .collect();
        let name: &'static str = Box::leak(desc[i].name.clone().into_boxed_str());
        modes.push(scnr2::ScannerMode { name, transitions: leak(trans), dfa: conv_dfa(&d, nclasses) });
    }
    // match function table, as `CharacterClasses::generate` emits it
    let mut table = vec![];
    for iv in &cc.elementary_intervals {
        let idx = cc.intervals.iter().position(|g| g.contains(iv)).ok_or("interval-without-group")?;
        table.push((*iv.start(), *iv.end(), idx));
    }
    let skips: Vec<&'static [u16]> = desc.iter().map(|m| leak(m.skips.clone())).collect();
    Ok(Built { modes: leak(modes), table: leak(table), skips: leak(skips) })
}

fn lookup(table: &'static [(char, char, usize)], c: char) -> Option<usize> {
    use std::cmp::Ordering;
    match table.binary_search_by(|iv| {
        if c < iv.0 {
            Ordering::Greater
        } else if c > iv.1 {
            Ordering::Less
        } else {
            Ordering::Equal
        }
    }) {
        Ok(i) => Some(table[i].2),
        Err(_) => None,
    }
}

thread_local! {
    static CACHE: RefCell<HashMap<Vec<ModeDesc>, Result<Rc<Built>, String>>> = RefCell::new(HashMap::new());
}

pub fn build_cached(desc: &[ModeDesc]) -> Result<Rc<Built>, String> {
    CACHE.with(|c| {
        let mut c = c.borrow_mut();
        if let Some(b) = c.get(desc) {
            return b.clone();
        }
        let b = build(desc).map(Rc::new);
        c.insert(desc.to_vec(), b.clone());
        b
    })
}

/// One token as delivered by the real `TokenStream`: (type, start byte, end byte, delivered as skip token).
pub type Tk = (u16, u32, u32, bool);

/// The raw matches of the scnr2 scanner (no TokenStream): (type, start, end).
pub fn raw_matches(b: &Built, text: &str) -> Vec<(usize, usize, usize)> {
    let table = b.table;
    let mf: &'static _ = Box::leak(Box::new(move |c: char| lookup(table, c)));
    let imp = Rc::new(RefCell::new(ScannerImpl::new(b.modes)));
    ScannerImpl::find_matches(imp, text, 0, mf).map(|m| (m.token_type, m.span.start, m.span.end)).collect()
}

/// Everything the parser would see from the real `TokenStream` with lookahead `k`: before every
/// `consume` the skip tokens are taken (as `handle_additional_tokens` does); `peek` additionally
/// calls `lookahead`/`lookahead_token_type` for every position before consuming (eager schedule).
/// Stops after the first EOI. Gap tokens (type 65534) are delivered among the skip tokens.
pub fn stream_tokens(b: &Built, text: &'static str, k: usize, peek: bool) -> Result<Vec<Tk>, String> {
    let table = b.table;
    let mf: &'static _ = Box::leak(Box::new(move |c: char| lookup(table, c)));
    let imp = Rc::new(RefCell::new(ScannerImpl::new(b.modes)));
    let mut ts = TokenStream::new_with_skip_tokens(text, "", imp, mf, k, b.skips).map_err(|_| "lexer".to_string())?;
    let mut out = vec![];
    let limit = 4 * text.len() + 16;
    for _ in 0..limit {
        if peek {
            for n in 0..k {
                let a = ts.lookahead(n).map(|t| t.token_type).map_err(|_| "lookahead".to_string())?;
                let c = ts.lookahead_token_type(n).map_err(|_| "lookahead".to_string())?;
                if a != c {
                    return Err("lookahead-inconsistent".into());
                }
            }
        }
        for t in ts.take_skip_tokens() {
            out.push((t.token_type, t.location.start, t.location.end, true));
        }
        let t = ts.consume().map_err(|_| "consume".to_string())?;
        out.push((t.token_type, t.location.start, t.location.end, false));
        if t.token_type == 0 {
            return Ok(out);
        }
    }
    Err("no-eoi".into())
}

pub fn show_tks(v: &[Tk]) -> String {
    if v.is_empty() {
        "-".into()
    } else {
        v.iter().map(|t| format!("{}:{}:{}:{}", t.0, t.1, t.2, if t.3 { "s" } else { "c" })).collect::<Vec<_>>().join(",")
    }
}
