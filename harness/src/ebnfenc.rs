//! One-word encoding of EBNF grammars and of plain productions *with names* (C09, C10, C24); see
//! `lean/ParolModel/Model/Ebnf.lean` for the syntax. Terminal `<n>` is the PAR string literal
//! `"t<n>"`; non-terminals keep their names. Random generators biased to helper-name clashes.
use crate::rng::Rng;
use parol::grammar::ProductionAttribute;
use parol::{Cfg, Pr, Symbol, SymbolAttribute, Terminal};

// ------------------------------------------------------------------------------------------------
// plain productions

pub fn show_sattr(a: &SymbolAttribute) -> &'static str {
    match a {
        SymbolAttribute::None => "",
        SymbolAttribute::Clipped => "^",
        SymbolAttribute::RepetitionAnchor => "*",
        SymbolAttribute::Option => "?",
    }
}

pub fn show_pattr(a: &ProductionAttribute) -> &'static str {
    match a {
        ProductionAttribute::None => "",
        ProductionAttribute::CollectionStart => "@1",
        ProductionAttribute::AddToCollection => "@2",
        ProductionAttribute::OptionalSome => "@3",
        ProductionAttribute::OptionalNone => "@4",
    }
}

pub fn show_symbol(s: &Symbol) -> String {
    match s {
        Symbol::N(n, a, None, None) => format!("{n}{}", show_sattr(a)),
        Symbol::N(n, a, ..) => format!("{n}{}!extra", show_sattr(a)),
        Symbol::T(Terminal::Trm(t, _, st, a, None, None, None)) if st.as_slice() == [0] && *a == SymbolAttribute::None => {
            match t.strip_prefix('t').and_then(|d| d.parse::<u64>().ok()) {
                Some(d) => format!("{d}"),
                None => format!("!term({})", t.replace(|c: char| !c.is_ascii_alphanumeric(), "_")),
            }
        }
        _ => "!symbol".to_string(),
    }
}

pub fn show_pr(p: &Pr) -> String {
    format!(
        "{}:{}{}",
        p.get_n_str(),
        p.get_r().iter().map(show_symbol).collect::<Vec<_>>().join(","),
        show_pattr(&p.2)
    )
}

pub fn show_prs(prs: &[Pr]) -> String {
    if prs.is_empty() {
        "-".into()
    } else {
        prs.iter().map(show_pr).collect::<Vec<_>>().join(";")
    }
}

fn is_name(s: &str) -> bool {
    let mut cs = s.chars();
    match cs.next() {
        Some(c) if c.is_ascii_alphabetic() || c == '_' => cs.all(|c| c.is_ascii_alphanumeric() || c == '_'),
        _ => false,
    }
}

pub fn parse_symbol(s: &str) -> Option<Symbol> {
    let c = s.chars().next()?;
    if c.is_ascii_digit() {
        let d: u64 = s.parse().ok()?;
        Some(Symbol::T(Terminal::t(&format!("t{d}"), vec![0], SymbolAttribute::None)))
    } else {
        let (name, attr) = match s.chars().last()? {
            '^' => (&s[..s.len() - 1], SymbolAttribute::Clipped),
            '*' => (&s[..s.len() - 1], SymbolAttribute::RepetitionAnchor),
            '?' => (&s[..s.len() - 1], SymbolAttribute::Option),
            _ => (s, SymbolAttribute::None),
        };
        if !is_name(name) {
            return None;
        }
        Some(Symbol::N(name.to_string(), attr, None, None))
    }
}

pub fn parse_pr(s: &str) -> Option<Pr> {
    let (l, r) = s.split_once(':')?;
    if !is_name(l) {
        return None;
    }
    let (body, attr) = match r.split_once('@') {
        None => (r, ProductionAttribute::None),
        Some((b, "1")) => (b, ProductionAttribute::CollectionStart),
        Some((b, "2")) => (b, ProductionAttribute::AddToCollection),
        Some((b, "3")) => (b, ProductionAttribute::OptionalSome),
        Some((b, "4")) => (b, ProductionAttribute::OptionalNone),
        _ => return None,
    };
    let rhs: Vec<Symbol> = if body.is_empty() { vec![] } else { body.split(',').map(parse_symbol).collect::<Option<_>>()? };
    let mut p = Pr::new(l, rhs);
    p.2 = attr;
    Some(p)
}

pub fn parse_prs(s: &str) -> Option<Vec<Pr>> {
    if s == "-" {
        return Some(vec![]);
    }
    s.split(';').map(parse_pr).collect()
}

pub fn cfg_of(start: &str, prs: Vec<Pr>) -> Cfg {
    let mut cfg = Cfg::with_start_symbol(start);
    for p in prs {
        cfg = cfg.add_pr(p);
    }
    cfg
}

// ------------------------------------------------------------------------------------------------
// EBNF: encoded word → PAR text

/// `ty` = `ll` | `lr`. Returns None if the word contains characters outside the encoding or
/// attributes that PAR cannot express (`*`, `?`).
pub fn enc_to_par(ty: &str, start: &str, enc: &str) -> Option<String> {
    let gt = match ty {
        "ll" => "LL(k)",
        "lr" => "LALR(1)",
        _ => return None,
    };
    if !is_name(start) {
        return None;
    }
    let mut out = format!("%start {start}\n%title \"g\"\n%comment \"c\"\n%grammar_type '{gt}'\n\n%%\n\n");
    let cs: Vec<char> = enc.chars().collect();
    let mut i = 0;
    while i < cs.len() {
        let c = cs[i];
        if c.is_ascii_digit() {
            let j = (i..cs.len()).find(|&j| !cs[j].is_ascii_digit()).unwrap_or(cs.len());
            out.push_str(&format!("\"t{}\"", cs[i..j].iter().collect::<String>()));
            i = j;
            continue;
        }
        if c.is_ascii_alphabetic() || c == '_' {
            let j = (i..cs.len()).find(|&j| !(cs[j].is_ascii_alphanumeric() || cs[j] == '_')).unwrap_or(cs.len());
            out.push_str(&cs[i..j].iter().collect::<String>());
            i = j;
            continue;
        }
        match c {
            ':' => out.push_str(": "),
            ',' => out.push(' '),
            '|' => out.push_str(" | "),
            ';' => out.push_str(";\n"),
            '(' | ')' | '[' | ']' | '{' | '}' => {
                out.push(' ');
                out.push(c);
                out.push(' ');
            }
            '^' => out.push('^'),
            _ => return None,
        }
        i += 1;
    }
    out.push_str(";\n");
    Some(out)
}

// ------------------------------------------------------------------------------------------------
// EBNF generator

#[derive(Clone, Debug)]
pub enum F {
    T(usize),
    N(String, bool),
    G(Vec<Vec<F>>),
    O(Vec<Vec<F>>),
    R(Vec<Vec<F>>),
}

pub fn show_alts(alts: &[Vec<F>]) -> String {
    alts.iter().map(|a| a.iter().map(show_f).collect::<Vec<_>>().join(",")).collect::<Vec<_>>().join("|")
}

pub fn show_f(f: &F) -> String {
    match f {
        F::T(a) => format!("{a}"),
        F::N(n, clipped) => format!("{n}{}", if *clipped { "^" } else { "" }),
        F::G(a) => format!("({})", show_alts(a)),
        F::O(a) => format!("[{}]", show_alts(a)),
        F::R(a) => format!("{{{}}}", show_alts(a)),
    }
}

pub fn show_ebnf(prods: &[(String, Vec<Vec<F>>)]) -> String {
    prods.iter().map(|(l, a)| format!("{l}:{}", show_alts(a))).collect::<Vec<_>>().join(";")
}

pub struct EbnfGen {
    pub names: Vec<String>,
    pub nterms: usize,
    pub max_depth: usize,
    /// x/20: probability of a bracket factor
    pub bracket: usize,
    pub allow_empty_bracket: bool,
}

impl EbnfGen {
    fn factor(&self, rng: &mut Rng, depth: usize) -> F {
        if depth < self.max_depth && rng.below(20) < self.bracket {
            let alts = self.alts(rng, depth + 1, true);
            match rng.below(3) {
                0 => F::G(alts),
                1 => F::O(alts),
                _ => F::R(alts),
            }
        } else if rng.chance(1, 2) {
            F::T(5 + rng.below(self.nterms))
        } else {
            F::N(rng.pick(&self.names).clone(), rng.chance(1, 12))
        }
    }
    fn alt(&self, rng: &mut Rng, depth: usize) -> Vec<F> {
        let n = if rng.chance(1, 6) { 0 } else { rng.range(1, 3) };
        (0..n).map(|_| self.factor(rng, depth)).collect()
    }
    pub fn alts(&self, rng: &mut Rng, depth: usize, inner: bool) -> Vec<Vec<F>> {
        let n = match rng.below(6) {
            0..=2 => 1,
            3..=4 => 2,
            _ => 3,
        };
        let mut v: Vec<Vec<F>> = (0..n).map(|_| self.alt(rng, depth)).collect();
        if inner && v.len() == 1 && v[0].is_empty() && !self.allow_empty_bracket {
            v[0].push(F::T(5 + rng.below(self.nterms)));
        }
        v
    }
}

/// Name pool: base names plus names shaped like the helpers parol generates for them.
pub fn clash_names(rng: &mut Rng, nbase: usize, nextra: usize) -> Vec<String> {
    let mut names: Vec<String> = (0..nbase).map(|i| format!("N{i:02}")).collect();
    let suffixes = ["List", "Opt", "Group", "Suffix", "List0", "Opt0", "Opt1", "Group0", "List1", "OptOpt", "ListGroup", "ListList", "Opt007", "List18446744073709551615", "OptGroup", "GroupList", "Suffix0", "SuffixSuffix"];
    for _ in 0..nextra {
        let base = rng.pick(&names).clone();
        let n = format!("{base}{}", rng.pick(&suffixes));
        if !names.contains(&n) && n.len() < 40 {
            names.push(n);
        }
    }
    names
}

/// Random EBNF grammar: (start, productions).
pub fn random_ebnf(rng: &mut Rng, clashy: bool) -> (String, Vec<(String, Vec<Vec<F>>)>) {
    let nbase = rng.range(1, 3);
    let nextra = if clashy { rng.range(1, 4) } else { 0 };
    let names = clash_names(rng, nbase, nextra);
    let g = EbnfGen {
        names: names.clone(),
        nterms: rng.range(1, 3),
        max_depth: rng.range(1, 3),
        bracket: rng.range(5, 11),
        allow_empty_bracket: rng.chance(1, 25),
    };
    let mut prods = vec![];
    for n in &names {
        // some names stay undefined (used only), some have two productions
        let k = match rng.below(10) {
            0 => 0,
            1 => 2,
            _ => 1,
        };
        for _ in 0..k {
            prods.push((n.clone(), g.alts(rng, 0, false)));
        }
    }
    if prods.is_empty() {
        prods.push((names[0].clone(), g.alts(rng, 0, false)));
    }
    // The start symbol always has a production: a start symbol that is neither defined nor used is
    // the excluded point of finding "start symbol missing from variable_names" (checked separately
    // by checks/c09.py on its witnesses).
    let start = if rng.chance(1, 8) { prods[rng.below(prods.len())].0.clone() } else { prods[0].0.clone() };
    (start, prods)
}
