//! C07: lookahead automata encode exactly the lookahead sets.
//! Drives the real `LookaheadDFA::from_k_tuples` / `unite` and, through the public
//! `generate_parser_export_model`, the crate-private `CompiledDFA::from_lookahead_dfa`
//! (conversion + `AdjacencyList::minimize` + `renumber_states` + `as_compiled_dfa`).
//!
//! Requests (see `lean/ParolModel/Model/LaBuild.lean` for the model side):
//!   lad <k> <maxterm> <sets>              trie construction + unite           -> ok <k> <prods> <trans3> | conflict
//!   cmp <k> <maxterm> <sets>              … + compile + minimise              -> ok <prod0> <trans4> <k> | conflict
//!   min <k> <prods> <trans3>              compile + minimise of a given DFA   -> ok <prod0> <trans4> <k>
//!   ord <k> <prods> <trans3>              same, repeated 8 times (fresh hash orders) -> ok <prod0> <trans4> <k> | differ
//!   e2e <maxk> <start> <prods> <blocks>   whole real pipeline on a grammar    -> ok <nt>@<prod0>@<trans4>@<k>/…
//! `<sets>` = `p=tuple|tuple;p=…` (`p=-` empty set, tuple = comma list of terminal indices, `e` = ε),
//! `<blocks>` = `<nt>@<k>@<maxterm>@<sets>/…` (the tuple sets the real analysis computes for the
//! grammar; the implementation recomputes them and answers `sets-differ` if they are not the same).
use crate::cfgenc::*;
use crate::rng::Rng;
use crate::util::*;
use parol::analysis::compiled_terminal::EPS;
use parol::analysis::k_decision::{FirstCache, FollowCache, calculate_k_tuples, calculate_lookahead_dfas};
use parol::analysis::k_tuples::KTuplesBuilder;
use parol::analysis::lookahead_dfa::{DFAState, LookaheadDFA};
use parol::generators::check_and_transform_grammar;
use parol::generators::parser_generator::generate_parser_export_model;
use parol::parser::parol_grammar::GrammarType;
use parol::{Cfg, GrammarConfig, KTuples, Pr};
use std::collections::BTreeMap;

pub type Tuple = Vec<u16>;
pub type Sets = Vec<(usize, Vec<Tuple>)>;

pub fn parse_sets(s: &str) -> Option<Sets> {
    let mut res = vec![];
    for part in s.split(';') {
        let (p, ts) = part.split_once('=')?;
        let p: usize = p.parse().ok()?;
        let mut tuples = vec![];
        if ts != "-" {
            for t in ts.split('|') {
                if t == "e" {
                    tuples.push(vec![]);
                } else {
                    let v: Vec<u16> = parse_nats(t)?;
                    if v.is_empty() {
                        return None;
                    }
                    tuples.push(v);
                }
            }
        }
        res.push((p, tuples));
    }
    Some(res)
}

pub fn show_tuple(t: &Tuple) -> String {
    if t.is_empty() { "e".into() } else { show_nats(t) }
}

pub fn show_sets(sets: &Sets) -> String {
    sets.iter()
        .map(|(p, ts)| {
            format!(
                "{}={}",
                p,
                if ts.is_empty() { "-".to_string() } else { ts.iter().map(show_tuple).collect::<Vec<_>>().join("|") }
            )
        })
        .collect::<Vec<_>>()
        .join(";")
}

fn k_tuples(k: usize, maxterm: usize, tuples: &[Tuple]) -> Option<KTuples> {
    let strs: Vec<Vec<u16>> = tuples.iter().map(|t| if t.is_empty() { vec![EPS] } else { t.clone() }).collect();
    let refs: Vec<&[u16]> = strs.iter().map(|v| v.as_slice()).collect();
    let mut b = KTuplesBuilder::new();
    b.k(k).max_terminal_index(maxterm).terminal_indices(&refs);
    b.build().ok()
}

/// As `calculate_lookahead_dfas` does for the productions of one non-terminal: the first
/// production's trie is `self`, the others are united into it in the given order.
fn united(k: usize, maxterm: usize, sets: &Sets) -> Option<Result<LookaheadDFA, ()>> {
    let mut acc: Option<LookaheadDFA> = None;
    for (p, ts) in sets {
        let kt = k_tuples(k, maxterm, ts)?;
        let dfa = LookaheadDFA::from_k_tuples(&kt, *p);
        acc = Some(match acc {
            None => dfa,
            Some(a) => match a.unite(&dfa) {
                Ok(u) => u,
                Err(_) => return Some(Err(())),
            },
        });
    }
    acc.map(Ok)
}

fn show_trans3(d: &LookaheadDFA) -> String {
    let mut v = vec![];
    for (f, m) in &d.transitions {
        for (t, to) in m {
            v.push(format!("{f}:{t}:{to}"));
        }
    }
    if v.is_empty() { "-".into() } else { v.join(";") }
}

fn show_lad(d: &LookaheadDFA) -> String {
    let prods: Vec<i32> = d.states.iter().map(|s| s.prod_num).collect();
    format!("ok {} {} {}", d.k, show_nats(&prods), show_trans3(d))
}

/// A one-non-terminal grammar that only serves as the carrier for `generate_parser_export_model`.
fn carrier() -> GrammarConfig {
    let cfg = Cfg::with_start_symbol("N00").add_pr(Pr::new("N00", vec![]));
    GrammarConfig::new(cfg, 1)
}

fn show_auto(prod0: i32, trans: &[(usize, u16, usize, i32)], k: usize, sep: &str) -> String {
    let t = if trans.is_empty() {
        "-".to_string()
    } else {
        trans.iter().map(|t| format!("{}:{}:{}:{}", t.0, t.1, t.2, t.3)).collect::<Vec<_>>().join(";")
    };
    format!("{prod0}{sep}{t}{sep}{k}")
}

/// The real `CompiledDFA::from_lookahead_dfa(dfa)` as it reaches the export model.
fn compile(dfa: &LookaheadDFA) -> Option<(i32, Vec<(usize, u16, usize, i32)>, usize)> {
    let gc = carrier();
    let mut m = BTreeMap::new();
    m.insert("N00".to_string(), dfa.clone());
    let model = generate_parser_export_model(&gc, &m).ok()?;
    let a = model.lookahead_automata.first()?;
    Some((a.prod0, a.transitions.iter().map(|t| (t.from_state, t.term, t.to_state, t.prod_num)).collect(), a.k))
}

fn tuples_of(kt: &KTuples) -> Vec<Tuple> {
    let mut v: Vec<Tuple> = kt
        .sorted()
        .iter()
        .map(|t| if t.is_eps() { vec![] } else { t.terminals().iter().collect::<Vec<u16>>() })
        .collect();
    v.sort();
    v.dedup();
    v
}

pub struct NtInfo {
    pub nt: usize,
    pub k: usize,
    pub maxterm: usize,
    pub sets: Sets,
}

/// The real analysis of a grammar: transformed grammar, tuple sets per non-terminal (position in
/// the alphabetical non-terminal order), and the real automata as exported.
pub fn analyse(g: &Gram, maxk: usize) -> Option<(GrammarConfig, Vec<NtInfo>, BTreeMap<String, LookaheadDFA>)> {
    let cfg = check_and_transform_grammar(&g.to_cfg(), GrammarType::LLK).ok()?;
    let gc = GrammarConfig::new(cfg, maxk);
    let dfas = calculate_lookahead_dfas(&gc, maxk).ok()?;
    let fc = FirstCache::new();
    let foc = FollowCache::new();
    let tuples = calculate_k_tuples(&gc, maxk, &fc, &foc).ok()?;
    let maxterm = gc.cfg.get_ordered_terminals().len() + 5;
    let names: Vec<String> = gc.cfg.get_non_terminal_set().iter().cloned().collect();
    let mut infos = vec![];
    for (i, n) in names.iter().enumerate() {
        let mut sets: Sets = vec![];
        let mut k = 0;
        for (pi, _) in gc.cfg.matching_productions(n) {
            let ts = tuples_of(tuples.get(&pi)?);
            for t in &ts {
                k = k.max(t.len());
            }
            sets.push((pi, ts));
        }
        sets.sort();
        infos.push(NtInfo { nt: i, k, maxterm, sets });
    }
    Some((gc, infos, dfas))
}

fn show_blocks(infos: &[NtInfo]) -> String {
    infos.iter().map(|b| format!("{}@{}@{}@{}", b.nt, b.k, b.maxterm, show_sets(&b.sets))).collect::<Vec<_>>().join("/")
}

/// Tuples as `KTuplesBuilder` keeps them: at most k terminals, EOI only in last position
/// (anything else is answered `bad-op` on both sides).
fn normal(k: usize, sets: &Sets) -> Option<()> {
    for (_, ts) in sets {
        for t in ts {
            if t.len() > k || t.iter().rev().skip(1).any(|x| *x == 0) {
                return None;
            }
        }
    }
    Some(())
}

fn parse_lad(k: &str, prods: &str, trans: &str) -> Option<LookaheadDFA> {
    let prods: Vec<i32> = parse_nats(prods)?;
    let mut d = LookaheadDFA {
        states: prods.iter().enumerate().map(|(id, p)| DFAState { id, prod_num: *p }).collect(),
        transitions: BTreeMap::new(),
        k: k.parse().ok()?,
    };
    if trans != "-" {
        for t in trans.split(';') {
            let p: Vec<&str> = t.split(':').collect();
            if p.len() != 3 {
                return None;
            }
            d.transitions.entry(p[0].parse().ok()?).or_default().insert(p[1].parse().ok()?, p[2].parse().ok()?);
        }
    }
    Some(d)
}

pub fn run_case(w: &[&str]) -> Option<String> {
    match w {
        ["lad", k, maxterm, sets] => {
            let sets = parse_sets(sets)?;
            normal(k.parse().ok()?, &sets)?;
            Some(match united(k.parse().ok()?, maxterm.parse().ok()?, &sets)? {
                Ok(d) => show_lad(&d),
                Err(()) => "conflict".into(),
            })
        }
        ["cmp", k, maxterm, sets] => {
            let sets = parse_sets(sets)?;
            normal(k.parse().ok()?, &sets)?;
            Some(match united(k.parse().ok()?, maxterm.parse().ok()?, &sets)? {
                Ok(d) => {
                    let (p0, tr, k) = compile(&d)?;
                    format!("ok {}", show_auto(p0, &tr, k, " "))
                }
                Err(()) => "conflict".into(),
            })
        }
        ["min", k, prods, trans] => {
            let d = parse_lad(k, prods, trans)?;
            let (p0, tr, k) = compile(&d)?;
            Some(format!("ok {}", show_auto(p0, &tr, k, " ")))
        }
        ["ord", k, prods, trans] => {
            let d = parse_lad(k, prods, trans)?;
            let first = compile(&d)?;
            for _ in 0..7 {
                if compile(&d)? != first {
                    return Some("differ".into());
                }
            }
            Some(format!("ok {}", show_auto(first.0, &first.1, first.2, " ")))
        }
        ["e2e", maxk, start, prods, blocks] => {
            let g = Gram::parse(start, prods)?;
            let maxk: usize = maxk.parse().ok()?;
            let Some((gc, infos, dfas)) = analyse(&g, maxk) else { return Some("rejected".into()) };
            if show_blocks(&infos) != *blocks {
                return Some("sets-differ".into());
            }
            let model = generate_parser_export_model(&gc, &dfas).ok()?;
            let names: Vec<String> = gc.cfg.get_non_terminal_set().iter().cloned().collect();
            let mut out = vec![];
            for (i, n) in names.iter().enumerate() {
                let a = model.lookahead_automata.iter().find(|a| &a.non_terminal_name == n)?;
                let tr: Vec<(usize, u16, usize, i32)> = a.transitions.iter().map(|t| (t.from_state, t.term, t.to_state, t.prod_num)).collect();
                out.push(format!("{}@{}", i, show_auto(a.prod0, &tr, a.k, "@")));
            }
            Some(format!("ok {}", out.join("/")))
        }
        _ => None,
    }
}

/// Random prefix-free set of tuples (the leaves of a random tree of depth <= k over the letters
/// 5..5+alpha and EOI = 0, which only ever ends a tuple). `ragged`: leaves above depth k that do not
/// end in EOI are allowed (tuples the real builder classifies as Incomplete).
fn random_leaves(rng: &mut Rng, k: usize, alpha: usize, ragged: bool) -> Vec<Tuple> {
    let mut leaves = vec![];
    let mut work: Vec<Tuple> = vec![vec![]];
    while let Some(w) = work.pop() {
        if w.len() >= k {
            leaves.push(w);
            continue;
        }
        let mut terms: Vec<u16> = vec![];
        if rng.chance(1, 3) {
            terms.push(0);
        }
        for a in 0..alpha {
            if rng.chance(if w.is_empty() { 3 } else { 2 }, 4) {
                terms.push(5 + a as u16);
            }
        }
        if terms.is_empty() {
            terms.push(5 + rng.below(alpha) as u16);
        }
        for t in terms {
            let mut x = w.clone();
            x.push(t);
            if t == 0 || (ragged && rng.chance(1, 4)) {
                leaves.push(x);
            } else {
                work.push(x);
            }
        }
    }
    leaves.sort();
    leaves
}

fn random_sets(rng: &mut Rng, k: usize, alpha: usize, nprods: usize, ragged: bool) -> Sets {
    let leaves = random_leaves(rng, k, alpha, ragged);
    // distinct production numbers
    let mut pool: Vec<usize> = (0..10).collect();
    let mut ps = vec![];
    for _ in 0..nprods {
        let i = rng.below(pool.len());
        ps.push(pool.remove(i));
    }
    ps.sort();
    let mut sets: Sets = ps.iter().map(|p| (*p, vec![])).collect();
    for l in leaves {
        let i = rng.below(nprods);
        sets[i].1.push(l);
    }
    // a production without tuples would make state 0 accepting (`k_tuples.is_empty()`): keep that rare
    if !rng.chance(1, 12) {
        sets.retain(|s| !s.1.is_empty());
    }
    if sets.is_empty() {
        sets.push((ps[0], vec![]));
    }
    if rng.chance(1, 5) {
        // not in ascending production order
        let n = sets.len();
        for _ in 0..n {
            let i = rng.below(n);
            let j = rng.below(n);
            sets.swap(i, j);
        }
    }
    sets
}

/// Random layered acyclic automaton (given as a `LookaheadDFA`: prods per state, edges), state
/// numbers permuted (0 stays). `wild`: accepting inner states, back edges, unreachable states.
fn random_dag(rng: &mut Rng, wild: bool) -> (usize, Vec<i32>, Vec<(usize, u16, usize)>) {
    let depth = rng.range(1, 3);
    let mut layers: Vec<Vec<usize>> = vec![vec![0]];
    let mut n = 1;
    for _ in 0..depth {
        let w = rng.range(1, 4);
        layers.push((n..n + w).collect());
        n += w;
    }
    let nprods = rng.range(1, 3);
    let alpha = rng.range(1, 4);
    let mut edges: Vec<(usize, u16, usize)> = vec![];
    let mut has_out = vec![false; n];
    for li in 0..depth {
        for (si, &s) in layers[li].iter().enumerate() {
            if si > 0 && rng.chance(1, 3) {
                // a twin: the same successor list as an earlier state of the layer (mergeable)
                let s0 = layers[li][rng.below(si)];
                let copy: Vec<(usize, u16, usize)> = edges.iter().filter(|e| e.0 == s0).map(|e| (s, e.1, e.2)).collect();
                if !copy.is_empty() {
                    has_out[s] = true;
                }
                edges.extend(copy);
                continue;
            }
            for a in 0..alpha {
                if rng.chance(2, 3) {
                    let lj = if wild && rng.chance(1, 8) { rng.range(0, depth) } else { rng.range(li + 1, depth) };
                    let to = *rng.pick(&layers[lj]);
                    edges.push((s, if rng.chance(1, 6) { 0 } else { 5 + a as u16 }, to));
                    has_out[s] = true;
                }
            }
        }
    }
    // Accepting inner states only together with a single production: with several productions the
    // real `minimize` merges the accepting states per production in hash order and `Neighbors::append`
    // deduplicates while `rename_neighbor` does not, so the resulting neighbour lists (duplicates or
    // not) depend on that order — outside C07's hypotheses, and not reproducible for a tie.
    let inner_acc = wild && rng.chance(1, 2);
    let mut prods: Vec<i32> = (0..n)
        .map(|s| {
            if inner_acc && (!has_out[s] || rng.chance(1, 4)) {
                1
            } else if !has_out[s] {
                rng.below(nprods) as i32 + 1
            } else {
                -1
            }
        })
        .collect();
    if has_out[0] && !inner_acc {
        prods[0] = -1;
    }
    // permute state numbers 1..n
    let mut perm: Vec<usize> = (0..n).collect();
    for i in (2..n).rev() {
        let j = rng.range(1, i);
        perm.swap(i, j);
    }
    let mut p2 = vec![0; n];
    for s in 0..n {
        p2[perm[s]] = prods[s];
    }
    let mut e2: Vec<(usize, u16, usize)> = edges.iter().map(|e| (perm[e.0], e.1, perm[e.2])).collect();
    e2.sort();
    e2.dedup_by(|a, b| a.0 == b.0 && a.1 == b.1);
    (depth, p2, e2)
}

pub fn generate(seed: u64, thorough: bool) -> Vec<String> {
    let mut rng = Rng::new(seed ^ 0xC07);
    let mut out = vec![];
    // (a) random pairwise disjoint prefix-free tuple sets -> trie/unite and compiled automaton
    let nsets = if thorough { 30000 } else { 2000 };
    for i in 0..nsets {
        let k = if i % 10 == 0 { 0 } else { rng.range(1, 3) };
        let alpha = rng.range(1, 3);
        let nprods = rng.range(1, 4);
        let mut sets = random_sets(&mut rng, k, alpha, nprods, i % 4 == 3);
        if i % 8 == 5 {
            // outside the property's hypotheses (tie only): a tuple in two productions, or a proper prefix
            let all: Vec<Tuple> = sets.iter().flat_map(|s| s.1.clone()).collect();
            if !all.is_empty() {
                let mut t = rng.pick(&all).clone();
                if rng.chance(1, 2) && t.len() > 1 {
                    t.pop();
                }
                let j = rng.below(sets.len());
                if !sets[j].1.contains(&t) {
                    sets[j].1.push(t);
                }
            }
        }
        let op = if i % 3 == 0 { "lad" } else { "cmp" };
        out.push(format!("{} {} {} {}", op, k, 12, show_sets(&sets)));
    }
    // (b) compile + minimise of given automata
    let ndag = if thorough { 30000 } else { 2000 };
    for i in 0..ndag {
        let (depth, prods, edges) = random_dag(&mut rng, i % 5 == 4);
        let es = if edges.is_empty() { "-".to_string() } else { edges.iter().map(|e| format!("{}:{}:{}", e.0, e.1, e.2)).collect::<Vec<_>>().join(";") };
        out.push(format!("{} {} {} {}", if i % 3 == 2 && i % 5 != 4 { "ord" } else { "min" }, depth, show_nats(&prods), es));
    }
    // (c) end to end: random grammars accepted by the real LL(k) analysis
    let want = if thorough { 12000 } else { 800 };
    let maxk = 4;
    let mut got = 0;
    let mut tries = 0;
    while got < want && tries < want * 200 {
        tries += 1;
        let big = thorough && tries % 4 == 0;
        let c = GenCfg { max_nts: if big { 6 } else { 5 }, max_terms: if big { 4 } else { 3 }, max_prods_per_nt: 3, max_rhs: if big { 4 } else { 3 }, nt_bias: 4, allow_undefined: false };
        let g = random_gram(&mut rng, &c);
        let Some((_, infos, _)) = std::panic::catch_unwind(|| analyse(&g, maxk)).ok().flatten() else { continue };
        let kmax = infos.iter().map(|b| b.k).max().unwrap_or(0);
        // most accepted random grammars are LL(1); keep every grammar that needs more, a third of the rest
        if kmax < 2 && !rng.chance(1, 3) {
            continue;
        }
        got += 1;
        out.push(format!("e2e {} {} {}", maxk, g.show(), show_blocks(&infos)));
    }
    out
}

pub fn cli(args: &[String]) {
    if args.first().map(|s| s.as_str()) == Some("probe") {
        // pv c07 probe <maxk> <start> <prods>
        let g = Gram::parse(&args[2], &args[3]).unwrap();
        let (_, infos, _) = analyse(&g, args[1].parse().unwrap()).expect("rejected");
        println!("e2e {} {} {}", args[1], g.show(), show_blocks(&infos));
        return;
    }
    standard_cli(args, generate, run_case)
}
