//! C24: code generation is deterministic.
//!
//! * `lf-orders <rules>`: the real `parol::left_factor` is run REPS times in this process (every
//!   `HashMap::new()` inside draws a new `RandomState`); all results must be identical. The model
//!   answers the same op by evaluating `leftFactor` under several drain orders of `group_by`.
//! * `pipe <ll|lr> <start> <ebnf>` / `pipefile <path relative to the repository>`: the whole
//!   generation pipeline as the CLI runs it (`parol::build::Builder` → parse → expand →
//!   post_process → write_output: expanded grammar, parser source incl. lexer, user trait, node
//!   kind enums) is run REPS times in this process; all artefacts are compared byte for byte. The
//!   reply carries a digest of the artefacts so that the orchestrator can compare fresh processes;
//!   with `C24_OUT=<dir>` the artefacts of every case are also written there for a byte comparison
//!   across processes. `rustfmt` is replaced by a no-op stub on PATH: the *unformatted* generator
//!   output is compared (formatting could only hide differences) and the run stays fast.
use crate::c10::random_lf_grammar;
use crate::ebnfenc::*;
use crate::rng::Rng;
use crate::util::*;
use std::path::{Path, PathBuf};

pub const REPS: usize = 40;

/// repetitions of the pipeline in this process (`C24_REPS`, default REPS)
fn reps() -> usize {
    std::env::var("C24_REPS").ok().and_then(|s| s.parse().ok()).unwrap_or(REPS)
}

fn repo_root() -> PathBuf {
    std::env::var_os("PAROL_REPO").map(PathBuf::from).unwrap_or_else(|| PathBuf::from("/repo"))
}

fn work_dir() -> PathBuf {
    let d = std::env::temp_dir().join(format!("pv-c24-{}", std::process::id()));
    std::fs::create_dir_all(&d).unwrap();
    d
}

fn install_rustfmt_stub() {
    use std::sync::Once;
    static ONCE: Once = Once::new();
    ONCE.call_once(|| {
        let d = work_dir().join("bin");
        std::fs::create_dir_all(&d).unwrap();
        let p = d.join("rustfmt");
        std::fs::write(&p, "#!/bin/sh\nexit 0\n").unwrap();
        #[cfg(unix)]
        {
            use std::os::unix::fs::PermissionsExt;
            std::fs::set_permissions(&p, std::fs::Permissions::from_mode(0o755)).unwrap();
        }
        let old = std::env::var_os("PATH").unwrap_or_default();
        let mut paths = vec![d];
        paths.extend(std::env::split_paths(&old));
        // SAFETY: single-threaded harness, called before any generation starts
        unsafe { std::env::set_var("PATH", std::env::join_paths(paths).unwrap()) };
    });
}

fn fnv(bytes: &[u8], mut h: u64) -> u64 {
    for b in bytes {
        h ^= *b as u64;
        h = h.wrapping_mul(0x100000001b3);
    }
    h
}

const ARTEFACTS: [&str; 4] = ["exp.par", "parser.rs", "trait.rs", "nodes.rs"];

/// One run of the generation pipeline; returns the artefacts or a canonical error word.
fn generate_once(grammar_file: &Path, out: &Path, max_k: usize) -> Result<Vec<Vec<u8>>, String> {
    for a in ARTEFACTS {
        let _ = std::fs::remove_file(out.join(a));
    }
    let mut b = parol::build::Builder::with_explicit_output_dir(out);
    b.grammar_file(grammar_file);
    b.set_cargo_integration(false);
    b.parser_output_file("parser.rs");
    b.actions_output_file("trait.rs");
    b.expanded_grammar_output_file("exp.par");
    b.node_kind_enums_output_file("nodes.rs");
    b.node_kind_enums();
    b.user_type_name("Grm");
    b.user_trait_module_name("grm");
    b.max_lookahead(max_k).map_err(|_| "bad-k".to_string())?;
    match b.generate_parser() {
        Ok(()) => Ok(ARTEFACTS.iter().map(|a| std::fs::read(out.join(a)).unwrap_or_default()).collect()),
        Err(e) => {
            let msg = format!("{e:?}");
            if std::env::var_os("C24_DEBUG").is_some() {
                eprintln!("{msg}");
            }
            let kind = [
                ("Maximum lookahead", "max-k"),
                ("left recurs", "left-recursion"),
                ("Left recurs", "left-recursion"),
                ("LeftRecursion", "left-recursion"),
                ("nreachable", "unreachable"),
                ("roductive", "non-productive"),
                ("conflict", "lr-conflict"),
                ("Conflict", "lr-conflict"),
                ("Empty Group", "empty-bracket"),
                ("Empty Optional", "empty-bracket"),
                ("Empty Repetition", "empty-bracket"),
                ("Multiple token aliases", "token-alias"),
            ]
            .iter()
            .find(|(k, _)| msg.contains(k))
            .map(|(_, v)| v.to_string())
            .unwrap_or_else(|| "other".to_string());
            // the partially written artefacts (expanded grammar) are part of the observable output
            let partial: Vec<u8> = ARTEFACTS.iter().flat_map(|a| std::fs::read(out.join(a)).unwrap_or_default()).collect();
            Err(format!("{kind}:{:016x}", fnv(&partial, 0xcbf29ce484222325)))
        }
    }
}

fn pipeline(text: &str, tag: &str, max_k: usize) -> String {
    install_rustfmt_stub();
    let dir = work_dir();
    let gf = dir.join("g.par");
    std::fs::write(&gf, text).unwrap();
    let out = dir.join("out");
    std::fs::create_dir_all(&out).unwrap();
    let first = generate_once(&gf, &out, max_k);
    let reps = reps();
    for rep in 1..reps {
        let again = generate_once(&gf, &out, max_k);
        if again != first {
            let which = match (&first, &again) {
                (Ok(a), Ok(b)) => (0..ARTEFACTS.len()).find(|&i| a[i] != b[i]).map(|i| ARTEFACTS[i]).unwrap_or("?"),
                _ => "outcome",
            };
            return format!("differ {which} rep={rep}");
        }
    }
    if let Some(d) = std::env::var_os("C24_OUT") {
        let d = PathBuf::from(d);
        let _ = std::fs::create_dir_all(&d);
        let mut blob: Vec<u8> = vec![];
        match &first {
            Ok(arts) => {
                for (i, a) in arts.iter().enumerate() {
                    blob.extend_from_slice(format!("\n=== {} {}\n", ARTEFACTS[i], a.len()).as_bytes());
                    blob.extend_from_slice(a);
                }
            }
            Err(e) => blob.extend_from_slice(e.as_bytes()),
        }
        std::fs::write(d.join(format!("{tag}.out")), blob).unwrap();
    }
    match first {
        Ok(arts) => {
            let mut h = 0xcbf29ce484222325u64;
            let mut len = 0usize;
            for a in &arts {
                h = fnv(a, h);
                h = fnv(b"|", h);
                len += a.len();
            }
            format!("same {h:016x} {len}")
        }
        Err(e) => format!("same-error {e}"),
    }
}

fn tag_of(words: &[&str]) -> String {
    format!("{:016x}", fnv(words.join(" ").as_bytes(), 0xcbf29ce484222325))
}

pub fn run_case(w: &[&str]) -> Option<String> {
    match w {
        ["lf-orders", rules] => {
            let prs = parse_prs(rules)?;
            let start = prs.first().map(|p| p.get_n_str().to_string()).unwrap_or_else(|| "S".to_string());
            let cfg = cfg_of(&start, prs);
            let first = show_prs(&parol::left_factor(&cfg).pr);
            for _ in 1..REPS {
                if show_prs(&parol::left_factor(&cfg).pr) != first {
                    return Some("differ".into());
                }
            }
            Some(format!("same ok {first}"))
        }
        ["pipe", ty, st, enc] => {
            let par = enc_to_par(ty, st, enc)?;
            Some(pipeline(&par, &tag_of(w), 5))
        }
        ["pipefile", rel] => {
            if rel.contains("..") {
                return None;
            }
            let text = std::fs::read_to_string(repo_root().join(rel)).ok()?;
            Some(pipeline(&text, &tag_of(w), 5))
        }
        _ => None,
    }
}

/// Grammar for the pipeline cases: an EBNF grammar whose non-terminals all have several
/// alternatives with shared prefixes of equal group sizes (ties), reachable and productive by
/// construction, not left-recursive (every alternative starts with a terminal).
fn tie_grammar(rng: &mut Rng) -> (String, String) {
    let n = rng.range(1, 4);
    let names: Vec<String> = (0..n).map(|i| format!("N{i:02}")).collect();
    let nterms = rng.range(2, 4);
    let mut prods = vec![];
    for (i, name) in names.iter().enumerate() {
        let mut alts: Vec<String> = vec![];
        let ngroups = rng.range(1, 3);
        let size = rng.range(2, 3);
        for g in 0..ngroups {
            // `size` alternatives sharing the prefix "t(5+g) [t..]": equal group sizes = ties
            let plen = rng.range(1, 2);
            let prefix: Vec<String> = (0..plen).map(|j| format!("{}", 5 + (g + j) % nterms)).collect();
            for k in 0..size {
                let mut rhs = prefix.clone();
                rhs.push(format!("{}", 10 + k));
                if i + 1 < n && rng.chance(2, 3) {
                    rhs.push(names[i + 1].clone());
                }
                match rng.below(5) {
                    0 => rhs.push(format!("{{{}}}", 20 + k)),
                    1 => rhs.push(format!("[{}]", 21 + k)),
                    2 => rhs.push(format!("({}|{})", 22 + k, 23 + k)),
                    _ => {}
                }
                alts.push(rhs.join(","));
            }
        }
        if i + 1 < n && !alts.iter().any(|a| a.contains(&names[i + 1])) {
            alts.push(format!("30,{}", names[i + 1]));
        }
        // shuffle the alternatives so that the first-occurring group varies
        for _ in 0..alts.len() {
            let a = rng.below(alts.len());
            let b = rng.below(alts.len());
            alts.swap(a, b);
        }
        prods.push(format!("{name}:{}", alts.join("|")));
    }
    (names[0].clone(), prods.join(";"))
}

/// Differential cases (answered by the model as well).
pub fn generate(seed: u64, thorough: bool) -> Vec<String> {
    let mut rng = Rng::new(seed ^ 0xC24);
    let mut out = vec![];
    let n = if thorough { 2500 } else { 400 };
    for i in 0..n {
        let g = random_lf_grammar(&mut rng, i % 4 == 0, i % 6 == 0);
        if g.len() > 500 {
            continue;
        }
        out.push(format!("lf-orders {g}"));
    }
    out
}

/// Pipeline cases (implementation only; compared across repetitions and fresh processes).
pub fn generate_pipe(seed: u64, thorough: bool) -> Vec<String> {
    let mut rng = Rng::new(seed ^ 0x24C);
    let mut out = vec![];
    let n = if thorough { 120 } else { 24 };
    for i in 0..n {
        let (st, g) = tie_grammar(&mut rng);
        out.push(format!("pipe {} {st} {g}", if i % 3 == 2 { "lr" } else { "ll" }));
    }
    let mut files = vec![];
    fn walk(d: &Path, files: &mut Vec<PathBuf>) {
        if let Ok(rd) = std::fs::read_dir(d) {
            let mut es: Vec<PathBuf> = rd.filter_map(|e| e.ok().map(|e| e.path())).collect();
            es.sort();
            for p in es {
                if p.is_dir() {
                    if p.file_name().map(|n| n != "target").unwrap_or(true) {
                        walk(&p, files);
                    }
                } else if p.extension().map(|e| e == "par").unwrap_or(false) {
                    files.push(p);
                }
            }
        }
    }
    let root = repo_root();
    walk(&root.join("examples"), &mut files);
    for f in files {
        if let Ok(rel) = f.strip_prefix(&root) {
            out.push(format!("pipefile {}", rel.display()));
        }
    }
    out
}

pub fn cli(args: &[String]) {
    if args.first().map(|s| s.as_str()) == Some("genpipe") {
        use std::io::Write;
        let seed: u64 = args.get(1).and_then(|s| s.parse().ok()).unwrap_or(0);
        let thorough = args.get(2).map(|s| s == "thorough").unwrap_or(false);
        let mut s = generate_pipe(seed, thorough).join("\n");
        s.push('\n');
        std::io::stdout().write_all(s.as_bytes()).unwrap();
        return;
    }
    if args.first().map(|s| s.as_str()) == Some("runpipe") {
        // parol prints LR conflict reports to stdout; the replies therefore go to a file
        use std::io::{BufRead, Write};
        let path = args.get(1).expect("runpipe <replies-file>");
        let mut f = std::io::BufWriter::new(std::fs::File::create(path).unwrap());
        std::panic::set_hook(Box::new(|_| {}));
        for line in std::io::stdin().lock().lines() {
            let line = line.unwrap();
            let words: Vec<&str> = line.split_whitespace().collect();
            let reply = match std::panic::catch_unwind(|| run_case(&words)) {
                Ok(Some(s)) => s,
                Ok(None) => "bad-op".to_string(),
                Err(_) => "panic".to_string(),
            };
            writeln!(f, "{reply}").unwrap();
        }
        f.flush().unwrap();
        return;
    }
    standard_cli(args, generate, run_case)
}
