//! C31: Levenshtein edit scripts. gen: exhaustive small scope + random pairs; run: real function.
use crate::rng::Rng;
use crate::util::*;
use parol_runtime::parser::verif_hooks::{EditOp, levenshtein_distance};

pub fn run_case(w: &[&str]) -> Option<String> {
    match w {
        ["lev", a, e] => {
            let a: Vec<u16> = parse_nats(a)?;
            let e: Vec<u16> = parse_nats(e)?;
            let (d, ops) = levenshtein_distance(&a, &e);
            let ops: Vec<&str> = ops
                .iter()
                .map(|o| match o {
                    EditOp::Keep => "K",
                    EditOp::Insert => "I",
                    EditOp::Delete => "D",
                    EditOp::Replace => "R",
                })
                .collect();
            Some(format!("{d} {}", show_nats(&ops)))
        }
        _ => None,
    }
}

fn all_seqs(alpha: usize, max_len: usize) -> Vec<Vec<usize>> {
    let mut res = vec![vec![]];
    let mut frontier = vec![vec![]];
    for _ in 0..max_len {
        let mut next = vec![];
        for s in &frontier {
            for a in 0..alpha {
                let mut t: Vec<usize> = s.clone();
                t.push(a);
                next.push(t);
            }
        }
        res.extend(next.iter().cloned());
        frontier = next;
    }
    res
}

pub fn generate(seed: u64, thorough: bool) -> Vec<String> {
    let mut out = vec![];
    // exhaustive: all pairs over {0,1,2} up to length n
    let n = if thorough { 5 } else { 4 };
    let seqs = all_seqs(3, n);
    for a in &seqs {
        for e in &seqs {
            out.push(format!("lev {} {}", show_nats(a), show_nats(e)));
        }
    }
    // random pairs (bounded length: the model's `cell` is the naive recursion)
    let mut rng = Rng::new(seed);
    let nrand = if thorough { 6000 } else { 1500 };
    for _ in 0..nrand {
        let alpha = rng.range(1, 6);
        let la = rng.range(0, 8);
        let a: Vec<usize> = (0..la).map(|_| rng.below(alpha)).collect();
        let e: Vec<usize> = if rng.chance(1, 2) {
            // near-equal: mutate a
            let mut e = a.clone();
            for _ in 0..rng.range(0, 3) {
                match rng.below(3) {
                    0 if !e.is_empty() => {
                        let i = rng.below(e.len());
                        e.remove(i);
                    }
                    1 if e.len() < 8 => {
                        let i = rng.below(e.len() + 1);
                        e.insert(i, rng.below(alpha));
                    }
                    _ if !e.is_empty() => {
                        let i = rng.below(e.len());
                        e[i] = rng.below(alpha);
                    }
                    _ => {}
                }
            }
            e
        } else {
            let le = rng.range(0, 8);
            (0..le).map(|_| rng.below(alpha)).collect()
        };
        out.push(format!("lev {} {}", show_nats(&a), show_nats(&e)));
    }
    out
}

pub fn cli(args: &[String]) {
    standard_cli(args, generate, run_case)
}
