//! `pv <prop> gen <seed> <quick|thorough>` writes cases to stdout;
//! `pv <prop> run` reads cases from stdin and writes one reply per line.
use pv::*;

fn main() {
    let args: Vec<String> = std::env::args().collect();
    if args.len() < 3 {
        eprintln!("usage: pv <prop> gen <seed> <tier> | pv <prop> run");
        std::process::exit(2);
    }
    let prop = args[1].as_str();
    match args[2].as_str() {
        "gen" => {
            let seed: u64 = args.get(3).and_then(|s| s.parse().ok()).unwrap_or(0);
            let thorough = args.get(4).map(|s| s == "thorough").unwrap_or(false);
            let cases = match prop {
                "c31" => c31::generate(seed, thorough),
                _ => {
                    eprintln!("unknown property {prop}");
                    std::process::exit(2);
                }
            };
            let mut s = cases.join("\n");
            s.push('\n');
            use std::io::Write;
            std::io::stdout().write_all(s.as_bytes()).unwrap();
        }
        "run" => match prop {
            "c31" => util::run_lines(c31::run_case),
            _ => {
                eprintln!("unknown property {prop}");
                std::process::exit(2);
            }
        },
        _ => std::process::exit(2),
    }
}
