//! `pv_ls <module> gen <seed> <quick|thorough> | pv_ls <module> run | …` — second harness binary,
//! for the properties about the language server (crates/parol-ls).
//!
//! How the language-server sources get in here
//! -------------------------------------------
//! parol-ls is a bin-only crate: there is no library to depend on, and its modules refer to each
//! other as `crate::<module>`. This binary therefore *is* a second crate root for the same
//! sources: it declares the same top-level modules as crates/parol-ls/src/main.rs, each with
//! `#[path = "<REPO>/crates/parol-ls/src/<m>.rs"] mod <m>;`, so rustc compiles the CURRENT files of
//! the repository's working tree as modules of this crate (`crate::utils`, `crate::server`, …
//! resolve exactly as in parol-ls, and `pub(crate)` items are reachable from the property modules
//! below). `#[path]` needs a string literal and the repository path is only known at build time, so
//! the declarations are written by harness/build.rs into `$OUT_DIR/ls_mods.rs` (module list read
//! from main.rs; repository path from `[package.metadata.verif] repo` of the generated Cargo.toml)
//! and included here. Files loaded through `#[path]` behave like `mod.rs` files, so
//! `formatting/mod.rs` finds its children in `formatting/`.
//!
//! Not included: main.rs itself (argument parsing, the stdio/TCP connection and the main loop;
//! nothing in the other modules refers to its items). The generated parser
//! (parol_ls_parser.rs, parol_ls_grammar_trait.rs) is compiled as checked in; build.rs regenerates
//! it into OUT_DIR with the repository's parol and reports a difference as a cargo warning, in
//! `$OUT_DIR/stale.txt`, and through `pv_ls stale` (nothing is written into the repository).
//!
//! Property modules for this binary live in harness/src/ls/<name>.rs and are included below with
//! `#[path]`; they are NOT part of the `pv` library crate (they need `crate::server` etc.).
//! `bin/gen_glue` does not touch this file: add a `mod` line and a dispatch arm by hand.
//! Shared helpers (`pv::util`, `pv::rng`) come from the library crate.

include!(concat!(env!("OUT_DIR"), "/ls_mods.rs"));

#[path = "../ls/lsutil.rs"]
mod lsutil;

#[path = "../ls/c30.rs"]
mod c30;

#[path = "../ls/c34.rs"]
mod c34;

#[path = "../ls/c27.rs"]
mod c27;
#[path = "../ls/c29.rs"]
mod c29;

#[path = "../ls/c28.rs"]
mod c28;

/// Report of harness/build.rs about the checked-in generated parser (empty = up to date).
const STALE_REPORT: &str = include_str!(concat!(env!("OUT_DIR"), "/ls_stale_report.txt"));

fn main() {
    let args: Vec<String> = std::env::args().collect();
    if args.len() < 2 {
        eprintln!("usage: pv_ls <module> gen <seed> <quick|thorough> | pv_ls <module> run | pv_ls stale | pv_ls repo");
        std::process::exit(2);
    }
    match args[1].as_str() {
        "c30" => c30::cli(&args[2..]),
        "c34" => c34::cli(&args[2..]),
        "c27" => c27::cli(&args[2..]),
        "c29" => c29::cli(&args[2..]),
        "c28" => c28::cli(&args[2..]),
        "stale" => {
            if STALE_REPORT.is_empty() {
                println!("fresh");
            } else {
                print!("{STALE_REPORT}");
            }
        }
        "repo" => println!("{LS_REPO}"),
        other => {
            eprintln!("unknown module {other}");
            std::process::exit(2);
        }
    }
}
