//! C32: the packed k-tuple representation (`parol::analysis::k_tuple::{Terminals, KTuple}`).
//!
//! A case is one word: an op program `op;op;…`, fields of an op separated by `:`. Registers
//! `t0..t3` hold `Terminals` (initially `Terminals::default()`), `k0..k3` hold `KTuple`s (initially
//! unset). `run_case` executes the program on the REAL types through their public API and prints one
//! observation word per op (see `Model/Terminals.lean`, `stepOp`, for the identical interpreter on
//! the model side). A `Terminals` state is rendered as `<raw word, 32 hex digits>/<next_index>/<bits>`;
//! the raw word is private, it is read back from the `Debug` output (`0b<binary>, i:…`).
use crate::rng::Rng;
use crate::util::*;
use parol::analysis::compiled_terminal::CompiledTerminal;
use parol::analysis::k_tuple::{KTuple, KTupleBuilder, Terminals};
use std::cmp::Ordering;

fn raw(t: &Terminals) -> Option<u128> {
    let d = format!("{t:?}");
    let b = d.strip_prefix("0b")?;
    let b = &b[..b.find(',')?];
    u128::from_str_radix(b, 2).ok()
}

fn render(t: &Terminals) -> Option<String> {
    Some(format!("{:032x}/{}/{}", raw(t)?, t.next_index(), t.bits()))
}

fn render_k(x: &KTuple) -> Option<String> {
    Some(format!(
        "{}/{}/{}",
        if x.is_k_complete() { "C" } else { "I" },
        render(x.terminals())?,
        x.k()
    ))
}

fn show_ord(o: Ordering) -> &'static str {
    match o {
        Ordering::Less => "lt",
        Ordering::Equal => "eq",
        Ordering::Greater => "gt",
    }
}

fn show_bool(b: bool) -> &'static str {
    if b { "1" } else { "0" }
}

fn reg(s: &str, p: char) -> Option<usize> {
    let n: usize = s.strip_prefix(p)?.parse().ok()?;
    if n < 4 { Some(n) } else { None }
}

struct Regs {
    t: [Terminals; 4],
    k: [Option<KTuple>; 4],
}

fn step(rg: &mut Regs, w: &[&str]) -> Option<String> {
    let un = |s: &str| s.parse::<usize>().ok();
    let u16v = |s: &str| s.parse::<u16>().ok();
    let u16s = |s: &str| parse_nats::<u16>(s);
    match w {
        ["default", r] => {
            let i = reg(r, 't')?;
            rg.t[i] = Terminals::default();
            render(&rg.t[i])
        }
        ["new", r, m] => {
            let (i, m) = (reg(r, 't')?, un(m)?);
            rg.t[i] = Terminals::new(m);
            render(&rg.t[i])
        }
        ["eps", r, m] => {
            let (i, m) = (reg(r, 't')?, un(m)?);
            rg.t[i] = Terminals::eps(m);
            render(&rg.t[i])
        }
        ["end", r, m] => {
            let (i, m) = (reg(r, 't')?, un(m)?);
            rg.t[i] = Terminals::end(m);
            render(&rg.t[i])
        }
        ["of", r, s, k] => {
            let (i, s, k) = (reg(r, 't')?, reg(s, 't')?, un(k)?);
            rg.t[i] = Terminals::of(k, rg.t[s]);
            render(&rg.t[i])
        }
        ["push", r, v] => {
            let (i, v) = (reg(r, 't')?, u16v(v)?);
            let res = rg.t[i].push(CompiledTerminal(v));
            Some(format!("{}={}", if res.is_ok() { "ok" } else { "err" }, render(&rg.t[i])?))
        }
        ["ext", r, vs] => {
            let (i, vs) = (reg(r, 't')?, u16s(vs)?);
            rg.t[i].extend(vs.iter().cloned());
            render(&rg.t[i])
        }
        ["kcat", r, a, b, k] => {
            let (i, a, b, k) = (reg(r, 't')?, reg(a, 't')?, reg(b, 't')?, un(k)?);
            let other = rg.t[b];
            rg.t[i] = rg.t[a].k_concat(&other, k);
            render(&rg.t[i])
        }
        ["clear", r] => {
            let i = reg(r, 't')?;
            rg.t[i].clear();
            render(&rg.t[i])
        }
        ["set", r, ix, v] => {
            let (i, ix, v) = (reg(r, 't')?, un(ix)?, u16v(v)?);
            rg.t[i].set(ix, CompiledTerminal(v));
            render(&rg.t[i])
        }
        ["get", r, ix] => {
            let (i, ix) = (reg(r, 't')?, un(ix)?);
            Some(match rg.t[i].get(ix) {
                None => "none".to_string(),
                Some(c) => c.0.to_string(),
            })
        }
        ["len", r] => Some(rg.t[reg(r, 't')?].len().to_string()),
        ["empty", r] => Some(show_bool(rg.t[reg(r, 't')?].is_empty()).to_string()),
        ["klen", r, k] => Some(rg.t[reg(r, 't')?].k_len(un(k)?).to_string()),
        ["iseps", r] => Some(show_bool(rg.t[reg(r, 't')?].is_eps()).to_string()),
        ["kc", r, k] => Some(show_bool(rg.t[reg(r, 't')?].is_k_complete(un(k)?)).to_string()),
        ["iter", r] => {
            let v: Vec<u16> = rg.t[reg(r, 't')?].iter().collect();
            Some(show_nats(&v))
        }
        ["eq", a, b] => Some(show_bool(rg.t[reg(a, 't')?] == rg.t[reg(b, 't')?]).to_string()),
        ["cmp", a, b] => Some(show_ord(rg.t[reg(a, 't')?].cmp(&rg.t[reg(b, 't')?])).to_string()),
        // KTuple / KTupleBuilder
        ["kb", r, k, m, ts] => {
            let (i, k, m, ts) = (reg(r, 'k')?, un(k)?, un(m)?, u16s(ts)?);
            match KTupleBuilder::new().k(k).max_terminal_index(m).terminal_string(&ts).build() {
                Ok(x) => {
                    rg.k[i] = Some(x);
                    Some(format!("ok={}", render_k(&x)?))
                }
                Err(_) => Some("err".to_string()),
            }
        }
        ["kbk", r, k, m, s] => {
            let (i, k, m, s) = (reg(r, 'k')?, un(k)?, un(m)?, reg(s, 'k')?);
            let src = rg.k[s]?;
            match KTupleBuilder::new().k(k).max_terminal_index(m).k_tuple(&src).build() {
                Ok(x) => {
                    rg.k[i] = Some(x);
                    Some(format!("ok={}", render_k(&x)?))
                }
                Err(_) => Some("err".to_string()),
            }
        }
        ["keps", r, k, m] => {
            let (i, k, m) = (reg(r, 'k')?, un(k)?, un(m)?);
            let x = KTupleBuilder::new().k(k).max_terminal_index(m).eps().ok()?;
            rg.k[i] = Some(x);
            render_k(&x)
        }
        ["kend", r, k, m] => {
            let (i, k, m) = (reg(r, 'k')?, un(k)?, un(m)?);
            let x = KTupleBuilder::new().k(k).max_terminal_index(m).end().ok()?;
            rg.k[i] = Some(x);
            render_k(&x)
        }
        ["kfs", r, k, m, ts] => {
            let (i, k, m, ts) = (reg(r, 'k')?, un(k)?, un(m)?, u16s(ts)?);
            let cts: Vec<CompiledTerminal> = ts.iter().map(|t| CompiledTerminal(*t)).collect();
            let x = KTuple::from_slice(&cts, k, m);
            rg.k[i] = Some(x);
            render_k(&x)
        }
        ["kof", r, s, k] => {
            let (i, s, k) = (reg(r, 'k')?, reg(s, 't')?, un(k)?);
            let x = KTuple::of(rg.t[s], k);
            rg.k[i] = Some(x);
            render_k(&x)
        }
        ["kpush", r, v] => {
            let (i, v) = (reg(r, 'k')?, u16v(v)?);
            let mut x = rg.k[i]?;
            let res = x.push(CompiledTerminal(v));
            rg.k[i] = Some(x);
            Some(format!("{}={}", if res.is_ok() { "ok" } else { "err" }, render_k(&x)?))
        }
        ["kext", r, vs] => {
            let (i, vs) = (reg(r, 'k')?, u16s(vs)?);
            let mut x = rg.k[i]?;
            x.extend(vs.iter().cloned());
            rg.k[i] = Some(x);
            render_k(&x)
        }
        ["kkcat", r, a, b, k] => {
            let (i, a, b, k) = (reg(r, 'k')?, reg(a, 'k')?, reg(b, 'k')?, un(k)?);
            let (x, y) = (rg.k[a]?, rg.k[b]?);
            let z = x.k_concat(&y, k);
            rg.k[i] = Some(z);
            render_k(&z)
        }
        ["ksetk", r, k] => {
            let (i, k) = (reg(r, 'k')?, un(k)?);
            let x = rg.k[i]?.set_k(k);
            rg.k[i] = Some(x);
            render_k(&x)
        }
        ["Kiseps", r] => Some(show_bool(rg.k[reg(r, 'k')?]?.is_eps()).to_string()),
        ["Klen", r] => Some(rg.k[reg(r, 'k')?]?.len().to_string()),
        ["Kempty", r] => Some(show_bool(rg.k[reg(r, 'k')?]?.is_empty()).to_string()),
        ["Kklen", r, k] => Some(rg.k[reg(r, 'k')?]?.k_len(un(k)?).to_string()),
        ["Kkc", r] => Some(show_bool(rg.k[reg(r, 'k')?]?.is_k_complete()).to_string()),
        ["Kk", r] => Some(rg.k[reg(r, 'k')?]?.k().to_string()),
        ["Kterms", r] => render(rg.k[reg(r, 'k')?]?.terminals()),
        ["Keq", a, b] => Some(show_bool(rg.k[reg(a, 'k')?]? == rg.k[reg(b, 'k')?]?).to_string()),
        ["Kcmp", a, b] => Some(show_ord(rg.k[reg(a, 'k')?]?.cmp(&rg.k[reg(b, 'k')?]?)).to_string()),
        _ => None,
    }
}

pub fn run_case(w: &[&str]) -> Option<String> {
    match w {
        ["terminals-prog", p] => {
            let ops: Vec<&str> = p.split(';').filter(|o| !o.is_empty()).collect();
            if ops.len() > 64 {
                return None;
            }
            let mut rg = Regs { t: [Terminals::default(); 4], k: [None; 4] };
            let mut obs = vec![];
            for o in ops {
                let f: Vec<&str> = o.split(':').collect();
                obs.push(step(&mut rg, &f)?);
            }
            Some(obs.join(" "))
        }
        _ => None,
    }
}

// ------------------------------------------------------------------------------------------------
// generator

fn all_seqs(alpha: usize, max_len: usize) -> Vec<Vec<usize>> {
    let mut res = vec![vec![]];
    let mut frontier: Vec<Vec<usize>> = vec![vec![]];
    for _ in 0..max_len {
        let mut next = vec![];
        for s in &frontier {
            for a in 0..alpha {
                let mut t = s.clone();
                t.push(a);
                next.push(t);
            }
        }
        res.extend(next.iter().cloned());
        frontier = next;
    }
    res
}

/// the boundary alphabet sizes: 2^n-2, 2^n-1, 2^n for n = 1..12, and 4094, 4095, 4096
pub fn boundary_ms() -> Vec<usize> {
    let mut v = vec![];
    for n in 1..=12u32 {
        let p = 1usize << n;
        v.extend([p - 2, p - 1, p]);
    }
    v.extend([4094, 4095, 4096]);
    v.sort();
    v.dedup();
    v
}

/// an operand source for the exhaustive part: a pushed sequence, ε, or end-of-input
fn operand(r: usize, m: usize, s: &Option<Vec<usize>>) -> String {
    match s {
        None => format!("eps:t{r}:{m}"),
        Some(s) => format!("new:t{r}:{m};ext:t{r}:{}", show_nats(s)),
    }
}

fn terminal_value(rng: &mut Rng, m: usize, in_domain: bool) -> usize {
    let mask = (1usize << ((m + 1).ilog2() + 1)) - 1;
    match rng.below(if in_domain { 8 } else { 12 }) {
        0 => 0,
        1 => m,
        2 => m.saturating_sub(1),
        3 => 65535,
        4 => 1.min(m),
        5..=7 => rng.below(m + 1),
        8 => mask,
        9 => (m + 1).min(65535),
        10 => 65534,
        _ => rng.below(65536),
    }
}

fn random_prog(rng: &mut Rng, m: usize) -> String {
    // mostly inside the specified domain (valid terminals, one bit width, k <= 10)
    let in_domain = !rng.chance(1, 8);
    let n_ops = rng.range(3, 12);
    let mut ops: Vec<String> = vec![];
    let m2 = if in_domain || rng.chance(1, 2) { m } else { *rng.pick(&boundary_ms()) };
    // registers t0,t1 are constructed first so that most later ops act on well-formed values
    for r in 0..2 {
        let mm = if r == 0 { m } else { m2 };
        ops.push(match rng.below(6) {
            0 => format!("eps:t{r}:{mm}"),
            1 => format!("end:t{r}:{mm}"),
            _ => format!("new:t{r}:{mm}"),
        });
    }
    let kmax = if in_domain { 10 } else { 13 };
    // registers that hold a constructed value (in-domain programs only read those)
    let mut init: Vec<usize> = vec![0, 1];
    while ops.len() < n_ops {
        let (r, a, b) = if in_domain {
            (*rng.pick(&init), *rng.pick(&init), *rng.pick(&init))
        } else {
            (rng.below(4), rng.below(4), rng.below(4))
        };
        let dest = rng.below(4);
        let k = rng.range(0, kmax);
        let v = terminal_value(rng, m, in_domain);
        let op = match rng.below(30) {
            0..=6 => format!("push:t{r}:{v}"),
            7..=9 => {
                let hi = if rng.chance(1, 6) { 12 } else { 4 };
                let n = rng.range(0, hi);
                let vs: Vec<usize> = (0..n).map(|_| terminal_value(rng, m, in_domain)).collect();
                format!("ext:t{r}:{}", show_nats(&vs))
            }
            10..=13 => {
                if !init.contains(&dest) {
                    init.push(dest);
                }
                format!("kcat:t{dest}:t{a}:t{b}:{k}")
            }
            14 => {
                if !init.contains(&dest) {
                    init.push(dest);
                }
                format!("of:t{dest}:t{a}:{k}")
            }
            15 => format!("clear:t{r}"),
            16 => format!("get:t{r}:{}", rng.range(0, 11)),
            17 => format!("len:t{r}"),
            18 => format!("empty:t{r}"),
            19 => format!("klen:t{r}:{k}"),
            20 => format!("iseps:t{r}"),
            21 => format!("kc:t{r}:{k}"),
            22 => format!("iter:t{r}"),
            23 => format!("eq:t{a}:t{b}"),
            24..=25 => format!("cmp:t{a}:t{b}"),
            26 => format!("set:t{r}:{}:{v}", rng.range(0, if in_domain { 3 } else { 11 })),
            27 => format!("new:t{r}:{m}"),
            28 => format!("eps:t{r}:{m}"),
            _ => {
                if in_domain {
                    format!("end:t{r}:{m}")
                } else {
                    format!("default:t{r}")
                }
            }
        };
        ops.push(op);
    }
    ops.join(";")
}

fn random_kprog(rng: &mut Rng, m: usize) -> String {
    let in_domain = !rng.chance(1, 8);
    let n_ops = rng.range(6, 12);
    let kmax = if in_domain { 10 } else { 12 };
    let mut ops: Vec<String> = vec![];
    let seq = |rng: &mut Rng| -> String {
        let hi = if rng.chance(1, 6) { 12 } else { 4 };
        let n = rng.range(0, hi);
        let vs: Vec<usize> = (0..n).map(|_| terminal_value(rng, m, in_domain)).collect();
        show_nats(&vs)
    };
    for r in 0..2 {
        let k = rng.range(0, kmax);
        let s = seq(rng);
        match rng.below(6) {
            0 => ops.push(format!("keps:k{r}:{k}:{m}")),
            1 => ops.push(format!("kend:k{r}:{k}:{m}")),
            2 => ops.push(format!("kfs:k{r}:{k}:{m}:{s}")),
            3 => {
                ops.push(format!("new:t0:{m}"));
                ops.push(format!("ext:t0:{s}"));
                ops.push(format!("kof:k{r}:t0:{k}"));
            }
            _ => ops.push(format!("kb:k{r}:{k}:{m}:{s}")),
        }
    }
    while ops.len() < n_ops {
        let r = rng.below(2);
        let a = rng.below(2);
        let b = rng.below(2);
        let k = rng.range(0, kmax);
        let v = terminal_value(rng, m, in_domain);
        let op = match rng.below(20) {
            0..=3 => format!("kpush:k{r}:{v}"),
            4..=5 => format!("kext:k{r}:{}", seq(rng)),
            6..=9 => format!("kkcat:k{r}:k{a}:k{b}:{k}"),
            10 => format!("ksetk:k{r}:{k}"),
            11 => format!("kbk:k{r}:{k}:{m}:k{a}"),
            12 => format!("Kiseps:k{r}"),
            13 => format!("Klen:k{r}"),
            14 => format!("Kklen:k{r}:{k}"),
            15 => format!("Kkc:k{r}"),
            16 => format!("Kk:k{r}"),
            17 => format!("Kterms:k{r}"),
            18 => format!("Keq:k{a}:k{b}"),
            _ => format!("Kcmp:k{a}:k{b}"),
        };
        ops.push(op);
    }
    ops.join(";")
}

pub fn generate(seed: u64, thorough: bool) -> Vec<String> {
    let mut out: Vec<String> = vec![];
    // (1) the constructors at every boundary alphabet size, with the extreme terminal pushed 10+1 times
    for m in boundary_ms() {
        out.push(format!("new:t0:{m};len:t0;empty:t0;get:t0:0;iter:t0;kc:t0:0;kc:t0:1"));
        out.push(format!("eps:t0:{m};len:t0;iseps:t0;get:t0:0;iter:t0;kc:t0:0;kc:t0:1"));
        out.push(format!("end:t0:{m};len:t0;iseps:t0;get:t0:0;iter:t0;kc:t0:0;kc:t0:5"));
        let mm = m.min(65533);
        let b = if mm >= 2 { mm - 1 } else { mm };
        let full: Vec<usize> = (0..11).map(|i| if i % 2 == 0 { mm } else { b }).collect();
        out.push(format!(
            "new:t0:{m};ext:t0:{};iter:t0;get:t0:9;get:t0:10;push:t0:{mm};new:t1:{m};push:t1:{mm};kcat:t2:t1:t0:10;cmp:t0:t2;eq:t0:t2",
            show_nats(&full)
        ));
    }
    // (2) exhaustive small scope: alphabet <= 3 (terminals 0..a-1, 0 = end of input), operands of
    //     length <= 4 (or ε), k <= 3 (thorough: length <= 5, k <= 4)
    let (max_len, max_k) = if thorough { (5, 4) } else { (4, 3) };
    for a in 1..=3usize {
        let m = a - 1;
        let mut operands: Vec<Option<Vec<usize>>> = all_seqs(a, max_len).into_iter().map(Some).collect();
        operands.push(None);
        for u in &operands {
            for v in &operands {
                for k in 0..=max_k {
                    let g = if k == 0 { 0 } else { k - 1 };
                    out.push(format!(
                        "{};{};kcat:t2:t0:t1:{k};iter:t2;kc:t2:{k};get:t2:{g};cmp:t0:t1;eq:t0:t1;of:t3:t1:{k}",
                        operand(0, m, u),
                        operand(1, m, v)
                    ));
                }
            }
        }
    }
    // (3) KTuple wrappers, exhaustive: alphabet <= 2, length <= 3, k <= 3
    for a in 1..=2usize {
        let m = a - 1;
        let seqs = all_seqs(a, 3);
        for u in &seqs {
            for v in &seqs {
                for k in 0..=3usize {
                    out.push(format!(
                        "kfs:k0:{k}:{m}:{};kb:k1:{k}:{m}:{};kkcat:k2:k0:k1:{k};Kkc:k2;Kk:k2;Kcmp:k0:k1;Keq:k0:k1;keps:k3:{k}:{m};kkcat:k3:k3:k1:{k}",
                        show_nats(u),
                        show_nats(v)
                    ));
                }
            }
        }
    }
    // (4) random programs at the boundary sizes and at random sizes
    let mut rng = Rng::new(seed);
    let valid: Vec<usize> = boundary_ms().into_iter().filter(|m| *m <= 4094).collect();
    let per_m = if thorough { 400 } else { 60 };
    for m in &valid {
        for _ in 0..per_m {
            out.push(random_prog(&mut rng, *m));
        }
        for _ in 0..per_m / 3 {
            out.push(random_kprog(&mut rng, *m));
        }
    }
    let nrand = if thorough { 40000 } else { 6000 };
    for _ in 0..nrand {
        let m = if rng.chance(1, 2) { rng.below(12) } else { rng.below(4095) };
        if rng.chance(3, 4) {
            out.push(random_prog(&mut rng, m));
        } else {
            out.push(random_kprog(&mut rng, m));
        }
    }
    out.into_iter().map(|p| format!("terminals-prog {p}")).collect()
}

pub fn cli(args: &[String]) {
    standard_cli(args, generate, run_case)
}
