//! C09: EBNF canonicalisation. The case carries an EBNF grammar in the one-word encoding; the
//! harness renders it as PAR text, lets the REAL front end parse it
//! (`parol::obtain_grammar_config_from_string` = parser → `ParolGrammar` → `GrammarConfig::try_from`
//! → `transform_productions`) and prints the resulting production list with names and attributes.
use crate::ebnfenc::*;
use crate::rng::Rng;
use crate::util::*;

pub fn run_case(w: &[&str]) -> Option<String> {
    match w {
        ["canon", ty, st, enc] => {
            let par = enc_to_par(ty, st, enc)?;
            Some(match parol::obtain_grammar_config_from_string(&par, false) {
                Ok(gc) => {
                    let want = if *ty == "ll" { parol::parser::GrammarType::LLK } else { parol::parser::GrammarType::LALR1 };
                    if gc.grammar_type != want || gc.cfg.st != *st {
                        "harness-error".to_string()
                    } else {
                        format!("ok {}", show_prs(&gc.cfg.pr))
                    }
                }
                Err(e) => {
                    let msg = e.chain().map(|c| c.to_string()).collect::<Vec<_>>().join(" / ");
                    if msg.contains("Empty Group not allowed") || msg.contains("Empty Optionals not allowed") || msg.contains("Empty Repetitions not allowed") || msg.contains("Multiple token aliases") || msg.contains("has no production") {
                        "rejected".to_string()
                    } else if msg.contains("Expected one alternation per production") {
                        "finalize-error".to_string()
                    } else {
                        format!("error {}", msg.replace(|c: char| !c.is_ascii_alphanumeric(), "_").chars().take(80).collect::<String>())
                    }
                }
            })
        }
        _ => None,
    }
}

pub fn generate(seed: u64, thorough: bool) -> Vec<String> {
    let mut rng = Rng::new(seed ^ 0xC09);
    let mut out = vec![];
    let n = if thorough { 2500 } else { 350 };
    for i in 0..n {
        let (st, prods) = random_ebnf(&mut rng, i % 3 != 0);
        let enc = show_ebnf(&prods);
        if enc.len() > 600 {
            continue;
        }
        out.push(format!("canon ll {st} {enc}"));
        out.push(format!("canon lr {st} {enc}"));
    }
    out
}

pub fn cli(args: &[String]) {
    standard_cli(args, generate, run_case)
}
