//! C16 (scanner level): unmatched input is an error unless explicitly allowed.
//!
//! Grammars with every combination of %auto_newline_off / %auto_ws_off / %allow_unmatched (the same
//! in every scanner state), with and without comments; texts are sentences with stray characters
//! (control characters, CR, LF, CRLF, non-ASCII, U+10FFFF). The real parol front end, the real
//! `generate_build_information` (which appends ERROR_TOKEN unless allow_unmatched), a scnr2 scanner
//! built at run time and the real `TokenStream` deliver the tokens; the oracle demands: without
//! allow_unmatched no gap token (every character is covered by some token — an unmatched one by
//! the error token, whose type occurs in no production); with allow_unmatched the gap tokens are
//! exactly the unmatched stretches and are delivered as skip tokens (so they reach the parse tree).
use crate::c13::describe;
use crate::dynscan;
use crate::relower::{cps, from_cps};
use crate::rng::Rng;
use crate::util::*;

pub fn run_case(w: &[&str]) -> Option<String> {
    match w {
        ["scan16", k, allow, par, desc, text] => {
            let k: usize = k.parse().ok()?;
            let par = from_cps(par)?;
            let text = from_cps(text)?;
            let d = match describe(&par) {
                Ok(d) => d,
                Err(e) => return Some(e),
            };
            match &d.word {
                Ok(wd) if wd == desc => {}
                _ => return Some("stale-desc".into()),
            }
            let all_allow = d.cfg.iter().all(|c| c.4);
            let none_allow = d.cfg.iter().all(|c| !c.4);
            let flag = if all_allow { "1" } else if none_allow { "0" } else { "mixed" };
            if flag != *allow {
                return Some("stale-allow".into());
            }
            let b = match dynscan::build_cached(&d.modes) {
                Ok(b) => b,
                Err(e) => return Some(e),
            };
            let text: &'static str = Box::leak(text.into_boxed_str());
            Some(match dynscan::stream_tokens(&b, text, k, false) {
                Ok(v) => dynscan::show_tks(&v),
                Err(e) => format!("stream-error:{e}"),
            })
        }
        _ => None,
    }
}

fn gen_par(rng: &mut Rng, nl_off: bool, ws_off: bool, allow: bool, two_modes: bool) -> String {
    let mut dirs = String::new();
    if nl_off {
        dirs.push_str("%auto_newline_off\n");
    }
    if ws_off {
        dirs.push_str("%auto_ws_off\n");
    }
    if allow {
        dirs.push_str("%allow_unmatched\n");
    }
    let mut par = String::from("%start S\n");
    if rng.chance(1, 3) {
        par.push_str("%line_comment '//'\n");
    }
    if rng.chance(1, 3) {
        par.push_str("%block_comment '(*' '*)'\n");
    }
    par.push_str(&dirs);
    if two_modes {
        par.push_str("%on A %enter M1\n%scanner M1 {\n");
        par.push_str(&dirs.lines().map(|l| format!("    {l}\n")).collect::<String>());
        par.push_str("    %on B %enter INITIAL\n}\n");
        par.push_str("%%\nS: { A | B | C };\nA: <INITIAL, M1>'a';\nB: <INITIAL, M1>'b';\nC: <M1>/[0-9]+/;\n");
    } else {
        par.push_str("%%\nS: { A | B | C };\nA: 'a';\nB: \"b+\";\nC: /[0-9]+/;\n");
    }
    par
}

fn gen_text(rng: &mut Rng, with_max: bool) -> String {
    let good = ["a", "b", "bb", "42", " ", "a b", "\t"];
    let stray = ["\n", "\r", "\r\n", "?", "é", "\u{0}", "\u{7f}", "\u{85}", "\u{2028}", "x", "--", "日本", "\u{10FFFE}", "\u{b}", "(*", "// c\n", "(* c *)"];
    let mut s = String::new();
    for _ in 0..rng.range(0, 9) {
        if rng.chance(3, 5) {
            s.push_str(*rng.pick(&good[..]));
        } else {
            s.push_str(*rng.pick(&stray[..]));
        }
    }
    if with_max {
        let pos = rng.below(s.chars().count() + 1);
        let mut t: Vec<char> = s.chars().collect();
        t.insert(pos, '\u{10FFFF}');
        s = t.into_iter().collect();
    }
    s
}

pub fn generate(seed: u64, thorough: bool) -> Vec<String> {
    let mut rng = Rng::new(seed ^ 0xC16);
    let mut out = vec![];
    let ntext = if thorough { 500 } else { 25 };
    for combo in 0..16 {
        let (nl_off, ws_off, allow, two) = (combo & 1 != 0, combo & 2 != 0, combo & 4 != 0, combo & 8 != 0);
        for variant in 0..(if thorough { 6 } else { 2 }) {
            let par = gen_par(&mut rng, nl_off, ws_off, allow, two);
            let Ok(d) = describe(&par) else {
                out.push("note:grammar-rejected-by-parol".into());
                continue;
            };
            let Ok(word) = d.word.clone() else {
                out.push("skipped:unsupported-regex".into());
                continue;
            };
            let parw = cps(&par);
            // the documented witnesses first
            for t in ["a\nb", "a\r\nb", "a\rb", "a ?? b", "a ??", "\n", ""] {
                out.push(format!("scan16 1 {} {} {} {}", allow as u8, parw, word, cps(t)));
            }
            for ti in 0..ntext {
                let with_max = variant == 0 && ti == ntext - 1;
                let text = gen_text(&mut rng, with_max);
                out.push(format!("scan16 {} {} {} {} {}", 1 + ti % 3, allow as u8, parw, word, cps(&text)));
            }
        }
    }
    out
}

pub fn cli(args: &[String]) {
    standard_cli(args, generate, run_case)
}
