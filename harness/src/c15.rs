//! C15: comment tokens end exactly at the first end delimiter.
//!
//! * `pv c15 dump <file>` regenerates lean/ParolModel/Generated/ScannerConsts.lean from /repo: the
//!   constants ERROR_TOKEN / NEW_LINE_TOKEN / WHITESPACE_TOKEN and, for every delimiter pattern, the
//!   output of the REAL `format_block_comment` (reached through the public
//!   `ScannerConfig::generate_build_information`), as text and as `Re` AST (regex-syntax → `Re`).
//! * cases `fmt`: model of `format_block_comment` vs the real one (text, byte for byte);
//!   `blk` / `line`: a real scnr2 scanner (built at run time) holding only the comment terminal scans a
//!   torture text; the model runs `tokenizeSpec` on the lowered regex; the oracle compares the
//!   implementation's tokens with the specification (first end delimiter / end of line).
use crate::dynscan::{self, ModeDesc, TermDesc};
use crate::relower::{self, cps, from_cps, lean_str};
use crate::rng::Rng;
use crate::util::*;
use parol::{GrammarConfig, ScannerConfig, TerminalKind};
use parol_runtime::lexer::{BLOCK_COMMENT, ERROR_TOKEN, LINE_COMMENT, NEW_LINE_TOKEN, WHITESPACE_TOKEN};
use std::io::Write;

thread_local! {
    static BASE: GrammarConfig = parol::obtain_grammar_config_from_string("%start S\n%%\nS: 'a';\n", false).expect("base grammar");
}

fn build_info(sc: &ScannerConfig) -> Result<Vec<(String, u16, Option<(bool, String)>, String)>, String> {
    BASE.with(|gc| {
        let names: Vec<String> = (0..8).map(|i| format!("T{i}")).collect();
        sc.generate_build_information(gc, &names).map(|(m, _)| m).map_err(|e| e.to_string())
    })
}

/// The REAL block comment regex for the (already expanded) delimiter texts.
pub fn real_block_regex(s: &str, e: &str) -> Result<String, String> {
    let sc = ScannerConfig::default()
        .with_block_comments(vec![(s.to_string(), e.to_string())])
        .with_auto_newline(false)
        .with_auto_ws(false)
        .with_allow_unmatched(true);
    let m = build_info(&sc).map_err(|e| {
        if e.contains("dangling") {
            "dangling".to_string()
        } else if e.contains("is empty") {
            "empty".to_string()
        } else if e.contains("too long") {
            "too-long".to_string()
        } else {
            "other".to_string()
        }
    })?;
    m.into_iter().find(|t| t.1 == BLOCK_COMMENT).map(|t| t.0).ok_or_else(|| "missing".to_string())
}

pub fn real_line_regex(s: &str) -> Result<String, String> {
    let sc = ScannerConfig::default()
        .with_line_comments(vec![s.to_string()])
        .with_auto_newline(false)
        .with_auto_ws(false)
        .with_allow_unmatched(true);
    let m = build_info(&sc).map_err(|_| "other".to_string())?;
    m.into_iter().find(|t| t.1 == LINE_COMMENT).map(|t| t.0).ok_or_else(|| "missing".to_string())
}

#[derive(Clone, Debug)]
pub struct Inst {
    pub key: String,
    pub full: String,
    pub s_txt: String,
    pub e_txt: String,
}

/// Restricted growth strings of length n (set partitions), as index vectors.
fn partitions(n: usize) -> Vec<Vec<usize>> {
    let mut res = vec![];
    fn go(n: usize, cur: &mut Vec<usize>, maxv: usize, res: &mut Vec<Vec<usize>>) {
        if cur.len() == n {
            res.push(cur.clone());
            return;
        }
        for v in 0..=maxv {
            cur.push(v);
            go(n, cur, if v == maxv { maxv + 1 } else { maxv }, res);
            cur.pop();
        }
    }
    go(n, &mut vec![], 0, &mut res);
    res
}

fn letters(idx: &[usize]) -> String {
    idx.iter().map(|i| (b'a' + *i as u8) as char).collect()
}

/// Equality pattern of the end delimiter alone (`a`, `aa`, `ab`, `aaa`, …).
fn end_pattern(e: &[u32]) -> String {
    let mut seen: Vec<u32> = vec![];
    e.iter()
        .map(|c| {
            let i = seen.iter().position(|x| x == c).unwrap_or_else(|| {
                seen.push(*c);
                seen.len() - 1
            });
            (b'a' + i as u8) as char
        })
        .collect()
}

fn raw(chars: &[char]) -> String {
    TerminalKind::Raw.expand(&chars.iter().collect::<String>())
}

/// All delimiter instances: every equality pattern among ≤ 2 start and ≤ 3 end characters
/// (letters), the end patterns again over three other character pools (regex meta characters,
/// characters that are special inside brackets, non-ASCII / mixed), and hand-picked instances.
pub fn instances() -> Vec<Inst> {
    let mut out = vec![];
    let pool_a: Vec<char> = "pqrst".chars().collect();
    for ls in 1..=2usize {
        for le in 1..=3usize {
            for p in partitions(ls + le) {
                let chars: Vec<char> = p.iter().map(|i| pool_a[*i]).collect();
                let (s, e) = chars.split_at(ls);
                let ecp: Vec<u32> = e.iter().map(|c| *c as u32).collect();
                out.push(Inst {
                    key: end_pattern(&ecp),
                    full: format!("{}|{}", letters(&p[..ls]), letters(&p[ls..])),
                    s_txt: raw(s),
                    e_txt: raw(e),
                });
            }
        }
    }
    let pools: [(&str, Vec<char>); 3] = [
        ("meta", "*()+{".chars().collect()),
        ("brk", "-]^\\".chars().collect()),
        ("mix", "é<日!\u{1F600}".chars().collect()),
    ];
    for (pn, pool) in pools.iter() {
        for le in 1..=3usize {
            for p in partitions(le) {
                if p.iter().max().unwrap() + 1 >= pool.len() {
                    continue;
                }
                let e: Vec<char> = p.iter().map(|i| pool[*i]).collect();
                let s = vec![pool[pool.len() - 1]];
                let ecp: Vec<u32> = e.iter().map(|c| *c as u32).collect();
                out.push(Inst {
                    key: end_pattern(&ecp),
                    full: format!("{pn}:{}", letters(&p)),
                    s_txt: raw(&s),
                    e_txt: raw(&e),
                });
            }
        }
    }
    // hand-picked: the delimiters of the repository's tests and documentation
    let special: [(&str, &str, &str, &str); 12] = [
        ("cstyle", "c", r"/\*", r"\*/"),
        ("ab", "c-escaped-slash", r"\/\*", r"\*\/"),
        ("aab", "html", "<!--", "-->"),
        ("aa", "braces2", r"\{\{", r"\}\}"),
        ("ab", "pascal", r"\(\*", r"\*\)"),
        ("aab", "ocamldoc", r"\(\*\*", r"\*\*\)"),
        ("aaa", "paren3", r"\(\(\(", r"\)\)\)"),
        ("aa", "dashes", "--", "--"),
        ("a", "hash", "#", "#"),
        ("a", "brace", r"\{", r"\}"),
        ("aaa", "pyquote", "\"\"\"", "\"\"\""),
        ("ab", "haskell", r"\{-", r"-\}"),
    ];
    for (k, f, s, e) in special {
        out.push(Inst { key: k.into(), full: f.into(), s_txt: s.into(), e_txt: e.into() });
    }
    // delimiters written as regex text whose atoms are not plain escaped characters
    let odd: [(&str, &str, &str, &str); 4] = [
        ("aa+mixedesc", "dash-mixed-escape", r"\{", r"\--"),
        ("a+escclass", "ends-at-newline", "REM", r"\n"),
        ("ab+escclass", "ends-at-crlf", "REM", r"\r\n"),
        ("ab+escclass", "ends-at-tab-x", "#", r"\tx"),
    ];
    for (k, f, s, e) in odd {
        out.push(Inst { key: k.into(), full: f.into(), s_txt: s.into(), e_txt: e.into() });
    }
    out
}

pub struct Resolved {
    pub inst: Inst,
    pub s: Vec<u32>,
    pub e: Vec<u32>,
    pub text: String,
    pub re: relower::Re,
}

/// Runs the real code on an instance; `Err` = skipped (with reason).
pub fn resolve(i: &Inst) -> Result<Resolved, String> {
    let s = relower::literal_meaning(&i.s_txt).ok_or("start-not-literal")?;
    let e = relower::literal_meaning(&i.e_txt).ok_or("end-not-literal")?;
    let text = real_block_regex(&i.s_txt, &i.e_txt)?;
    let re = relower::lower_str(&text)?;
    Ok(Resolved { inst: i.clone(), s, e, text, re })
}

pub fn line_starts() -> Vec<String> {
    vec!["//".into(), "#".into(), "--".into(), r"\*\*".into(), ";".into(), "REM".into(), "%%".into()]
}

fn lean_nats(v: &[u32]) -> String {
    format!("[{}]", v.iter().map(|x| x.to_string()).collect::<Vec<_>>().join(", "))
}

/// Generated/ScannerConsts.lean
pub fn dump() -> String {
    let mut o = String::new();
    o.push_str("import ParolModel.Model.Comments\n");
    o.push_str("/-! GENERATED by `pv c15 dump` from the repository's working tree — do not edit.\n");
    o.push_str("Scanner constants of parol_runtime::lexer and the outputs of the real\n");
    o.push_str("`ScannerConfig::format_block_comment` / line comment format for every delimiter pattern, as text\n");
    o.push_str("and as `Re` (parsed with regex-syntax, lowered by harness/src/relower.rs). -/\n");
    o.push_str("namespace ParolModel.Generated\nopen ParolModel\n\n");
    for (name, val) in [("errorToken", ERROR_TOKEN), ("newLineToken", NEW_LINE_TOKEN), ("whitespaceToken", WHITESPACE_TOKEN)] {
        o.push_str(&format!("def {name}Str : String := {}\n", lean_str(val)));
        match relower::lower_str(val) {
            Ok(re) => o.push_str(&format!("def {name}Re : Re := {}\n\n", re.lean())),
            Err(e) => o.push_str(&format!("-- {name}: unsupported ({e})\ndef {name}Re : Re := Re.empty\n\n")),
        }
    }
    let mut groups: std::collections::BTreeMap<String, Vec<Resolved>> = Default::default();
    let mut skipped: Vec<(Inst, String)> = vec![];
    for i in instances() {
        match resolve(&i) {
            Ok(r) => groups.entry(i.key.clone()).or_default().push(r),
            Err(e) => skipped.push((i, e)),
        }
    }
    for (k, v) in &groups {
        let name = k.replace('+', "_");
        o.push_str(&format!("def blockCases_{name} : List BlockCase := [\n"));
        for (j, r) in v.iter().enumerate() {
            o.push_str(&format!(
                "  {{ key := {}, full := {}, sTxt := {}, eTxt := {}, s := {}, e := {}, text := {},\n    re := {} }}{}\n",
                lean_str(&r.inst.key),
                lean_str(&r.inst.full),
                lean_str(&r.inst.s_txt),
                lean_str(&r.inst.e_txt),
                lean_nats(&r.s),
                lean_nats(&r.e),
                lean_str(&r.text),
                r.re.lean(),
                if j + 1 < v.len() { "," } else { "" }
            ));
        }
        o.push_str("]\n\n");
    }
    o.push_str("def blockCasesAll : List BlockCase :=\n  ");
    o.push_str(&groups.keys().map(|k| format!("blockCases_{}", k.replace('+', "_"))).collect::<Vec<_>>().join(" ++ "));
    o.push_str("\n\n");
    o.push_str(&format!("/-- delimiter instances skipped because a construct could not be lowered: {:?} -/\n", skipped.iter().map(|(i, e)| format!("{}:{}", i.full, e)).collect::<Vec<_>>()));
    o.push_str(&format!("def blockCasesSkipped : Nat := {}\n\n", skipped.len()));
    o.push_str("def lineCases : List LineCase := [\n");
    let ls = line_starts();
    let mut first = true;
    for s in &ls {
        let (Some(m), Ok(text)) = (relower::literal_meaning(s), real_line_regex(s)) else { continue };
        let Ok(re) = relower::lower_str(&text) else { continue };
        if !first {
            o.push_str(",\n");
        }
        first = false;
        o.push_str(&format!("  {{ sTxt := {}, s := {}, text := {},\n    re := {} }}", lean_str(s), lean_nats(&m), lean_str(&text), re.lean()));
    }
    o.push_str("\n]\n\n");
    o.push_str("-- Self-check at build time: the model of `format_block_comment` renders exactly the real text.\n");
    o.push_str("#guard blockCasesAll.all fun c => (match formatBlockComment c.sTxt c.eTxt with | .ok rx => rx.render == c.text | _ => false)\n");
    o.push_str("#guard lineCases.all fun c => c.text == c.sTxt ++ \".*(\\\\r\\\\n|\\\\r|\\\\n)?\"\n\n");
    o.push_str("end ParolModel.Generated\n");
    o
}

fn comment_mode(regex: &str, tok: u16) -> Vec<ModeDesc> {
    vec![ModeDesc { name: "INITIAL".into(), terms: vec![TermDesc { regex: regex.to_string(), tok: tok as usize, lookahead: None }], trans: vec![], skips: vec![] }]
}

fn show_raw(v: &[(usize, usize, usize)]) -> String {
    if v.is_empty() {
        "-".into()
    } else {
        v.iter().map(|t| format!("{}:{}:{}", t.0, t.1, t.2)).collect::<Vec<_>>().join(",")
    }
}

pub fn run_case(w: &[&str]) -> Option<String> {
    match w {
        ["fmt", s, e] => {
            let s = from_cps(s)?;
            let e = from_cps(e)?;
            Some(match real_block_regex(&s, &e) {
                Ok(t) => format!("ok {}", cps(&t)),
                Err(k) => format!("err {k}"),
            })
        }
        ["blk", _key, stxt, etxt, _s, _e, re, text] => {
            let stxt = from_cps(stxt)?;
            let etxt = from_cps(etxt)?;
            let text = from_cps(text)?;
            let rx = match real_block_regex(&stxt, &etxt) {
                Ok(t) => t,
                Err(k) => return Some(format!("err {k}")),
            };
            match relower::lower_str(&rx) {
                Ok(r) if r.enc() == *re => {}
                _ => return Some("stale-re".into()),
            }
            let b = match dynscan::build_cached(&comment_mode(&rx, BLOCK_COMMENT)) {
                Ok(b) => b,
                Err(e) => return Some(e),
            };
            Some(show_raw(&dynscan::raw_matches(&b, &text)))
        }
        ["line", stxt, _s, re, text] => {
            let stxt = from_cps(stxt)?;
            let text = from_cps(text)?;
            let rx = real_line_regex(&stxt).ok()?;
            match relower::lower_str(&rx) {
                Ok(r) if r.enc() == *re => {}
                _ => return Some("stale-re".into()),
            }
            let b = match dynscan::build_cached(&comment_mode(&rx, LINE_COMMENT)) {
                Ok(b) => b,
                Err(e) => return Some(e),
            };
            Some(show_raw(&dynscan::raw_matches(&b, &text)))
        }
        _ => None,
    }
}

fn words(alpha: &[u32], max_len: usize) -> Vec<Vec<u32>> {
    let mut res: Vec<Vec<u32>> = vec![vec![]];
    let mut frontier: Vec<Vec<u32>> = vec![vec![]];
    for _ in 0..max_len {
        let mut next = vec![];
        for s in &frontier {
            for a in alpha {
                let mut t = s.clone();
                t.push(*a);
                next.push(t);
            }
        }
        res.extend(next.iter().cloned());
        frontier = next;
    }
    res
}

fn dedup(mut v: Vec<u32>) -> Vec<u32> {
    let mut o = vec![];
    for x in v.drain(..) {
        if !o.contains(&x) {
            o.push(x);
        }
    }
    o
}

fn blk_line(r: &Resolved, text: &[u32]) -> String {
    format!(
        "blk {} {} {} {} {} {} {}",
        r.inst.key,
        cps(&r.inst.s_txt),
        cps(&r.inst.e_txt),
        show_nats(&r.s),
        show_nats(&r.e),
        r.re.enc(),
        show_nats(text)
    )
}

pub fn generate(seed: u64, thorough: bool) -> Vec<String> {
    let mut rng = Rng::new(seed ^ 0xC15);
    let mut out = vec![];
    let insts = instances();
    // fmt: every instance, plus rejected and odd delimiter texts
    for i in &insts {
        out.push(format!("fmt {} {}", cps(&i.s_txt), cps(&i.e_txt)));
    }
    let pieces = ["a", "b", r"\*", "/", r"\\", "-", r"\-", "]", r"\]", "^", "'", "\"", "é", "\t", r"\n", r"\u{41}", "\\", "x", "{", r"\{", "😀", "\u{7f}", " "];
    let nfmt = if thorough { 10000 } else { 600 };
    for _ in 0..nfmt {
        let mk = |rng: &mut Rng, maxn: usize| -> String {
            let n = rng.range(0, maxn);
            (0..n).map(|_| *rng.pick(&pieces)).collect::<String>()
        };
        let s = if rng.chance(1, 10) { r"/\*".to_string() } else { mk(&mut rng, 3) };
        let e = if rng.chance(1, 10) { r"\*/".to_string() } else { mk(&mut rng, 4) };
        out.push(format!("fmt {} {}", cps(&s), cps(&e)));
    }
    // blk: torture texts per instance
    let per_inst = if thorough { 1200 } else { 70 };
    for i in &insts {
        let Ok(r) = resolve(i) else { continue };
        let mut alpha = dedup(r.e.iter().chain(r.s.iter()).cloned().collect());
        alpha.push('x' as u32);
        let bodies = words(&alpha, 2);
        let tails = words(&alpha, 2);
        let mut texts: Vec<Vec<u32>> = vec![];
        // exhaustive small: s body e, and s body e tail e
        for b in &bodies {
            let mut t = r.s.clone();
            t.extend(b);
            t.extend(&r.e);
            texts.push(t);
        }
        let mut combos: Vec<(usize, usize)> = vec![];
        for bi in 0..bodies.len() {
            for ti in 0..tails.len() {
                combos.push((bi, ti));
            }
        }
        // deterministic sample of the product
        let want = per_inst;
        for _ in 0..want.min(combos.len()) {
            let j = rng.below(combos.len());
            let (bi, ti) = combos.swap_remove(j);
            let mut t = r.s.clone();
            t.extend(&bodies[bi]);
            t.extend(&r.e);
            t.extend(&tails[ti]);
            t.extend(&r.e);
            texts.push(t);
        }
        // random longer texts: junk, several comments, unterminated comment, other line breaks
        let mut big = alpha.clone();
        big.extend([10u32, 13, 0xe9, 0x10FFFE, 0x20]);
        for _ in 0..(per_inst / 3) {
            let n = rng.range(0, 14);
            let mut t: Vec<u32> = vec![];
            for _ in 0..n {
                match rng.below(6) {
                    0 => t.extend(&r.s),
                    1 => t.extend(&r.e),
                    _ => t.push(*rng.pick(&big)),
                }
            }
            texts.push(t);
        }
        // the documented witnesses (DESIGN.md §8) and the inputs of the repository's own scan tests
        let documented: &[&str] = match i.full.as_str() {
            "c" => &["/* *// */", "/**//*/", "code /***/ more code /* comment */ /* com*ment */", "/*/ not end */ /* ** */ /***/", "/**/ /* a */ /****/ /* b*c */ /**/"],
            "html" => &["<!-- x --->", "<!-- x -->", "<!----->"],
            "ocamldoc" => &["code (** a * b ** c **) more (***) text"],
            "braces2" => &["{{} not end }} {{ {} }} {{{{}}"],
            _ => &[],
        };
        for d in documented {
            out.push(blk_line(&r, &d.chars().map(|c| c as u32).collect::<Vec<_>>()));
        }
        for t in texts {
            out.push(blk_line(&r, &t));
        }
        // F21 (scnr2: U+10FFFF is in no character class): a few dedicated cases on correct patterns only
        if ["hash", "pascal", "braces2", "pyquote"].contains(&i.full.as_str()) {
            for body in [vec![0x10FFFFu32], vec!['x' as u32, 0x10FFFF, 'x' as u32]] {
                let mut t = r.s.clone();
                t.extend(&body);
                t.extend(&r.e);
                out.push(blk_line(&r, &t));
            }
        }
    }
    // line comments
    let breaks: [&[u32]; 5] = [&[10], &[13], &[13, 10], &[10, 13], &[]];
    for stxt in line_starts() {
        let (Some(m), Ok(rx)) = (relower::literal_meaning(&stxt), real_line_regex(&stxt)) else { continue };
        let Ok(re) = relower::lower_str(&rx) else { continue };
        let mut alpha = dedup(m.clone());
        alpha.extend(['x' as u32, 0x20, 0xe9, 0x2028, 0x85, 0x0b, 0x0c]);
        if stxt == "//" {
            for d in ["// a\rb", "// a\r\nb", "// a\nb", "//\r/"] {
                let t: Vec<u32> = d.chars().map(|c| c as u32).collect();
                out.push(format!("line {} {} {} {}", cps(&stxt), show_nats(&m), re.enc(), show_nats(&t)));
            }
        }
        let nline = if thorough { 2000 } else { 120 };
        for _ in 0..nline {
            let mut t: Vec<u32> = vec![];
            let nl = rng.range(1, 4);
            for _ in 0..nl {
                if rng.chance(3, 4) {
                    t.extend(&m);
                }
                for _ in 0..rng.range(0, 4) {
                    if rng.chance(1, 8) {
                        t.extend(&m);
                    } else {
                        t.push(*rng.pick(&alpha));
                    }
                }
                t.extend(*rng.pick(&breaks));
            }
            out.push(format!("line {} {} {} {}", cps(&stxt), show_nats(&m), re.enc(), show_nats(&t)));
        }
    }
    // distinguishing strings computed by the Lean checker (written by checks/c15.py)
    if let Ok(p) = std::env::var("PV_C15_EXTRA_CASES") {
        if let Ok(s) = std::fs::read_to_string(p) {
            let mut extra: Vec<String> = s.lines().filter(|l| !l.trim().is_empty()).map(|l| l.to_string()).collect();
            extra.append(&mut out);
            out = extra;
        }
    }
    out
}

/// `pv c15 list`: one line per resolved instance: `inst <key> <full> <s-txt> <e-txt> <s> <e> <re>`,
/// `skip <full> <reason>` for the others, `lineinst <s-txt> <s> <re>` for line comments.
fn list() -> Vec<String> {
    let mut out = vec![];
    for i in instances() {
        match resolve(&i) {
            Ok(r) => out.push(format!(
                "inst {} {} {} {} {} {} {}",
                r.inst.key,
                r.inst.full,
                cps(&r.inst.s_txt),
                cps(&r.inst.e_txt),
                show_nats(&r.s),
                show_nats(&r.e),
                r.re.enc()
            )),
            Err(e) => out.push(format!("skip {} {}", i.full, e)),
        }
    }
    for stxt in line_starts() {
        let (Some(m), Ok(rx)) = (relower::literal_meaning(&stxt), real_line_regex(&stxt)) else { continue };
        let Ok(re) = relower::lower_str(&rx) else { continue };
        out.push(format!("lineinst {} {} {}", cps(&stxt), show_nats(&m), re.enc()));
    }
    out
}

pub fn cli(args: &[String]) {
    match args.first().map(|s| s.as_str()) {
        Some("dump") => {
            let text = dump();
            match args.get(1) {
                Some(p) => {
                    let old = std::fs::read_to_string(p).unwrap_or_default();
                    if old != text {
                        std::fs::write(p, &text).expect("write generated file");
                        println!("updated");
                    } else {
                        println!("unchanged");
                    }
                }
                None => std::io::stdout().write_all(text.as_bytes()).unwrap(),
            }
        }
        Some("list") => {
            let mut s = list().join("\n");
            s.push('\n');
            std::io::stdout().write_all(s.as_bytes()).unwrap();
        }
        _ => standard_cli(args, generate, run_case),
    }
}
