//! C01d: parol's whole LL(k) path, tied to the Lean function `parolLL`
//! (lean/ParolModel/Model/FrontToBack.lean).
//!
//! Case line: `parol-ll <start> <ebnf> <K>` — an EBNF grammar in the one-word encoding of
//! `ebnfenc.rs` (terminal `n` is the string literal `"t<n>"`). The harness renders it as PAR text
//! and runs the REAL pipeline in-process, exactly as `parol::build::GrammarGenerator` composes it:
//! `obtain_grammar_config_from_string` (parser → `ParolGrammar` → `GrammarConfig::try_from` →
//! `transform_productions`), `check_and_transform_grammar` (three checks, `left_factor`),
//! `update_cfg`, `calculate_lookahead_dfas(…, K)`, `update_lookahead_size`,
//! `generate_parser_export_model`. Reply: the tables in the encoding of `parsegen::enc_ll_tables`
//! (`<start> <prods> <dfas>`, right-hand sides reversed, `push` = `AddToCollection`), or
//! `err <kind>[:<names>]`.
use crate::ebnfenc::*;
use crate::rng::Rng;
use crate::util::*;
use parol::analysis::{calculate_lookahead_dfas, GrammarAnalysisError};
use parol::generators::parser_generator::generate_parser_export_model;
use parol::parser::parol_grammar::GrammarType;
use parol::{check_and_transform_grammar, obtain_grammar_config_from_string, GrammarConfig};
use parol_runtime::ParolError;

fn la_err_kind(e: &anyhow::Error) -> String {
    if let Some(GrammarAnalysisError::MaxKExceeded { .. }) = e.downcast_ref::<GrammarAnalysisError>() {
        return "err maxk".into();
    }
    let s = e.to_string();
    if s.contains("isn't part of the given grammar") {
        "err notpart".into()
    } else if s.contains("Conflict in union operation") {
        "err conflict".into()
    } else {
        format!("err other:{}", s.replace(' ', "_").chars().take(50).collect::<String>())
    }
}

fn check_err_kind(e: &ParolError) -> String {
    let names = |v: Vec<&String>| v.iter().map(|s| s.as_str()).collect::<Vec<_>>().join(",");
    match e {
        ParolError::UserError(e) => match e.downcast_ref::<GrammarAnalysisError>() {
            Some(GrammarAnalysisError::NonProductiveNonTerminals { non_terminals }) => {
                format!("err np:{}", names(non_terminals.iter().map(|h| &h.hint).collect()))
            }
            Some(GrammarAnalysisError::UnreachableNonTerminals { non_terminals }) => {
                format!("err ur:{}", names(non_terminals.iter().map(|h| &h.hint).collect()))
            }
            Some(GrammarAnalysisError::LeftRecursion { recursions }) => {
                format!("err lr:{}", names(recursions.iter().map(|r| &r.name).collect()))
            }
            _ => "err check-other".into(),
        },
        _ => "err check-other".into(),
    }
}

/// The real tables of a transformed grammar configuration, encoded as `parsegen::enc_ll_tables`
/// (and `c01c::real_tables`) encode them.
pub fn tables_of_config(mut gc: GrammarConfig, max_k: usize) -> String {
    let dfas = match calculate_lookahead_dfas(&gc, max_k) {
        Ok(d) => d,
        Err(e) => return la_err_kind(&e),
    };
    let k = dfas.values().map(|d| d.k).max().unwrap_or(0);
    gc.update_lookahead_size(k);
    let model = match generate_parser_export_model(&gc, &dfas) {
        Ok(m) => m,
        Err(e) => return format!("err export:{}", e.to_string().replace(' ', "_").chars().take(50).collect::<String>()),
    };
    let ps: Vec<String> = model
        .productions
        .iter()
        .enumerate()
        .map(|(i, p)| {
            let pj = serde_json::to_value(p).expect("production to json");
            let mut rhs: Vec<String> = pj["rhs"]
                .as_array()
                .expect("rhs")
                .iter()
                .map(|s| {
                    if let Some(n) = s.get("NonTerminal") {
                        format!("n{}", n.as_u64().unwrap())
                    } else {
                        format!("t{}", s["Terminal"]["index"].as_u64().unwrap())
                    }
                })
                .collect();
            rhs.reverse();
            let push = gc.cfg.pr[i].2 == parol::grammar::ProductionAttribute::AddToCollection;
            format!("{}:{}:{}", p.lhs_index, if push { 1 } else { 0 }, rhs.join(","))
        })
        .collect();
    let ds: Vec<String> = model
        .lookahead_automata
        .iter()
        .map(|a| {
            let tr: Vec<String> = a
                .transitions
                .iter()
                .map(|t| format!("{}:{}:{}:{}", t.from_state, t.term, t.to_state, t.prod_num))
                .collect();
            format!("{}/{}/{}", a.prod0, a.k, if tr.is_empty() { "-".to_string() } else { tr.join("+") })
        })
        .collect();
    format!(
        "{} {} {}",
        model.start_symbol_index,
        if ps.is_empty() { "-".into() } else { ps.join(";") },
        if ds.is_empty() { "-".into() } else { ds.join(";") }
    )
}

/// front end + `check_and_transform_grammar` + `update_cfg`; `Err(reply)` for a refused grammar
pub fn transformed_config(st: &str, enc: &str) -> Option<Result<GrammarConfig, String>> {
    let par = enc_to_par("ll", st, enc)?;
    let mut gc = match obtain_grammar_config_from_string(&par, false) {
        Ok(gc) => gc,
        Err(e) => {
            let msg = e.chain().map(|c| c.to_string()).collect::<Vec<_>>().join(" / ");
            return Some(Err(
                if msg.contains("Empty Group not allowed")
                    || msg.contains("Empty Optionals not allowed")
                    || msg.contains("Empty Repetitions not allowed")
                    || msg.contains("Multiple token aliases")
                    || msg.contains("has no production")
                {
                    "err rejected".to_string()
                } else if msg.contains("Expected one alternation per production") {
                    "err finalize".to_string()
                } else {
                    format!("err front:{}", msg.replace(|c: char| !c.is_ascii_alphanumeric(), "_").chars().take(80).collect::<String>())
                },
            ));
        }
    };
    if gc.grammar_type != GrammarType::LLK || gc.cfg.st != st {
        return Some(Err("harness-error".into()));
    }
    let cfg = match check_and_transform_grammar(&gc.cfg, gc.grammar_type) {
        Ok(c) => c,
        Err(e) => return Some(Err(check_err_kind(&e))),
    };
    gc.update_cfg(cfg);
    Some(Ok(gc))
}

pub fn run_case(w: &[&str]) -> Option<String> {
    match w {
        ["parol-ll", st, enc, maxk] => {
            let maxk: usize = maxk.parse().ok()?;
            if maxk > parol::MAX_K {
                return None;
            }
            Some(match transformed_config(st, enc)? {
                Ok(gc) => tables_of_config(gc, maxk),
                Err(reply) => reply,
            })
        }
        // diagnostic (not part of the tie): where the real pipeline panics
        ["parol-ll-where", st, enc, maxk] => {
            static WHERE: std::sync::Mutex<String> = std::sync::Mutex::new(String::new());
            std::panic::set_hook(Box::new(|info| {
                let loc = info.location().map(|l| format!("{}:{}", l.file(), l.line())).unwrap_or_default();
                let msg = info.payload().downcast_ref::<&str>().map(|s| s.to_string())
                    .or_else(|| info.payload().downcast_ref::<String>().cloned()).unwrap_or_default();
                *WHERE.lock().unwrap() = format!("{loc}:{}", msg.replace(' ', "_"));
            }));
            let words = ["parol-ll", *st, *enc, *maxk];
            let r = std::panic::catch_unwind(|| run_case(&words));
            std::panic::set_hook(Box::new(|_| {}));
            Some(match r {
                Ok(Some(_)) => "no-panic".to_string(),
                Ok(None) => "bad-op".to_string(),
                Err(_) => format!("panic-at {}", WHERE.lock().unwrap()),
            })
        }
        ["parol-ll-grammar", st, enc] => Some(match transformed_config(st, enc)? {
            Ok(gc) => {
                let names: Vec<String> = gc.cfg.get_non_terminal_set().into_iter().collect();
                let terms: Vec<String> = gc
                    .cfg
                    .get_ordered_terminals()
                    .iter()
                    .map(|t| t.0.strip_prefix('t').unwrap_or("?").to_string())
                    .collect();
                format!(
                    "ok {} {} {}",
                    show_prs(&gc.cfg.pr),
                    names.join(","),
                    if terms.is_empty() { "-".to_string() } else { terms.join(",") }
                )
            }
            Err(reply) => reply,
        }),
        _ => None,
    }
}

// ------------------------------------------------------------------------------------------------
// generators

/// EBNF grammars that have a fair chance to pass the checks and to be LL(k): every name is
/// defined, the alternatives of a production (and of a bracket) start with different terminals
/// most of the time, non-terminals are referenced "downwards" most of the time, brackets of all
/// three kinds occur at every level.
struct LlGen {
    names: Vec<String>,
    nterms: usize,
    max_depth: usize,
    sloppy: bool,
}

impl LlGen {
    fn tail_factor(&self, rng: &mut Rng, level: usize, depth: usize, next_t: &mut usize) -> F {
        match rng.below(10) {
            0..=2 => F::T(5 + rng.below(self.nterms)),
            3..=4 => {
                // a non-terminal below the current one (or any one, when sloppy)
                let lo = if self.sloppy && rng.chance(1, 3) { 0 } else { level + 1 };
                if lo < self.names.len() {
                    F::N(self.names[rng.range(lo, self.names.len() - 1)].clone(), rng.chance(1, 15))
                } else {
                    F::T(5 + rng.below(self.nterms))
                }
            }
            _ if depth < self.max_depth => {
                let alts = self.alts(rng, level, depth + 1, next_t, true);
                match rng.below(3) {
                    0 => F::G(alts),
                    1 => F::O(alts),
                    _ => F::R(alts),
                }
            }
            _ => F::T(5 + rng.below(self.nterms)),
        }
    }
    /// alternatives whose first symbols are terminals taken round-robin from `next_t`
    fn alts(&self, rng: &mut Rng, level: usize, depth: usize, next_t: &mut usize, inner: bool) -> Vec<Vec<F>> {
        let n = match rng.below(6) {
            0..=2 => 1,
            3..=4 => 2,
            _ => 3,
        };
        let mut v = vec![];
        for i in 0..n {
            let mut alt = vec![];
            let empty = !inner && i + 1 == n && n > 1 && rng.chance(1, 4);
            if !empty {
                if self.sloppy && rng.chance(1, 5) {
                    alt.push(self.tail_factor(rng, level, depth, next_t));
                } else {
                    alt.push(F::T(5 + (*next_t % self.nterms)));
                    *next_t += 1;
                }
                for _ in 0..rng.below(3) {
                    alt.push(self.tail_factor(rng, level, depth, next_t));
                }
            }
            v.push(alt);
        }
        v
    }
}

pub fn random_ll_ebnf(rng: &mut Rng, sloppy: bool) -> (String, Vec<(String, Vec<Vec<F>>)>) {
    let nn = rng.range(1, 4);
    let mut names: Vec<String> = (0..nn).map(|i| format!("N{i:02}")).collect();
    if rng.chance(1, 3) {
        // names shaped like parol's helper names (they change the alphabetical numbering)
        let suffixes = ["List", "Opt", "Group", "Suffix", "List0", "Opt0", "Suffix0", "ListSuffix", "OptGroup"];
        let base = rng.pick(&names).clone();
        let n = format!("{base}{}", rng.pick(&suffixes));
        if !names.contains(&n) {
            names.push(n);
        }
    }
    let g = LlGen { names: names.clone(), nterms: rng.range(2, 5), max_depth: rng.range(1, 2), sloppy };
    let mut prods = vec![];
    for (level, n) in names.iter().enumerate() {
        let mut next_t = rng.below(g.nterms);
        let mut alts = g.alts(rng, level, 0, &mut next_t, false);
        // keep the next name reachable
        if level + 1 < names.len() && rng.chance(4, 5) {
            let k = rng.below(alts.len());
            if alts[k].is_empty() {
                alts[k].push(F::T(5 + rng.below(g.nterms)));
            }
            alts[k].push(F::N(names[level + 1].clone(), false));
        }
        prods.push((n.clone(), alts));
        if rng.chance(1, 8) {
            let mut nt2 = next_t;
            prods.push((n.clone(), g.alts(rng, level, 0, &mut nt2, false)));
        }
    }
    (names[0].clone(), prods)
}

pub fn fixed_cases() -> Vec<String> {
    [
        // the non-vacuity example of Props/C01d.lean: S: "a" ["b"] {"c"};
        "parol-ll S S:5,[6],{7} 1",
        "parol-ll S S:5,[6],{7} 2",
        // optional and repetition with several alternatives, group
        "parol-ll S S:5,[6|7],{8|9,S},(5|6) 2",
        // left factoring needed: S: "a" "b" | "a" "c";
        "parol-ll S S:5,6|5,7 1",
        "parol-ll S S:5,6|5,7 3",
        // nested brackets
        "parol-ll S S:{[5],6},7 2",
        "parol-ll S S:{(5|[6],7)},8 3",
        // helper name clashes shift the alphabetical numbering
        "parol-ll S S:{5},SList;SList:6 1",
        "parol-ll A A:[5],AOpt;AOpt:6,[7] 2",
        // rejected ones: left recursion, unreachable, non-productive, undefined start
        "parol-ll S S:S,5|6 1",
        "parol-ll S S:5;T:6 1",
        "parol-ll S S:5,T;T:T,6 1",
        "parol-ll S T:5 1",
        "parol-ll S S:{S},5 1",
        // not LL(k) for small k
        "parol-ll S S:5,5,6|5,5,7 1",
        "parol-ll S S:{5},5 2",
        // a non-terminal ending in usize::MAX used twice (finding F35 before its fix: panic in the
        // type generation behind `generate_parser_export_model`)
        "parol-ll S S:T18446744073709551615,T18446744073709551615;T18446744073709551615:6 1",
        // repetition in front of its own first token: needs k = 2
        "parol-ll S S:{5,6},5,7 1",
        "parol-ll S S:{5,6},5,7 2",
    ]
    .iter()
    .map(|s| s.to_string())
    .collect()
}

pub fn generate(seed: u64, thorough: bool) -> Vec<String> {
    let mut rng = Rng::new(seed ^ 0xC01D);
    let mut out = fixed_cases();
    let mut seen: std::collections::HashSet<String> = out.iter().cloned().collect();
    let want = if thorough { 4000 } else { 500 };
    let (mut accepted, mut rejected, mut tries) = (0usize, 0usize, 0usize);
    while accepted < want && tries < want * 30 {
        tries += 1;
        let (st, prods) = match tries % 5 {
            0 => random_ebnf(&mut rng, tries % 10 == 0),
            1 | 2 => random_ll_ebnf(&mut rng, true),
            _ => random_ll_ebnf(&mut rng, false),
        };
        let enc = show_ebnf(&prods);
        // Names ending in usize::MAX stay in: before the `fix:` for finding F35 (`utils::generate_name`
        // counted up in usize, utils/mod.rs:64) they made `generate_parser_export_model` panic through
        // `build_production_datatypes_export_model` → `SymbolTable::make_unique_name` when a production
        // uses such a non-terminal twice (`S: T18446744073709551615 T18446744073709551615;
        // T18446744073709551615: "t6";`); the diagnostic request `parol-ll-where` names the site.
        if enc.len() > 400 {
            continue;
        }
        let k = rng.range(1, 3);
        let line = format!("parol-ll {st} {enc} {k}");
        if seen.contains(&line) {
            continue;
        }
        let words: Vec<&str> = line.split(' ').collect();
        let reply = std::panic::catch_unwind(|| run_case(&words)).ok().flatten();
        match reply {
            Some(r) if !r.starts_with("err") && r != "harness-error" => accepted += 1,
            _ => {
                // rejected grammars: at most a third of the cases
                if rejected * 2 >= accepted + 40 {
                    continue;
                }
                rejected += 1;
            }
        }
        seen.insert(line.clone());
        out.push(line);
    }
    out
}

pub fn cli(args: &[String]) {
    standard_cli(args, generate, run_case)
}
