//! Runtime LALR(1) parser ties (C03, C04, C14, C17, C20): see `llrun` for the case-line layout; the
//! first word is `lr` and words 1–3 are `<start> <prods> <states>`:
//! prods `lhs:len:push;…`, states `acts/gotos;…`, acts `term:S:state+term:R:nt:prod+term:A`, gotos `nt:state+…`.
use crate::dynparse::*;
use crate::llrun::*;
use crate::parsegen::*;
use crate::cfgenc::Gram;
use crate::util::*;
use parol_runtime::lr_parser::LRAction;

pub fn enc_lr_tables(b: &Built) -> Option<String> {
    if let Tables::LR { table, productions } = &b.tables {
        let ps: Vec<String> = productions
            .iter()
            .map(|p| format!("{}:{}:{}", p.lhs, p.len, if p.is_push_production { 1 } else { 0 }))
            .collect();
        let sts: Vec<String> = table
            .states
            .iter()
            .map(|st| {
                let acts: Vec<String> = st
                    .actions
                    .iter()
                    .map(|(t, ai)| match &table.actions[*ai] {
                        LRAction::Shift(s) => format!("{t}:S:{s}"),
                        LRAction::Reduce(n, p) => format!("{t}:R:{n}:{p}"),
                        LRAction::Accept => format!("{t}:A"),
                    })
                    .collect();
                let gotos: Vec<String> = st.gotos.iter().map(|(n, s)| format!("{n}:{s}")).collect();
                format!(
                    "{}/{}",
                    if acts.is_empty() { "-".to_string() } else { acts.join("+") },
                    if gotos.is_empty() { "-".to_string() } else { gotos.join("+") }
                )
            })
            .collect();
        Some(format!(
            "{} {} {}",
            b.start,
            if ps.is_empty() { "-".into() } else { ps.join(";") },
            if sts.is_empty() { "-".into() } else { sts.join(";") }
        ))
    } else {
        None
    }
}

/// Bounded replay of the table-driven LR loop on the significant token types (generator-side guard
/// only): `false` iff the run needs more than `limit` actions. Tables on which parol's LR parser
/// does not terminate (finding F24: a loop of reductions that consumes no input) must not reach the
/// in-process `run` of the differential checks; C19's watchdog runs them in their own process.
pub fn lr_sim_terminates(b: &Built, toks: &[(Tok, bool)], limit: usize) -> bool {
    let (table, productions) = match &b.tables {
        Tables::LR { table, productions } => (table, productions),
        _ => return true,
    };
    let mut input: Vec<u16> = toks.iter().filter(|(_, skip)| !*skip).map(|(t, _)| t.ty).collect();
    input.push(0);
    let mut pos = 0;
    let mut stack: Vec<usize> = vec![0];
    for _ in 0..limit {
        let st = match table.states.get(*stack.last().unwrap()) {
            Some(s) => s,
            None => return true,
        };
        let t = input[pos.min(input.len() - 1)];
        let ai = match st.actions.iter().find(|(tt, _)| *tt == t) {
            Some((_, ai)) => *ai,
            None => return true, // syntax error
        };
        match &table.actions[ai] {
            LRAction::Shift(s) => {
                stack.push(*s);
                pos += 1;
            }
            LRAction::Reduce(n, p) => {
                let len = productions.get(*p).map(|x| x.len).unwrap_or(0);
                if len >= stack.len() {
                    return true;
                }
                stack.truncate(stack.len() - len);
                let st2 = &table.states[*stack.last().unwrap()];
                match st2.gotos.iter().find(|(nn, _)| nn == n) {
                    Some((_, s)) => stack.push(*s),
                    None => return true,
                }
            }
            LRAction::Accept => return true,
        }
    }
    false
}

pub fn run_case(w: &[&str]) -> Option<String> {
    if w.len() < 13 || w[0] != "lr" {
        return None;
    }
    let mut opts = parse_opts(w[4], w[5])?;
    opts.recovery = false; // the LR parser has no recovery; replies are always printed in full
    let g = Gram::parse(w[7], w[8])?;
    let k: usize = w[10].parse().ok()?;
    let po = parse_par_flags(w[11])?;
    let text = unhex(w[12])?;
    let par = par_text(&g, &po);
    let b = cached_build(&par, k)?;
    let toks = b.tokens(&text, 1).ok()?;
    let r = b.run(&text, &opts);
    Some(show_run(b, &toks, &opts, &r))
}

pub fn generate(seed: u64, thorough: bool, mode: &str) -> Vec<String> {
    let p = match (mode, thorough) {
        ("junk", false) => GenParams { grammars: 50, max_k: 1, exhaustive_len: 3, exhaustive_cap: 80, sentences: 12, styled: true, all_opts: false, junk: true, keep_cyclic: false },
        ("junk", true) => GenParams { grammars: 600, max_k: 1, exhaustive_len: 4, exhaustive_cap: 240, sentences: 30, styled: true, all_opts: false, junk: true, keep_cyclic: false },
        ("cyclic", false) => GenParams { grammars: 400, max_k: 1, exhaustive_len: 2, exhaustive_cap: 6, sentences: 2, styled: false, all_opts: false, junk: false, keep_cyclic: true },
        ("cyclic", true) => GenParams { grammars: 3000, max_k: 1, exhaustive_len: 3, exhaustive_cap: 10, sentences: 3, styled: false, all_opts: false, junk: false, keep_cyclic: true },
        ("opts", false) => GenParams { grammars: 25, max_k: 1, exhaustive_len: 3, exhaustive_cap: 40, sentences: 6, styled: true, all_opts: true, junk: false, keep_cyclic: false },
        ("opts", true) => GenParams { grammars: 150, max_k: 1, exhaustive_len: 4, exhaustive_cap: 120, sentences: 12, styled: true, all_opts: true, junk: false, keep_cyclic: false },
        ("styled", false) => GenParams { grammars: 60, max_k: 1, exhaustive_len: 3, exhaustive_cap: 60, sentences: 10, styled: true, all_opts: false, junk: false, keep_cyclic: false },
        ("styled", true) => GenParams { grammars: 500, max_k: 1, exhaustive_len: 4, exhaustive_cap: 200, sentences: 20, styled: true, all_opts: false, junk: false, keep_cyclic: false },
        (_, false) => GenParams { grammars: 120, max_k: 1, exhaustive_len: 4, exhaustive_cap: 150, sentences: 10, styled: false, all_opts: false, junk: false, keep_cyclic: false },
        (_, true) => GenParams { grammars: 1500, max_k: 1, exhaustive_len: 6, exhaustive_cap: 1500, sentences: 30, styled: false, all_opts: false, junk: false, keep_cyclic: false },
    };
    gen_cases(seed, &p, true)
}

pub fn cli(args: &[String]) {
    let mode = args.get(3).cloned().unwrap_or_else(|| "plain".to_string());
    standard_cli(args, move |s, t| generate(s, t, &mode), run_case)
}
