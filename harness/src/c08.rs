//! C08: runtime production prediction. Drives the real `LookaheadDFA::eval` with a real
//! `TokenStream` over a one-letter-per-token scanner (letters a..h = token types 5..12).
use crate::rng::Rng;
use crate::util::*;
use parol_runtime::{LookaheadDFA, ParolError, ParserError, TokenStream, Trans};
use scnr2::scanner;
use std::borrow::Cow;
use std::path::{Path, PathBuf};

scanner!(
    LetterScanner {
        mode INITIAL {
            token r"a" => 5;
            token r"b" => 6;
            token r"c" => 7;
            token r"d" => 8;
            token r"e" => 9;
            token r"f" => 10;
            token r"g" => 11;
            token r"h" => 12;
        }
    }
);

pub const FIRST: usize = 5;
pub const NLETTERS: usize = 8;

pub fn parse_trans(s: &str) -> Option<Vec<Trans>> {
    if s == "-" {
        return Some(vec![]);
    }
    s.split(';')
        .map(|t| {
            let p: Vec<&str> = t.split(':').collect();
            if p.len() != 4 {
                return None;
            }
            Some(Trans(
                p[0].parse().ok()?,
                p[1].parse().ok()?,
                p[2].parse().ok()?,
                p[3].parse().ok()?,
            ))
        })
        .collect()
}

pub fn show_trans(ts: &[(usize, usize, usize, i32)]) -> String {
    if ts.is_empty() {
        return "-".into();
    }
    ts.iter()
        .map(|t| format!("{}:{}:{}:{}", t.0, t.1, t.2, t.3))
        .collect::<Vec<_>>()
        .join(";")
}

pub fn text_of(la: &[usize]) -> Option<String> {
    // trailing zeros are the EOI padding; a zero before a letter cannot be produced by a scanner
    let mut end = la.len();
    while end > 0 && la[end - 1] == 0 {
        end -= 1;
    }
    let mut s = String::new();
    for &t in &la[..end] {
        if !(FIRST..FIRST + NLETTERS).contains(&t) {
            return None;
        }
        s.push((b'a' + (t - FIRST) as u8) as char);
    }
    Some(s)
}

pub fn run_case(w: &[&str]) -> Option<String> {
    match w {
        ["eval", p0, tr, k, la] => {
            let prod0: i32 = p0.parse().ok()?;
            let trans = parse_trans(tr)?;
            let k: usize = k.parse().ok()?;
            let la: Vec<usize> = parse_nats(la)?;
            let text = text_of(&la)?;
            let trans: &'static [Trans] = Box::leak(trans.into_boxed_slice());
            let dfa = LookaheadDFA::new(prod0, trans, k);
            let file_name: Cow<'static, Path> = Cow::Owned(PathBuf::default());
            let scanner = letter_scanner::LetterScanner::new();
            let text: &'static str = Box::leak(text.into_boxed_str());
            let mut stream = TokenStream::new(
                text,
                file_name,
                scanner.scanner_impl.clone(),
                &letter_scanner::LetterScanner::match_function,
                std::cmp::max(k, 1),
            )
            .ok()?;
            Some(match dfa.eval(&mut stream, 0) {
                Ok(p) => format!("ok {p}"),
                Err(ParolError::ParserError(ParserError::PredictionError { .. })) => {
                    "predict-error".to_string()
                }
                Err(e) => format!("other-error {}", format!("{e:?}").replace(' ', "_").chars().take(60).collect::<String>()),
            })
        }
        _ => None,
    }
}

/// Random trie-shaped automaton: (prod0, transitions sorted by (from, term), k).
/// `prefix_free`: only leaves accept. `merge`: leaves with equal production share one state.
fn random_dfa(rng: &mut Rng, k: usize, nprods: usize, alpha: usize, prefix_free: bool, merge: bool) -> (i32, Vec<(usize, usize, usize, i32)>) {
    // nodes: (depth, prod)
    let mut trans: Vec<(usize, usize, usize, i32)> = vec![];
    let mut next_state = 1usize;
    let mut leaf_of_prod: std::collections::BTreeMap<i32, usize> = Default::default();
    let mut work = vec![(0usize, 0usize)]; // (state, depth)
    let mut has_child = vec![false];
    let mut depth_of = vec![0usize];
    while let Some((st, depth)) = work.pop() {
        if depth >= k {
            continue;
        }
        // children: random subset of {EOI(0)} ∪ letters
        let mut terms: Vec<usize> = vec![];
        if rng.chance(1, 3) {
            terms.push(0);
        }
        for a in 0..alpha {
            if rng.chance(if depth == 0 { 3 } else { 2 }, 4) {
                terms.push(FIRST + a);
            }
        }
        for t in terms {
            let is_leaf = depth + 1 == k || t == 0 || rng.chance(2, 5);
            let prod: i32 = if is_leaf || (!prefix_free && rng.chance(1, 3)) {
                rng.below(nprods) as i32
            } else {
                -1
            };
            let dst = if is_leaf && merge && leaf_of_prod.contains_key(&prod) {
                leaf_of_prod[&prod]
            } else {
                let s = next_state;
                next_state += 1;
                has_child.push(false);
                depth_of.push(depth + 1);
                if is_leaf && merge {
                    leaf_of_prod.insert(prod, s);
                }
                s
            };
            trans.push((st, t, dst, prod));
            has_child[st] = true;
            if !is_leaf {
                work.push((dst, depth + 1));
            }
        }
    }
    // Shared INNER states, as minimisation leaves them (combine_equivalent_states keeps the lowest id):
    // an edge from a higher-numbered state is redirected to an earlier-created inner state of the same
    // depth, which gives transitions that lead "backwards" in the state numbering (seeded change mut-C01x).
    if merge && rng.chance(1, 2) {
        let inner: Vec<usize> = (0..trans.len()).filter(|&i| trans[i].3 == -1 && has_child[trans[i].2]).collect();
        let mut done = false;
        for &i in &inner {
            for &j in &inner {
                let (v1, (u2, v2)) = (trans[i].2, (trans[j].0, trans[j].2));
                let _ = u2;
                if !done && v1 < v2 && depth_of[v1] == depth_of[v2] {
                    trans[j].2 = v1;
                    done = true;
                }
            }
        }
    }
    // The state numbers of a minimised automaton are not monotone along the paths (renumber_states only
    // compacts the surviving ids): half of the automata get their non-start states renumbered at random.
    if next_state > 2 && rng.chance(1, 2) {
        let mut perm: Vec<usize> = (1..next_state).collect();
        for i in (1..perm.len()).rev() {
            let j = rng.below(i + 1);
            perm.swap(i, j);
        }
        let map = |s: usize| if s == 0 { 0 } else { perm[s - 1] };
        for t in trans.iter_mut() {
            t.0 = map(t.0);
            t.2 = map(t.2);
        }
    }
    // inner nodes that ended up without children but non-accepting are dead ends: fine (error paths)
    trans.sort();
    let prod0 = if trans.is_empty() { rng.below(nprods) as i32 } else if !prefix_free && rng.chance(1, 8) { rng.below(nprods) as i32 } else { -1 };
    (prod0, trans)
}

fn all_la(alpha_terms: &[usize], len: usize) -> Vec<Vec<usize>> {
    // all token strings of length <= len over alpha_terms, EOI-padded to len
    let mut res: Vec<Vec<usize>> = vec![vec![]];
    let mut frontier: Vec<Vec<usize>> = vec![vec![]];
    for _ in 0..len {
        let mut next = vec![];
        for s in &frontier {
            for &a in alpha_terms {
                let mut t = s.clone();
                t.push(a);
                next.push(t);
            }
        }
        res.extend(next.iter().cloned());
        frontier = next;
    }
    for r in res.iter_mut() {
        while r.len() < len {
            r.push(0);
        }
    }
    res
}

pub fn generate(seed: u64, thorough: bool) -> Vec<String> {
    let mut rng = Rng::new(seed ^ 0xC08);
    let mut out = vec![];
    let ndfa = if thorough { 1500 } else { 250 };
    for i in 0..ndfa {
        let k = rng.range(0, 3);
        let alpha = rng.range(1, 3);
        let nprods = rng.range(1, 4);
        let prefix_free = i % 4 != 3;
        let merge = rng.chance(1, 2);
        let (prod0, mut trans) = random_dfa(&mut rng, k, nprods, alpha, prefix_free, merge);
        if i % 25 == 24 && trans.len() > 1 {
            // malformed: unsorted transition list (totality of the scan; oracle not applicable)
            let j = rng.below(trans.len() - 1);
            trans.swap(j, j + 1);
        }
        // alphabet of inputs: the automaton's letters plus one foreign letter
        let mut terms: Vec<usize> = (0..=alpha).map(|a| FIRST + a).collect();
        terms.dedup();
        let las = all_la(&terms, k + 1);
        let cap = if thorough { 400 } else { 120 };
        let step = std::cmp::max(1, las.len() / cap);
        for (j, la) in las.iter().enumerate() {
            if las.len() > cap && j % step != 0 {
                continue;
            }
            out.push(format!("eval {} {} {} {}", prod0, show_trans(&trans), k, show_nats(la)));
        }
    }
    out
}

pub fn cli(args: &[String]) {
    standard_cli(args, generate, run_case)
}
