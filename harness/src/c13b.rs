//! C13b: the regexes parol generates from the grammar AS WRITTEN (`generate_build_information`).
//!
//! C13 hands the Lean side a scanner description that is re-derived from the REAL output of
//! `ScannerConfig::generate_build_information`, so a defect inside that function is invisible there.
//! Here the Lean side gets the SOURCE-level data only — extracted from the real front end's
//! `GrammarConfig` WITHOUT calling `generate_build_information`: `cfg.get_ordered_terminals()` (text,
//! kind, lookahead with its own kind, scanner states) and per scanner state the flags and comment
//! delimiters — and computes the terminal mappings with its model `buildInfo` (Model/BuildInfo.lean).
//!
//! * `binfo <names> <terms> <scanners> <par> <probes>`: the implementation side rebuilds the grammar
//!   config from `<par>`, checks that the source-level words are the ones it would extract itself
//!   (`stale-src` otherwise), calls the REAL `generate_build_information` for every scanner state and
//!   prints the mappings in the canonical format of Model/BuildInfo.lean. Byte-identical replies.
//! * `rawlit <text>`: REAL `TerminalKind::Raw.expand(text)` and what regex-syntax reads it as.
//! * `pv c13b probe <cases> <model-replies>`: the oracle stage. For every `binfo` case the REAL scanner
//!   (scnr2 tables built at run time from the REAL build information, REAL `TokenStream`) scans the
//!   probe texts; the regex texts of the MODEL's mappings are lowered (regex-syntax → `Re`); one
//!   `binfo-scan-check` request per text is printed, which the Lean driver decides from the
//!   source-level data (`tokenizeSpec` over the model's mappings).
use crate::dynscan;
use crate::relower::{self, cps, from_cps};
use crate::rng::Rng;
use crate::util::*;
use parol::parser::parol_grammar::ScannerStateSwitch;
use parol::{GrammarConfig, TerminalKind, generators::generate_terminal_names};
use std::collections::HashMap;

fn kind_ch(k: TerminalKind) -> char {
    match k {
        TerminalKind::Legacy => 'l',
        TerminalKind::Regex => 'r',
        TerminalKind::Raw => 'w',
    }
}

/// The source-level words `<terms> <scanners>` — no call of `generate_build_information`.
pub fn src_words(gc: &GrammarConfig) -> (String, String) {
    let mut ts = vec![];
    for (t, k, l, s) in gc.cfg.get_ordered_terminals() {
        let st = if s.is_empty() { "-".to_string() } else { s.iter().map(|x| x.to_string()).collect::<Vec<_>>().join(".") };
        let mut w = format!("{}:{}:{}", kind_ch(k), cps(t), st);
        if let Some(l) = l {
            w.push_str(&format!(":{}{}:{}", if l.is_positive { '+' } else { '!' }, kind_ch(l.kind), cps(&l.pattern)));
        }
        ts.push(w);
    }
    let mut ss = vec![];
    for sc in &gc.scanner_configurations {
        let lc = if sc.line_comments.is_empty() { "*".to_string() } else { sc.line_comments.iter().map(|s| cps(s)).collect::<Vec<_>>().join("/") };
        let bc = if sc.block_comments.is_empty() {
            "*".to_string()
        } else {
            sc.block_comments.iter().map(|(s, e)| format!("{}|{}", cps(s), cps(e))).collect::<Vec<_>>().join("/")
        };
        ss.push(format!("{}:{}{}{}:{}:{}", sc.scanner_state, sc.auto_newline as u8, sc.auto_ws as u8, sc.allow_unmatched as u8, lc, bc));
    }
    (if ts.is_empty() { "-".to_string() } else { ts.join(";") }, ss.join(";"))
}

/// The REAL mappings of every scanner state, canonical format.
fn real_reply(gc: &GrammarConfig, names: &[String]) -> String {
    let mut parts = vec![];
    for sc in &gc.scanner_configurations {
        match sc.generate_build_information(gc, names) {
            Ok((m, _)) => {
                if m.is_empty() {
                    parts.push("-".to_string());
                    continue;
                }
                let v: Vec<String> = m
                    .iter()
                    .map(|(rx, ti, la, name)| {
                        let la = match la {
                            None => "n".to_string(),
                            Some((pos, r)) => format!("{}{}", if *pos { '+' } else { '!' }, cps(r)),
                        };
                        format!("{}:{}:{}:{}", ti, cps(rx), la, name)
                    })
                    .collect();
                parts.push(v.join(";"));
            }
            Err(e) => {
                let e = e.to_string();
                parts.push(
                    if e.contains("dangling") {
                        "err:dangling"
                    } else if e.contains("is empty") {
                        "err:empty"
                    } else if e.contains("too long") {
                        "err:too-long"
                    } else {
                        "err:other"
                    }
                    .to_string(),
                );
            }
        }
    }
    parts.join("_")
}

fn parse_names(w: &str) -> Vec<String> {
    if w == "-" { vec![] } else { w.split(',').map(|s| s.to_string()).collect() }
}

/// What regex-syntax reads a regex text as, if that is a literal string.
fn literal_meaning(rx: &str) -> Option<Vec<u32>> {
    use regex_syntax::hir::HirKind;
    let hir = regex_syntax::parse(rx).ok()?;
    match hir.kind() {
        HirKind::Empty => Some(vec![]),
        HirKind::Literal(l) => {
            let s = std::str::from_utf8(&l.0).ok()?;
            Some(s.chars().map(|c| c as u32).collect())
        }
        _ => None,
    }
}

pub fn run_case(w: &[&str]) -> Option<String> {
    match w {
        ["binfo", names, terms, scanners, par, ..] => {
            let par = from_cps(par)?;
            let gc = match parol::obtain_grammar_config_from_string(&par, false) {
                Ok(gc) => gc,
                Err(_) => return Some("par-error".into()),
            };
            let (t, s) = src_words(&gc);
            if t != *terms || s != *scanners {
                return Some("stale-src".into());
            }
            Some(real_reply(&gc, &parse_names(names)))
        }
        ["rawlit", t] => {
            let t = from_cps(t)?;
            let rx = TerminalKind::Raw.expand(&t);
            Some(match literal_meaning(&rx) {
                Some(m) => format!("{} lit {}", cps(&rx), show_nats(&m)),
                None => format!("{} not-literal", cps(&rx)),
            })
        }
        _ => None,
    }
}

// ------------------------------------------------------------------------------------------
// generators

/// (literal as written in the grammar incl. delimiters, sample texts it matches)
type Lit = (&'static str, &'static [&'static str]);

const REGEXES: &[Lit] = &[
    ("/[a-c]+/", &["a", "abc", "cab"]),
    ("/a*b/", &["b", "ab", "aaab"]),
    ("/(a|b)c/", &["ac", "bc"]),
    ("/x?y/", &["y", "xy"]),
    ("/[0-9]+/", &["0", "42"]),
    ("/[0-9]+\\.[0-9]*/", &["1.", "3.14"]),
    ("/[^a\\s]+/", &["b", "xyz", "="]),
    ("/\\d+/", &["7"]),
    ("/\\w+/", &["w1", "é_a"]),
    ("/./", &["?", "a"]),
    ("/a{2,3}/", &["aa", "aaa"]),
    ("/[a-z]+/", &["if", "abc", "z"]),
    ("/[a-z]/", &["q", "a"]),
    ("/[a-zA-Z_][a-zA-Z0-9_]*/", &["Id_1", "x"]),
    ("/=+/", &["=", "=="]),
    ("/<=?/", &["<", "<="]),
    ("/a|ab|abc/", &["a", "ab", "abc"]),
    ("/b*/", &["b", "bb"]),
    ("/\\u{1F600}+/", &["😀"]),
    ("/\\r\\n|\\n/", &["\n", "\r\n"]),
    ("/[ \\t]+/", &[" ", "\t "]),
    ("/\\$[a-z]*/", &["$", "$ab"]),
    ("/\\(|\\)/", &["(", ")"]),
    ("/-?[0-9]+/", &["-1", "5"]),
    ("/\\[a-z\\]/", &["[a-z]"]),
    ("/\\/\\//", &["//"]),
    ("\"[a-c]+\"", &["a", "cab"]),
    ("\"\\+\"", &["+"]),
    ("\"[0-9]\"", &["7"]),
    ("\"x|y\"", &["x", "y"]),
    ("\"\\(\"", &["("]),
    ("\"#\"", &["#"]),
];

const RAWS: &[Lit] = &[
    ("'if'", &["if"]),
    ("'a'", &["a"]),
    ("'ab'", &["ab"]),
    ("'=='", &["=="]),
    ("'='", &["="]),
    ("'<'", &["<"]),
    ("'+'", &["+"]),
    ("'*'", &["*"]),
    ("'('", &["("]),
    ("')'", &[")"]),
    ("'{'", &["{"]),
    ("'}'", &["}"]),
    ("'a.b'", &["a.b"]),
    ("'é'", &["é"]),
    ("'->'", &["->"]),
    ("'-'", &["-"]),
    ("';'", &[";"]),
    ("'['", &["["]),
    ("']'", &["]"]),
    ("'^'", &["^"]),
    ("'$'", &["$"]),
    ("'|'", &["|"]),
    ("'b+'", &["b+"]),
    ("'x?'", &["x?"]),
    ("'[a-z]'", &["[a-z]"]),
    ("'.*'", &[".*"]),
    ("'&&'", &["&&"]),
    ("'~'", &["~"]),
    ("'#'", &["#"]),
    ("'\\u{41}'", &["A"]),
    ("'x\\u{1F600}y'", &["x😀y"]),
    ("'\\u{zz}'", &["\\u{zz}"]),
    ("'a\\b'", &["a\\b"]),
    ("'\\\\'", &["\\\\"]),
    ("'\\d'", &["\\d"]),
    ("'\"'", &["\""]),
    ("'/'", &["/"]),
];

/// line comment start as written, and the text that starts such a comment
const LINE_COMMENTS: &[(&str, &str)] =
    &[("'//'", "//"), ("'#'", "#"), ("'--'", "--"), ("\"%\"", "%"), ("/;+/", ";;"), ("'REM'", "REM"), ("'\\u{21}'", "!"), ("/\\/\\/\\//", "///")];

/// block comment delimiters as written, and the texts that start / end such a comment
const BLOCK_COMMENTS: &[(&str, &str, &str, &str)] = &[
    ("'(*'", "'*)'", "(*", "*)"),
    ("'{-'", "'-}'", "{-", "-}"),
    ("'{{'", "'}}'", "{{", "}}"),
    ("'#'", "'#'", "#", "#"),
    ("'/*'", "'*/'", "/*", "*/"),
    ("'<!--'", "'-->'", "<!--", "-->"),
    ("/\\(\\*\\*/", "/\\*\\*\\)/", "(**", "**)"),
    ("\"<<\"", "\">>\"", "<<", ">>"),
    ("'\"\"\"'", "'\"\"\"'", "\"\"\"", "\"\"\""),
    ("'[['", "']]'", "[[", "]]"),
    ("'{'", "'}'", "{", "}"),
    ("'^'", "'^-'", "^", "^-"),
    ("'REM'", "/\\n/", "REM", "\n"),
];

struct TermGen {
    name: String,
    lit: String,
    samples: Vec<String>,
    states: Vec<usize>,
    /// (text as written incl. operator, the written pattern without delimiters, samples)
    lookahead: Option<(String, String, Vec<String>)>,
}

fn pick_lit(rng: &mut Rng) -> Lit {
    if rng.chance(1, 2) { *rng.pick(RAWS) } else { *rng.pick(REGEXES) }
}

fn inner(lit: &str) -> String {
    lit[1..lit.len() - 1].to_string()
}

fn gen_par(rng: &mut Rng) -> (String, Vec<TermGen>, Vec<Vec<String>>) {
    let nmodes = 1 + [0, 0, 1, 1, 2, 3][rng.below(6)];
    let mode_names: Vec<String> = (0..nmodes).map(|i| if i == 0 { "INITIAL".to_string() } else { format!("M{i}") }).collect();
    let nterms = rng.range(2, 8);
    let mut terms: Vec<TermGen> = vec![];
    for i in 0..nterms {
        let mut states: Vec<usize> = (0..nmodes).filter(|m| rng.chance(if *m == 0 { 3 } else { 1 }, if *m == 0 { 4 } else { 2 })).collect();
        if states.is_empty() {
            states.push(rng.below(nmodes));
        }
        let (lit, samples) = pick_lit(rng);
        let lookahead = if rng.chance(1, 2) {
            let op = if rng.chance(1, 2) { "?=" } else { "?!" };
            // mixed kinds on purpose: the lookahead's kind is drawn independently of the terminal's
            let (la, ls) = if rng.chance(1, 5) { ("/[a-z]/", &["a", "q"][..]) } else { pick_lit(rng) };
            Some((format!("{op} {la}"), inner(la), ls.iter().map(|s| s.to_string()).collect()))
        } else {
            None
        };
        terms.push(TermGen { name: format!("T{i}"), lit: lit.to_string(), samples: samples.iter().map(|s| s.to_string()).collect(), states, lookahead });
    }
    for m in 1..nmodes {
        if !terms.iter().any(|t| t.states.contains(&m)) {
            let j = rng.below(terms.len());
            terms[j].states.push(m);
            terms[j].states.sort();
        }
    }
    // per mode: texts made of comments of all the mode's styles
    let mut comment_texts: Vec<Vec<String>> = vec![vec![]; nmodes];
    let mut directives = |rng: &mut Rng, me: usize, top: bool| -> String {
        let ind = if top { "" } else { "    " };
        let mut s = String::new();
        let nline = [0, 0, 1, 2, 2, 3][rng.below(6)];
        let mut pool: Vec<(&str, &str)> = LINE_COMMENTS.to_vec();
        let mut all = String::new();
        let mut all_crlf = String::new();
        for j in 0..nline {
            let (w, c) = pool.swap_remove(rng.below(pool.len()));
            s.push_str(&format!("{ind}%line_comment {w}\n"));
            all.push_str(&format!("{c} x{j}\n"));
            all_crlf.push_str(&format!("{c}y\r\n{c}"));
            comment_texts[me].push(format!("{c} a b\n"));
        }
        if nline > 0 {
            comment_texts[me].push(all);
            comment_texts[me].push(all_crlf);
        }
        let nblock = [0, 0, 1, 1, 2, 3][rng.below(6)];
        let mut pool: Vec<(&str, &str, &str, &str)> = BLOCK_COMMENTS.to_vec();
        let mut all = String::new();
        for _ in 0..nblock {
            let (a, b, sa, sb) = pool.swap_remove(rng.below(pool.len()));
            s.push_str(&format!("{ind}%block_comment {a} {b}\n"));
            all.push_str(&format!("{sa} c {sb} "));
            comment_texts[me].push(format!("{sa}{sb}"));
            comment_texts[me].push(format!("{sa} q {sb}{sb}"));
            comment_texts[me].push(sa.to_string());
        }
        if nblock > 0 {
            comment_texts[me].push(all);
        }
        if rng.chance(1, 25) {
            // an end delimiter `format_block_comment` rejects (too long / empty): the state has no mappings
            s.push_str(if rng.chance(1, 2) { "%block_comment '<' 'abcd'\n" } else { "%block_comment '<' ''\n" });
        }
        if rng.chance(1, 4) {
            s.push_str(&format!("{ind}%auto_newline_off\n"));
        }
        if rng.chance(1, 4) {
            s.push_str(&format!("{ind}%auto_ws_off\n"));
        }
        if rng.chance(1, 3) {
            s.push_str(&format!("{ind}%allow_unmatched\n"));
        }
        let mine: Vec<&TermGen> = terms.iter().filter(|t| t.states.contains(&me)).collect();
        if !mine.is_empty() && rng.chance(1, 5) {
            s.push_str(&format!("{ind}%skip {}\n", rng.pick(&mine).name));
        }
        if nmodes > 1 && !mine.is_empty() {
            let mut used: Vec<String> = vec![];
            for _ in 0..rng.range(0, 2) {
                let t = rng.pick(&mine).name.clone();
                if used.contains(&t) {
                    continue;
                }
                used.push(t.clone());
                let target = &mode_names[rng.below(nmodes)];
                match rng.below(3) {
                    0 => s.push_str(&format!("{ind}%on {t} %enter {target}\n")),
                    1 => s.push_str(&format!("{ind}%on {t} %push {target}\n")),
                    _ => s.push_str(&format!("{ind}%on {t} %pop\n")),
                }
            }
        }
        s
    };
    let mut par = String::from("%start S\n");
    par.push_str(&directives(rng, 0, true));
    for m in 1..nmodes {
        par.push_str(&format!("%scanner {} {{\n", mode_names[m]));
        par.push_str(&directives(rng, m, false));
        par.push_str("}\n");
    }
    par.push_str("%%\nS: { ");
    par.push_str(&terms.iter().map(|t| t.name.clone()).collect::<Vec<_>>().join(" | "));
    par.push_str(" };\n");
    for t in &terms {
        let st = if t.states == vec![0] && rng.chance(1, 2) {
            String::new()
        } else {
            format!("<{}>", t.states.iter().map(|s| mode_names[*s].clone()).collect::<Vec<_>>().join(", "))
        };
        let la = t.lookahead.as_ref().map(|l| format!(" {}", l.0)).unwrap_or_default();
        par.push_str(&format!("{}: {}{}{};\n", t.name, st, t.lit, la));
    }
    (par, terms, comment_texts)
}

/// Probe texts that distinguish the documented behaviour: every lookahead terminal followed by a
/// text its lookahead matches / by the lookahead pattern taken literally / by junk; all comment
/// styles of a mode one after the other; random sentences.
fn gen_probes(rng: &mut Rng, terms: &[TermGen], comments: &[Vec<String>], nrandom: usize) -> Vec<String> {
    let mut out: Vec<String> = vec![];
    for t in terms {
        if let Some((_, pat, ls)) = &t.lookahead {
            let s = rng.pick(&t.samples[..]).clone();
            out.push(format!("{s}{}", rng.pick(&ls[..])));
            out.push(format!("{s}{pat}"));
            out.push(format!("{s}?"));
            out.push(format!("{s} {s}\n"));
        }
    }
    for c in &comments[0] {
        out.push(c.clone());
    }
    let all_comments: Vec<String> = comments.iter().flatten().cloned().collect();
    let ws = [" ", "  ", "\t", "\n", "\r\n", "\r", " \n ", "\u{a0}", "\u{2028}"];
    let junk = ["?", "@", "a", "b", "c", "x", "=", "é", "0", "日", "~", "\u{10FFFE}", ".", "_", "#", "/"];
    for _ in 0..nrandom {
        let mut s = String::new();
        for _ in 0..rng.range(0, 12) {
            match rng.below(10) {
                0..=4 => {
                    let t = rng.pick(terms);
                    s.push_str(rng.pick(&t.samples[..]).as_str());
                    if let Some((_, pat, ls)) = &t.lookahead {
                        match rng.below(4) {
                            0 => s.push_str(rng.pick(&ls[..]).as_str()),
                            1 => s.push_str(pat),
                            _ => {}
                        }
                    }
                }
                5 | 6 => s.push_str(*rng.pick(&ws[..])),
                7 => {
                    if !all_comments.is_empty() {
                        s.push_str(rng.pick(&all_comments[..]).as_str());
                    } else {
                        s.push_str(*rng.pick(&ws[..]));
                    }
                }
                _ => s.push_str(*rng.pick(&junk[..])),
            }
            if rng.chance(1, 2) {
                s.push_str(*rng.pick(&ws[..]));
            }
        }
        out.push(s);
    }
    // U+10FFFF is finding F21 of scnr2 (C13): never in a probe
    out.retain(|s| !s.contains('\u{10FFFF}'));
    out.sort();
    out.dedup();
    out
}

/// Hand-written grammars: the two situations of the property text.
const FIXED: &[(&str, &[&str])] = &[
    ("%start S\n%%\nS: { A | B };\nA: '<' ?= /[a-z]/;\nB: /[a-z\\[\\]\\-]+/;\n", &["<a", "<[a-z]", "< a", "<"]),
    ("%start S\n%line_comment '//'\n%line_comment '#'\n%%\nS: { A };\nA: /[a-z]+/;\n", &["// x\n# y\n", "# y\n// x\na", "//\n#\n"]),
    ("%start S\n%%\nS: { A | B };\nA: /[a-z]+/ ?! '(';\nB: '(';\n", &["ab(", "ab (", "ab"]),
];

fn binfo_case(par: &str, gc: &GrammarConfig, names: &[String], probes: &[String]) -> String {
    let (t, s) = src_words(gc);
    let pw = if probes.is_empty() { "*".to_string() } else { probes.iter().map(|p| cps(p)).collect::<Vec<_>>().join(";") };
    format!("binfo {} {} {} {} {}", if names.is_empty() { "-".to_string() } else { names.join(",") }, t, s, cps(par), pw)
}

pub fn generate(seed: u64, thorough: bool) -> Vec<String> {
    let mut rng = Rng::new(seed ^ 0xC13B);
    let mut out = vec![];
    for (par, probes) in FIXED {
        if let Ok(gc) = parol::obtain_grammar_config_from_string(par, false) {
            let names = generate_terminal_names(&gc);
            out.push(binfo_case(par, &gc, &names, &probes.iter().map(|s| s.to_string()).collect::<Vec<_>>()));
        }
    }
    let ngram = if thorough { 1500 } else { 120 };
    let nrandom = if thorough { 10 } else { 5 };
    for gi in 0..ngram {
        let (par, terms, comments) = gen_par(&mut rng);
        let probes = gen_probes(&mut rng, &terms, &comments, nrandom);
        let Ok(gc) = parol::obtain_grammar_config_from_string(&par, false) else {
            out.push("note:grammar-rejected-by-parol".to_string());
            continue;
        };
        let names = generate_terminal_names(&gc);
        out.push(binfo_case(&par, &gc, &names, &probes));
        if gi % 12 == 5 {
            // a `terminal_names` slice that is too short: the index panics of the real function
            let n = rng.below(names.len());
            out.push(binfo_case(&par, &gc, &names[..n], &[]));
        }
    }
    // rawlit: TerminalKind::Raw.expand on arbitrary texts
    let fixed = [
        "", "a", "\\u{41}", "\\u{0027}", "x\\u{1F600}y", "\\u{110000}", "\\u{D800}", "\\u{}", "\\u{0041", "\\u0041", "\\\\u{41}", "\\u{zz}", "\\u{41}}", "\\u{4g}",
        "\\", "a+b", "{", "\\u{10FFFF}", "\\u{DFFF}", "\\u{E000}", "\\u{000000041}", "\\U{41}", "\\u{41}\\u{42}", "\\\\", "\\u{4\\u{41}",
    ];
    for t in fixed {
        out.push(format!("rawlit {}", cps(t)));
    }
    let pieces = [
        "\\", ".", "+", "*", "?", "(", ")", "|", "[", "]", "{", "}", "^", "$", "#", "&", "-", "~", "a", "f", "F", "g", "u", "U", "0", "9", "4", "1", "é", "日", "\u{1F600}", " ", "\t", "/", "'", "\"", "%", "@", ":",
        "<", ">", "=", "!", ",", "_", "\\u{", "\\u{41}", "}",
    ];
    let nraw = if thorough { 20000 } else { 1500 };
    for _ in 0..nraw {
        let n = rng.range(0, 9);
        let t: String = (0..n).map(|_| *rng.pick(&pieces)).collect();
        out.push(format!("rawlit {}", cps(&t)));
    }
    out
}

// ------------------------------------------------------------------------------------------
// the oracle stage

/// Lowers the regex texts of a (model) reply: per state `re[~re];…`, states joined by `_`.
fn lower_reply(reply: &str) -> Result<String, String> {
    let mut ms = vec![];
    for st in reply.split('_') {
        if st.starts_with("err") || st == "panic" {
            return Err("model-error-reply".into());
        }
        let mut ts = vec![];
        if st != "-" {
            for m in st.split(';') {
                let f: Vec<&str> = m.split(':').collect();
                if f.len() != 4 {
                    return Err("model-reply-malformed".into());
                }
                let rx = from_cps(f[1]).ok_or("model-reply-malformed")?;
                let mut s = relower::lower_str(&rx)?.enc();
                if f[2] != "n" {
                    let l = from_cps(&f[2][1..]).ok_or("model-reply-malformed")?;
                    s.push('~');
                    s.push_str(&relower::lower_str(&l)?.enc());
                }
                ts.push(s);
            }
        }
        ms.push(ts.join(";"));
    }
    Ok(ms.join("_"))
}

/// `<trans>;…/<skip>;…` per mode — plain copies of `ScannerConfig::transitions` / `skip_tokens`.
fn aux_word(gc: &GrammarConfig) -> Result<String, String> {
    let mode_idx: HashMap<String, usize> = gc.scanner_configurations.iter().enumerate().map(|(i, sc)| (sc.scanner_name.clone(), i)).collect();
    let mut ms = vec![];
    for sc in &gc.scanner_configurations {
        let mut tr = vec![];
        for (ti, sw) in &sc.transitions {
            tr.push(match sw {
                ScannerStateSwitch::Switch(m, _) => format!("{ti}>e{}", mode_idx.get(m).ok_or("unknown-mode")?),
                ScannerStateSwitch::SwitchPush(m, _) => format!("{ti}>p{}", mode_idx.get(m).ok_or("unknown-mode")?),
                ScannerStateSwitch::SwitchPop(_) => format!("{ti}>o"),
            });
        }
        let sk: Vec<String> = sc.skip_tokens.iter().map(|s| s.to_string()).collect();
        ms.push(format!("{}/{}", tr.join(";"), sk.join(";")));
    }
    Ok(ms.join("_"))
}

/// Oracle requests of one case (`Err` = no probe possible, with the reason).
fn probe_case(case: &str, model_reply: &str) -> Result<Vec<String>, String> {
    let w: Vec<&str> = case.split_whitespace().collect();
    let ["binfo", names, terms, scanners, par, probes] = w[..] else { return Err("not-binfo".into()) };
    if probes == "*" {
        return Err("no-probes".into());
    }
    let par = from_cps(par).ok_or("bad-par")?;
    let gc = parol::obtain_grammar_config_from_string(&par, false).map_err(|_| "par-error".to_string())?;
    let lowered = lower_reply(model_reply)?;
    let aux = aux_word(&gc)?;
    // the REAL scanner, from the REAL build information (as C13 builds it)
    let built = match crate::c13::describe(&par) {
        Ok(d) => dynscan::build_cached(&d.modes).map_err(|e| format!("impl-scanner-build-error:{e}")),
        Err(e) => Err(format!("impl-build-info-error:{e}")),
    };
    let mut out = vec![];
    for p in probes.split(';') {
        let text = from_cps(p).ok_or("bad-probe")?;
        let delivered = match &built {
            Ok(b) => {
                let t: &'static str = Box::leak(text.clone().into_boxed_str());
                match dynscan::stream_tokens(b, t, 1, false) {
                    Ok(v) => dynscan::show_tks(&v),
                    Err(e) => format!("stream-error:{e}"),
                }
            }
            Err(e) => e.clone(),
        };
        out.push(format!("binfo-scan-check {names} {terms} {scanners} {lowered} {aux} {p} {delivered}"));
    }
    Ok(out)
}

fn probe(cases_path: &str, model_path: &str) {
    use std::io::Write;
    std::panic::set_hook(Box::new(|_| {}));
    let cases = std::fs::read_to_string(cases_path).expect("cases file");
    let model = std::fs::read_to_string(model_path).expect("model replies file");
    let mut s = String::new();
    for (i, (c, m)) in cases.lines().zip(model.lines()).enumerate() {
        if !c.starts_with("binfo ") {
            continue;
        }
        match std::panic::catch_unwind(|| probe_case(c, m)) {
            Ok(Ok(reqs)) => {
                for r in reqs {
                    s.push_str(&format!("@@ {i} {r}\n"));
                }
            }
            Ok(Err(e)) => s.push_str(&format!("@@ {i} skip {e}\n")),
            Err(_) => s.push_str(&format!("@@ {i} skip panic\n")),
        }
    }
    std::io::stdout().write_all(s.as_bytes()).unwrap();
}

/// `pv c13b mkcase <par-file> <probe text>…` prints the `binfo` request line of a hand-written
/// grammar; `pv c13b probe <cases> <model-replies>` is the oracle stage.
pub fn cli(args: &[String]) {
    match args.first().map(|s| s.as_str()) {
        Some("probe") if args.len() == 3 => probe(&args[1], &args[2]),
        Some("mkcase") if args.len() >= 2 => {
            let par = std::fs::read_to_string(&args[1]).expect("grammar file");
            match parol::obtain_grammar_config_from_string(&par, false) {
                Ok(gc) => println!("{}", binfo_case(&par, &gc, &generate_terminal_names(&gc), &args[2..].to_vec())),
                Err(_) => println!("par-error"),
            }
        }
        _ => standard_cli(args, generate, run_case),
    }
}
