//! C11: grammar well-formedness checks. Drives the real `Cfg::calculate_nullable_non_terminals`,
//! `non_productive_non_terminals`, `unreachable_non_terminals`,
//! `detect_left_recursive_non_terminals` and `check_and_transform_grammar_with_ignored` on plain
//! `Cfg` values built by `cfgenc::Gram::to_cfg` (non-terminal `n<i>` is named `N<ii>`).
//!
//! Request:  `wf <ignored> <start> <prods>`
//! Reply:    `<nullable> <nonprod> <unreach> <leftrec> <checkLL> <checkLR>` — six words; a set is
//! printed in the order the implementation returns it (`1,2` / `-`), a panicking call as `panic`;
//! the check words are `ok` | `np:<names>` | `ur:<names>` | `lr:<names>` | `other` | `panic`.
use crate::cfgenc::{enumerate_grams, nt_index, random_gram, GenCfg, Gram, Sym};
use crate::rng::Rng;
use crate::util::*;
use parol::analysis::{non_productive_non_terminals, unreachable_non_terminals, GrammarAnalysisError};
use parol::generators::grammar_trans::check_and_transform_grammar_with_ignored;
use parol::parser::parol_grammar::GrammarType;
use parol::{detect_left_recursive_non_terminals, Cfg};
use parol_runtime::ParolError;
use std::collections::BTreeSet;
use std::panic::{catch_unwind, AssertUnwindSafe};

fn show_names<'a>(names: impl Iterator<Item = &'a String>) -> String {
    let v: Vec<String> = names
        .map(|n| nt_index(n).map(|i| i.to_string()).unwrap_or_else(|| format!("?{n}")))
        .collect();
    show_nats(&v)
}

fn guarded(f: impl FnOnce() -> String) -> String {
    catch_unwind(AssertUnwindSafe(f)).unwrap_or_else(|_| "panic".to_string())
}

fn check_word(cfg: &Cfg, ty: GrammarType, ignored: &BTreeSet<String>) -> String {
    guarded(|| match check_and_transform_grammar_with_ignored(cfg, ty, ignored) {
        Ok(_) => "ok".to_string(),
        Err(ParolError::UserError(e)) => match e.downcast_ref::<GrammarAnalysisError>() {
            Some(GrammarAnalysisError::NonProductiveNonTerminals { non_terminals }) => {
                if non_terminals.iter().any(|h| h.topic != "Non-terminal") {
                    return "other".to_string();
                }
                format!("np:{}", show_names(non_terminals.iter().map(|h| &h.hint)))
            }
            Some(GrammarAnalysisError::UnreachableNonTerminals { non_terminals }) => {
                if non_terminals.iter().any(|h| h.topic != "Non-terminal") {
                    return "other".to_string();
                }
                format!("ur:{}", show_names(non_terminals.iter().map(|h| &h.hint)))
            }
            Some(GrammarAnalysisError::LeftRecursion { recursions }) => {
                if recursions.iter().enumerate().any(|(i, r)| r.number != i) {
                    return "other".to_string();
                }
                format!("lr:{}", show_names(recursions.iter().map(|r| &r.name)))
            }
            _ => "other".to_string(),
        },
        Err(_) => "other".to_string(),
    })
}

pub fn run_case(w: &[&str]) -> Option<String> {
    match w {
        ["wf", ign, st, prods] => {
            let g = Gram::parse(st, prods)?;
            let ign: Vec<usize> = parse_nats(ign)?;
            let ignored: BTreeSet<String> = ign.iter().map(|i| crate::cfgenc::nt_name(*i)).collect();
            let cfg = g.to_cfg();
            let nullable = guarded(|| show_names(cfg.calculate_nullable_non_terminals().iter()));
            let nonprod = guarded(|| show_names(non_productive_non_terminals(&cfg).iter()));
            let unreach = guarded(|| show_names(unreachable_non_terminals(&cfg).iter()));
            let leftrec = guarded(|| show_names(detect_left_recursive_non_terminals(&cfg).iter()));
            let ll = check_word(&cfg, GrammarType::LLK, &ignored);
            let lr = check_word(&cfg, GrammarType::LALR1, &ignored);
            Some(format!("{nullable} {nonprod} {unreach} {leftrec} {ll} {lr}"))
        }
        _ => None,
    }
}

fn line(g: &Gram, ign: &[usize]) -> String {
    format!("wf {} {}", show_nats(ign), g.show())
}

/// Random grammar biased towards the situations C11 talks about: left recursion hidden behind
/// nullable prefixes (direct and through a cycle), unreachable and non-productive parts, start
/// symbol used recursively, non-terminals without productions.
fn biased_gram(rng: &mut Rng) -> Gram {
    let c = GenCfg {
        max_nts: rng.range(2, 6),
        max_terms: 3,
        max_prods_per_nt: rng.range(1, 3),
        max_rhs: rng.range(1, 4),
        nt_bias: rng.range(3, 8),
        allow_undefined: rng.chance(1, 3),
    };
    let mut g = random_gram(rng, &c);
    let n = g.nts().len().max(1);
    let fresh = g.nts().iter().max().map(|m| m + 1).unwrap_or(1);
    match rng.below(8) {
        0 => {
            // nullable-hidden direct left recursion: A -> E A t ; E -> ε
            let a = rng.below(n);
            g.prods.push((a, vec![Sym::N(fresh), Sym::N(a), Sym::T(5)]));
            g.prods.push((fresh, vec![]));
            if rng.chance(1, 2) {
                g.prods.push((fresh, vec![Sym::T(6)]));
            }
        }
        1 => {
            // indirect cycle through nullable prefixes: A -> E B ; B -> E E A t ; E -> F ; F -> ε
            let a = rng.below(n);
            let b = rng.below(n);
            g.prods.push((a, vec![Sym::N(fresh), Sym::N(b)]));
            g.prods.push((b, vec![Sym::N(fresh), Sym::N(fresh), Sym::N(a), Sym::T(5)]));
            g.prods.push((fresh, vec![Sym::N(fresh + 1)]));
            g.prods.push((fresh + 1, vec![]));
        }
        2 => {
            // looks left-recursive but the prefix is NOT nullable: A -> E A ; E -> t
            let a = rng.below(n);
            g.prods.push((a, vec![Sym::N(fresh), Sym::N(a)]));
            g.prods.push((fresh, vec![Sym::T(5)]));
        }
        3 => {
            // unreachable island (possibly productive, possibly self-referential)
            g.prods.push((fresh, vec![Sym::N(fresh + 1), Sym::T(5)]));
            g.prods.push((fresh + 1, if rng.chance(1, 2) { vec![Sym::T(6)] } else { vec![Sym::N(fresh)] }));
        }
        4 => {
            // non-productive cycle hanging off a reachable non-terminal
            let a = rng.below(n);
            g.prods.push((a, vec![Sym::T(5), Sym::N(fresh)]));
            g.prods.push((fresh, vec![Sym::N(fresh + 1), Sym::T(6)]));
            g.prods.push((fresh + 1, vec![Sym::N(fresh)]));
        }
        5 => {
            // start symbol used recursively (right and, half of the time, left)
            g.prods.push((0, vec![Sym::T(5), Sym::N(0)]));
            if rng.chance(1, 2) {
                g.prods.push((0, vec![Sym::N(0), Sym::T(6)]));
            }
        }
        6 => {
            // start symbol that is not non-terminal 0, maybe without productions
            g.start = rng.below(n + 1);
        }
        _ => {}
    }
    if rng.chance(1, 2) {
        // make every non-terminal productive, so that reachability / left recursion decide
        for a in g.nts() {
            if rng.chance(4, 5) {
                let p = (a, vec![Sym::T(5 + rng.below(2))]);
                let at = rng.below(g.prods.len() + 1);
                g.prods.insert(at, p);
            }
        }
    }
    if rng.chance(1, 4) && !g.prods.is_empty() {
        let i = rng.below(g.prods.len());
        let j = rng.below(g.prods.len());
        g.prods.swap(i, j);
    }
    g
}

pub fn generate(seed: u64, thorough: bool) -> Vec<String> {
    let mut rng = Rng::new(seed ^ 0xC11);
    let mut out = vec![];
    // exhaustive small scopes (start symbol = non-terminal 0; the empty production list included)
    let scopes: &[(usize, usize, usize, usize)] = if thorough {
        &[(1, 1, 4, 2), (2, 1, 3, 2), (2, 2, 3, 2), (3, 1, 3, 2), (3, 2, 3, 2), (2, 2, 4, 2), (3, 1, 4, 2)]
    } else {
        &[(1, 1, 4, 2), (2, 1, 3, 2), (2, 2, 3, 2), (3, 1, 3, 2)]
    };
    for &(n, nt, mp, mr) in scopes {
        for g in enumerate_grams(n, nt, mp, mr) {
            out.push(line(&g, &[]));
        }
    }
    let nrand = if thorough { 300_000 } else { 10_000 };
    for i in 0..nrand {
        let g = biased_gram(&mut rng);
        let ign: Vec<usize> = if i % 5 == 0 {
            let nts = g.nts();
            let mut v: Vec<usize> = nts.iter().filter(|_| rng.chance(1, 3)).cloned().collect();
            v.sort();
            v
        } else {
            vec![]
        };
        out.push(line(&g, &ign));
    }
    out
}

pub fn cli(args: &[String]) {
    standard_cli(args, generate, run_case)
}
