//! Reproduces the finding of Props/C01e.lean (`recovery_drain_can_succeed`) on the REAL
//! `LLKParser::parse_into`:  cd harness && cargo run --offline --example c01e_drain_probe
//!
//! Grammar `S: "a" B; B: "b" | "c";`. With the tables parol generates, `a` is rejected with and
//! without recovery. Then the lookahead automaton of `B` is replaced by one that has a transition
//! (on "b") into a NON-accepting state and no accepting state at all — the shape for which
//! `Recovery::restore_terminal_strings` returns the empty set — and handed to the public
//! `LLKParser::new`. With recovery enabled the parse of the non-sentence `a` then returns `Ok(())`:
//! the error entry recorded by `handle_prediction_error` is drained into the `Err` built in
//! `recover_from_prediction_error` (parser_types.rs l.645-653), that `Err` is dropped by
//! `Err(_) => break 'WHILE` (l.474-475), and `error_entries` is empty at l.497.
//! Expected output (last column): generated: syntax/syntax; tampered: recovery=false syntax,
//! recovery=true ok (for `a b` and `a a`: `unprocessed` — the syntax error is lost as well).
use parol_runtime::{LookaheadDFA, Trans};
use pv::dynparse::{Opts, Tables, build};

fn leak<T>(v: Vec<T>) -> &'static [T] {
    Box::leak(v.into_boxed_slice())
}

fn main() {
    let g = "%start S\n%%\nS: \"a\" B;\nB: \"b\" | \"c\";\n";
    let mut b = match build(g, 5) {
        Ok(b) => b,
        Err(e) => {
            println!("build error {} {}", e.stage, e.msg);
            return;
        }
    };
    let (automata, productions, max_k) = match &b.tables {
        Tables::LL { automata, productions, max_k } => (*automata, *productions, *max_k),
        _ => panic!("not LL"),
    };
    println!("start {} non-terminals {:?}", b.start, b.nt_names);
    for (i, a) in automata.iter().enumerate() {
        println!("dfa {} prod0 {} k {} trans {:?}", i, a.prod0, a.k, a.transitions);
    }
    for (i, p) in productions.iter().enumerate() {
        println!("prod {} lhs {} rhs(rev) {:?}", i, p.lhs, p.production);
    }
    let inputs = ["a b", "a", "a a"];
    for rec in [false, true] {
        for inp in inputs {
            let out = b.run(inp, &Opts { trim: false, recovery: rec, max_depth: None });
            println!("generated tables recovery={} input={:?}: {}", rec, inp, out.result);
        }
    }
    let bi = b.nt_names.iter().position(|n| *n == "B").unwrap();
    let tb = automata[bi].transitions[0].1;
    let mut v: Vec<LookaheadDFA> = automata.to_vec();
    v[bi] = LookaheadDFA { prod0: -1, transitions: leak(vec![Trans(0, tb, 1, -1)]), k: 1 };
    b.tables = Tables::LL { automata: leak(v), productions, max_k };
    for rec in [false, true] {
        for inp in inputs {
            let out = b.run(inp, &Opts { trim: false, recovery: rec, max_depth: None });
            println!("tampered tables  recovery={} input={:?}: {}", rec, inp, out.result);
        }
    }
}
