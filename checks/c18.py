"""C18 — all generated parts agree on terminal identity.

(a) Tie D on the index function: the real `Cfg::get_ordered_terminals` /
    `get_terminal_index_function` against the Lean model `orderedTerminals` / `termIdx`, whose
    for-all theorems are in Props/C18 (`termIdx_inj_on_behaviour`, `termIdx_total_on_occurrences`,
    `termIdx_range`, `scanner_number_eq_termIdx`); every reply of the real functions is also judged
    by the oracle `termidx-check`.
(b) Translation validation per grammar (`tid` cases): with the verified `termIdx` as the reference
    the oracle `tid-check3` decides, on the descriptions decoded from the generated source text, the
    export model and the analysis objects, that every terminal OCCURRENCE of the transformed grammar
    carries its number in the production table, that the scanner modes / terminal names enumerate the
    ordered terminals, that `%on` / `%skip` lists carry the number of their primary non-terminal's
    terminal, that scanning a plain terminal's own text with the scanner built from the generated
    `scanner!` text yields its number, and that sentences written with these numbers are accepted by
    the run-time model on the described tables (automata / LR table)."""
import re
from . import common
from .c21 import dec, describe, breakdown, fresh_case

FILES = [
    "crates/parol/src/grammar/cfg.rs",
    "crates/parol/src/grammar/symbol.rs",
    "crates/parol/src/generators/parser_model.rs",
    "crates/parol/src/generators/parser_generator.rs",
    "crates/parol/src/generators/scanner_config.rs",
    "crates/parol/src/generators/lexer_generator.rs",
    "crates/parol/src/parser/to_grammar_config.rs",
    "crates/parol/src/analysis/lalr1_parse_table.rs",
]


def oracle_req(case, reply):
    w = case.split(" ", 1)
    if w[0] == "termidx" and reply not in ("bad-op", "panic"):
        return "termidx-check " + w[1] + " " + reply
    if w[0] == "tid":
        return "tid-check3 " + w[1]
    return None


STALE = re.compile(r"fail [SMA]:(skip\[\d+\]|mode\[\d+\]\.transitions)$")


def attribute(case, reply, why):
    """F29: `%skip` / `%on` numbers are resolved on the untransformed grammar and not renumbered after
    left factoring. Counterfactual attribution: the failure is in a skip / transition list AND every
    description passes the whole oracle once the expectation is the stale number (`tid-stale`)."""
    if case.startswith("tid ") and STALE.match(why):
        if common.model_lines(["tid-stale " + case.split(" ", 1)[1]])[0] == "ok":
            return "F29"
    return None


def nontrivial(case):
    w = case.split()
    if w[0] == "termidx":
        return w[1].count(";") >= 1
    if w[0] == "tid":
        # at least two terminal occurrences in the transformed grammar
        return w[3].count("t/") >= 2
    return True


def describe_tid(case):
    w = case.split()
    d = describe(" ".join(["d3", w[1], w[2]] + w[10:]))
    d["terminal_occurrences"] = w[3].count("t/")
    d["scan_facts"] = 0 if w[8] == "-" else w[8].count(";") + 1
    d["sentences"] = 0 if w[9] == "~" else w[9].count(";") + 1
    return d


def extra(ctx, state):
    # known-finding lines quote the grammar, not the whole case line
    for i, k in enumerate(ctx.known):
        m = re.search(r"e\.g\. `tid (\S+) .*`\)$", k, flags=re.S)
        if m:
            ctx.known[i] = k[:m.start()] + "e.g. grammar `" + " ".join(dec(m.group(1)).split()) + "`)"
    cases = common.read_lines(ctx.path("cases.txt"))
    tid = [c for c in cases if c.startswith("tid ")]
    ti = [c for c in cases if c.startswith("termidx ")]
    occ = sum(c.split()[3].count("t/") for c in tid)
    facts = sum(0 if c.split()[8] == "-" else c.split()[8].count(";") + 1 for c in tid)
    sents = sum(0 if c.split()[9] == "~" else c.split()[9].count(";") + 1 for c in tid)
    state["coverage_extra"] = {
        "programs": len(tid),
        "disagreements_checked": 3 * len(tid),
        "samples": [describe_tid(c) for c in (tid[:3] + tid[-2:])] + ti[:3],
        "index_function_cases": len(ti),
        "terminal_occurrences_checked": occ,
        "scan_facts_checked": facts,
        "sentences_run_on_described_tables": 3 * sents,
        "grammars": breakdown([" ".join(["d3", c.split()[1], c.split()[2]] + c.split()[10:]) for c in tid]),
    }


SPEC = {
    "prop": "c18",
    "mod": "ParolModel.Props.C18",
    "files": FILES,
    "oracle_req": oracle_req,
    "nontrivial": nontrivial,
    "attribute": attribute,
    "extra": extra,
    "level": "translation_validation",
    "rule": "index function (tie D): random occurrence lists (0-9 occurrences over 1-3 texts from {a, b, a.b, a+, empty, if, 'x y', \\+} in the "
            "three kinds, 1/3 with lookahead of random sign / kind / text, 0-2 scanner states), queried with every occurrence and 1-4 foreign "
            "terminals; per grammar (programs): the grammars of C21 (hand-picked, repository *.par, random PAR texts biased to equal text in "
            "\"..\", '..', /../, lookahead, scanner states, %on/%skip, LL(k) and LALR(1)), each judged on 3 descriptions (source text, export "
            "model, analysis objects) = disagreements_checked; non-trivial = at least two occurrences; distinct = distinct request lines",
    "assumptions": [
        "the Lean functions orderedTerminals / termIdx mirror Cfg::get_ordered_terminals / get_terminal_index_function; agreement is observed on the explored occurrence lists (exact comparison)",
        "TerminalKind::expand is not modelled: expansions are produced by the real function in the harness and compared as texts",
        "that each generated PART uses the index function is decided per explored grammar (translation validation), not proved for all grammars: the decoders of harness/src/c21.rs and the occurrence / directive / sentence extraction of harness/src/c18.rs are trusted",
        "scan facts only for plain terminals (raw text without backslash; regex text of [A-Za-z0-9_]) and plain lookahead; other terminals are compared structurally (expanded regex text, lookahead, number, order in the mode)",
        "sentences (shortest derivation per production, at most 60 per grammar, 80 tokens) are run on the Lean models llRun / lrRun of the run-time parsers (tied to the real parsers by C01/C03's differential checks); grammars whose LALR(1) table needed conflict resolution get no sentences",
        "the automata / LR tables are linked to occurrences only through these sentences and the range checks, not position by position",
    ],
}

CLAIM = {
    "category": "translation_validation",
    "text": "Lean theorems for ALL lists of terminal occurrences about the model of Cfg::get_ordered_terminals / get_terminal_index_function "
            "(tied to the real functions by an exact differential run): termIdx_total_on_occurrences (the .unwrap() cannot fail for a terminal "
            "that occurs), termIdx_inj_on_behaviour (same number iff same text, kinds that behave alike - \"..\" and /../ alike, '..' distinct - "
            "and same lookahead), termIdx_raw_vs_regex, termIdx_range, scanner_number_eq_termIdx (the number the scanner and the terminal-name "
            "table give to the i-th ordered terminal is the number of every occurrence it represents), orderedTerminals_distinct; "
            "checkProds_sound / table_numbers_inj (in a description accepted by the production-table part of the oracle two occurrences carry "
            "the same number iff they behave alike). That the "
            "generated PARTS use this numbering is validated per explored grammar by the Lean oracle tid-check3 on three independently decoded "
            "descriptions (generated source text, export model, analysis objects): production table position by position, terminal-name count, "
            "scanner modes (numbers, expanded texts, lookaheads, order), %on transitions and %skip lists against the PAR directives, scanning "
            "each plain terminal's own text with the scanner built from the generated scanner! text, and acceptance of shortest sentences "
            "(numbered by termIdx) by llRun / lrRun on the described automata / LR table.",
    "design_ref": "DESIGN.md §6 C18",
    "note": "Trusted: Lean kernel (propext, Quot.sound, Classical.choice), faithfulness of the termIdx model as observed by the differential run, "
            "the decoders and extraction code of the harness, orchestrator. Grammars are sampled. Validated against the reverted fix e8d0f00 "
            "(finding F11): `S: 'a.b' \"a.b\";` is reported as S:production[0].rhs[1]:table=t5,index-function=6.",
    "technique": "Lean 4 proof over hand-written model of the index function + differential correspondence check + verified per-grammar oracle on decoded descriptions",
}


def run(ctx):
    return common.standard_flow(ctx, SPEC)


def replay(ctx, payload):
    case = payload.get("case")
    common.build_harness()
    common.lake_build(["parol_model"])
    if case.split()[0] == "tid":
        print(f"grammar:\n{dec(case.split()[1])}")
        case = fresh_case("c18", case)
        if case == "rejected":
            print("the grammar is no longer accepted")
            return 0
    a = common.impl_lines("c18", [case])[0]
    b = common.model_lines([case])[0]
    q = oracle_req(case, a)
    o = common.model_lines([q])[0] if q else "ok"
    print(f"impl: {a}\nmodel: {b}\noracle: {o}")
    return 0 if (a == b and o == "ok") else 1
