"""C03 — LALR(1) parsers accept exactly the language and build a derivation.
Tie D: real LRParser (tables from parol's real pipeline + lalry, built in-process) vs Lean `lrRun` on
the same table and the real token sequence — exact comparison of result, action trace, tree events,
comments. Oracles on the real output: verified `lrTableValid` on the real table + verified membership
recogniser on the ORIGINAL grammar vs the real verdict; executable tree/reduction statement `treeCheck`."""
from . import common

FILES = ["crates/parol_runtime/src/lr_parser/parser_types.rs", "crates/parol_runtime/src/lr_parser/parse_tree.rs",
         "crates/parol_runtime/src/parser_common/parse_tree_stack.rs", "crates/parol/src/analysis/lalr1_parse_table.rs",
         "crates/parol/src/transformation/lr_augmentation.rs"]


_seen_tables = set()


def oracle_req(case, reply):
    w = case.split()
    r = reply.split()
    if w[0] != "lr" or len(w) < 14 or not r:
        return None
    reqs = []
    conflicts = int(w[14]) if len(w) > 14 else 0
    key = " ".join(w[1:4]) + " " + w[13]
    if conflicts == 0 and key not in _seen_tables:
        # C03b: hypothesis of lr_complete / lr_accepts_iff, evaluated once per real table: every table
        # built without resolved conflicts must pass the verified completeness validator
        _seen_tables.add(key)
        reqs.append("lr-cert-ok " + key)
    if w[5] == "-":
        if conflicts == 0:
            # no depth limit, no resolved conflict: the verdict must equal membership in the original language
            reqs.append("lr-verdict " + " ".join(w[1:4]) + " " + w[13] + " " + w[7] + " " + w[8] + " " + w[9] + " " + r[0])
        elif r[0] == "ok":
            # resolved conflicts (C04): only soundness is required — an accepted input must be a sentence
            reqs.append("lr-verdict " + " ".join(w[1:4]) + " " + w[13] + " " + w[7] + " " + w[8] + " " + w[9] + " ok")
        else:
            # still: the table itself must be valid
            reqs.append("lr-table-valid " + " ".join(w[1:4]) + " " + w[13])
    if len(r) == 4 and r[0] == "ok" and w[4][0] == "0":
        reqs.append("lr-tree-check " + w[1] + " " + w[13] + " " + w[6] + " " + r[1] + " " + r[2])
    return reqs or None


def nontrivial(case):
    w = case.split()
    return len(w) >= 14 and w[6].count(",") >= 1


SPEC = {
    "prop": "lrrun",
    "gen_extra": ["plain"],
    "mod": "ParolModel.Props.C03",
    "more_mods": ["ParolModel.Props.C03b", "ParolModel.Props.C03c"],
    "files": FILES,
    "oracle_req": oracle_req,
    "nontrivial": nontrivial,
    "level": "proof",
    "rule": "random BNF grammars typed LALR(1) (<=4 non-terminals, <=3 terminals, rhs <=3; cyclic grammars excluded, see finding F24 under C19) "
            "pushed through parol's real pipeline + lalry; per accepted grammar: all token strings up to length 4 (6 thorough) over its terminals "
            "plus one foreign word (capped), random sentences and 1-2-fold mutants; options cycle over trim/depth; grammars with resolved "
            "conflicts are included (soundness must still hold, C04); non-trivial = at least two tokens; distinct = distinct request lines",
    "assumptions": [
        "the Lean function `lrRun` mirrors LRParser::parse_into (shift / reduce with pop_n over interleaved skip tokens / accept reducing the first start production / build_tree); agreement is observed on the explored runs",
        "completeness (every sentence accepted) is a theorem for every table that passes the verified validator lrCompleteCertB (lr_complete, Props/C03b.lean; translation validation, no assumption about lalry); that parol's conflict-free tables pass the validator is evaluated on every real table of the check (oracle lr-cert-ok), not proved for all grammars",
        "that table construction completes without crashing is observed (catch_unwind) on the explored conflict-free grammars; lalry panics on some conflicting grammars (finding F13, C26)",
        "tree/action half (Props/C03c.lean): lr_tree_actions, lr_reductions_rev_rightmost, lr_action_arity and lr_treeCheck_ok are theorems about the MODEL lrRun for every table that passes lrTableValid and every token sequence without a significant token of type 0 (lr_treeCheck_ok additionally: untrimmed run, token ids = positions, as the harness numbers them); for the real parser the same executable statement treeCheck is still evaluated on every successful real run (oracle lr-tree-check), and real output = model output is observed by the differential run",
    ],
}

CLAIM = {
    "category": "proof",
    "text": "Theorem lr_sound: for EVERY table that passes the verified checker lrTableValid (accessing symbols consistent; state 0 without incoming transitions; every Reduce(A,p) only in states all of whose backward paths spell rhs(p), lhs(p)=A; Accept only on EOI in states whose backward paths spell the first start production and end in state 0; no shift on EOI) and EVERY token sequence, success of the model of LRParser::parse_into implies membership in the language of the transformed grammar — no assumption about lalry. The checker is evaluated on every real table. Theorem lr_complete (Props/C03b, translation validation in the style of Jourdan/Pottier/Leroy): for EVERY table that passes the verified validator lrCompleteCertB (LR(1) item sets computed as least fixpoint from state 0 along the table's own transitions, then verified: start items in state 0, closure w.r.t. closed nullable/FIRST tables, every item's next symbol has the matching shift/goto with the advanced item in the target, every completed item's lookaheads carry Reduce by that rule or Accept; start symbol isolated) every sentence is accepted, whatever the skip tokens and options without depth limit; lr_accepts_iff / lr_accepts_iff_bound (with the termination checker: the run with the explicit fuel lrSummFuel decides membership); exLRbad_incomplete shows a valid table that fails the validator and rejects a sentence. The validator is evaluated on every conflict-free real table (all pass). The model is tied to the code by exact differential runs (result, action trace with arguments, tree events, comments). Theorem lr_tree_actions (Props/C03c): for EVERY table that passes lrTableValid and EVERY token sequence, a successful run of the model has a derivation tree d with the skipped tokens attached (DTree: token leaf | production application node p lhs kids; d.wf: every inner node is production p of the grammar with lhs = its left-hand side and its counting children = its right-hand side in order) that is rooted at the start symbol, has the significant token types of the input as frontier, whose post-order list of production applications with their counting children as arguments IS the recorded action trace (every application once, children before parents), whose leaves preceded by the leading skipped tokens are all delivered tokens in order, and whose pre-order event rendering below the artificial root IS the recorded tree. dtree_is_derivation: a well-formed tree derives its frontier (Yield); dtree_postorder_rev_rightmost / lr_reductions_rev_rightmost: the reported reductions read backwards are a rightmost derivation (RmDeriv: each step rewrites a non-terminal followed by terminals only) of the input from the start symbol; lr_action_arity: every recorded action of production p has exactly |rhs p| arguments and they are rhs p in order (finding F20 violated exactly this in the real code); lr_treeCheck_ok: the executable statement treeCheck, instantiated as in the handler lr-tree-check (lrTreeCheck_eq_handler), accepts the model's own output on every successful untrimmed run. Equality with the ORIGINAL grammar's language (through parol's transformations) is decided on the real output per explored grammar by the verified membership recogniser; for the REAL parser the tree/reduction clauses are decided per run by the same executable statement treeCheck (inner node = production with its rhs as significant children in order; reductions once each in post-order = reverse rightmost derivation; root = start symbol; leaves = all tokens) and transfer from the model through the exact differential comparison.",
    "design_ref": "DESIGN.md §6 C03",
    "note": "Trusted: Lean kernel; faithfulness of the hand-written model as observed by the differential run; harness and orchestrator. Not proved: that lalry's construction always yields tables passing the validators (lalry is external; validated per table). Cyclic grammars are excluded from this generator because the real parser does not terminate on them (F24, reported under C19).",
    "technique": "Lean 4 proof (soundness, completeness and derivation-tree/action clauses for all validated tables and all inputs; translation validation of the real LALR(1) tables) over hand-written model + differential correspondence check + verified table checker and membership oracle on real output",
}


def run(ctx):
    return common.standard_flow(ctx, SPEC)


def replay(ctx, payload):
    case = payload.get("case")
    common.build_harness()
    common.lake_build(["parol_model"])
    a = common.impl_lines("lrrun", [case])[0]
    b = common.model_lines([case])[0]
    reqs = oracle_req(case, a) or []
    os_ = common.model_lines(reqs) if reqs else []
    print(f"case: {case}\nimpl: {a}\nmodel: {b}\noracle: {os_}")
    return 0 if (a == b and all(o == "ok" for o in os_)) else 1
