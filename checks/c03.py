"""C03 — LALR(1) parsers accept exactly the language and build a derivation.
Tie D: real LRParser (tables from parol's real pipeline + lalry, built in-process) vs Lean `lrRun` on
the same table and the real token sequence — exact comparison of result, action trace, tree events,
comments. Oracles on the real output: verified `lrTableValid` on the real table + verified membership
recogniser on the ORIGINAL grammar vs the real verdict; executable tree/reduction statement `treeCheck`."""
from . import common

FILES = ["crates/parol_runtime/src/lr_parser/parser_types.rs", "crates/parol_runtime/src/lr_parser/parse_tree.rs",
         "crates/parol_runtime/src/parser_common/parse_tree_stack.rs", "crates/parol/src/analysis/lalr1_parse_table.rs",
         "crates/parol/src/transformation/lr_augmentation.rs"]


_seen_tables = set()


def oracle_req(case, reply):
    w = case.split()
    r = reply.split()
    if w[0] != "lr" or len(w) < 14 or not r:
        return None
    reqs = []
    conflicts = int(w[14]) if len(w) > 14 else 0
    key = " ".join(w[1:4]) + " " + w[13]
    if conflicts == 0 and key not in _seen_tables:
        # C03b: hypothesis of lr_complete / lr_accepts_iff, evaluated once per real table: every table
        # built without resolved conflicts must pass the verified completeness validator
        _seen_tables.add(key)
        reqs.append("lr-cert-ok " + key)
    if w[5] == "-":
        if conflicts == 0:
            # no depth limit, no resolved conflict: the verdict must equal membership in the original language
            reqs.append("lr-verdict " + " ".join(w[1:4]) + " " + w[13] + " " + w[7] + " " + w[8] + " " + w[9] + " " + r[0])
        elif r[0] == "ok":
            # resolved conflicts (C04): only soundness is required — an accepted input must be a sentence
            reqs.append("lr-verdict " + " ".join(w[1:4]) + " " + w[13] + " " + w[7] + " " + w[8] + " " + w[9] + " ok")
        else:
            # still: the table itself must be valid
            reqs.append("lr-table-valid " + " ".join(w[1:4]) + " " + w[13])
    if len(r) == 4 and r[0] == "ok" and w[4][0] == "0":
        reqs.append("lr-tree-check " + w[1] + " " + w[13] + " " + w[6] + " " + r[1] + " " + r[2])
    return reqs or None


def nontrivial(case):
    w = case.split()
    return len(w) >= 14 and w[6].count(",") >= 1


def c03d_tie(ctx, state):
    """C03d: tie D for parol's whole LALR(1) path up to the table construction (`parolLRGrammar`, Props/C03d.lean:
    EBNF grammar as written -> canonicalisation (LALR flavour) -> checks -> augment_grammar -> numbering) + the oracle
    that evaluates the hypotheses of parol_lr_end_to_end (lrTableValid, lrCompleteCertB against the MODEL's grammar) and
    its statement (all short words) on the REAL lalry tables."""
    cases_p, impl_p, model_p = ctx.path("c03d_cases.txt"), ctx.path("c03d_impl.txt"), ctx.path("c03d_model.txt")
    okg, errg = common.gen_cases("c03d", ctx.seed, ctx.tier, cases_p)
    cases = common.read_lines(cases_p) if okg else []
    oki, erri = common.run_impl("c03d", cases_p, impl_p)
    impl = common.read_lines(impl_p)
    common.run_model(cases_p, model_p)
    model = common.read_lines(model_p)
    if not okg or not oki or len(impl) != len(cases) or not cases:
        common.violation(ctx, "C03_c03d_impl_run.json", {
            "broken": "correspondence D:c03d (implementation driver crashed or produced too few replies)",
            "stderr": (errg if not okg else erri), "replies": len(impl), "cases": len(cases)}, no_input=True)
        return
    diffs = common.diff_streams(cases, impl, model)
    # the real LALR(1) tables (calculate_lalr1_parse_table + export model) of the same grammars
    treq_p, tabs_p = ctx.path("c03d_table_req.txt"), ctx.path("c03d_tables.txt")
    with open(treq_p, "w") as f:
        f.write("\n".join("parol-lr-table " + " ".join(c.split()[1:3]) for c in cases) + "\n")
    okt, errt = common.run_impl("c03d", treq_p, tabs_p)
    tabs = common.read_lines(tabs_p)
    if not okt or len(tabs) != len(cases):
        common.violation(ctx, "C03_c03d_table_run.json", {
            "broken": "correspondence D:c03d (implementation driver crashed while building the LALR(1) tables)",
            "stderr": errt, "replies": len(tabs), "cases": len(cases)}, no_input=True)
        return
    # oracle: hypotheses + statement of parol_lr_end_to_end on the REAL tables, all words up to length n
    n = 4
    reqs = ["parol-lr-check %d " % n + " ".join(c.split()[1:3]) + " " + t for c, t in zip(cases, tabs)]
    # + the termination checker of the corollary parol_lr_decides (counted, not demanded: F24 tables fail it, see C19)
    is_table = [len(t.split()) == 4 and not t.startswith("err") for t in tabs]
    treqs = ["lr-term-ok " + " ".join(t.split()[1:4]) + " " + a.split()[1]
             for t, a, ok in zip(tabs, impl, is_table) if ok and len(a.split()) == 2]
    # + the named view of the model's result (only to count how often augment_grammar added a start symbol)
    nreqs = ["parol-lr-named " + " ".join(c.split()[1:3]) for c in cases]
    with open(ctx.path("c03d_oracle_req.txt"), "w") as f:
        f.write("\n".join(reqs + treqs + nreqs) + "\n")
    common.run_model(ctx.path("c03d_oracle_req.txt"), ctx.path("c03d_oracle_rep.txt"))
    allreps = common.read_lines(ctx.path("c03d_oracle_rep.txt"))
    reps, treps, nreps = allreps[:len(reqs)], allreps[len(reqs):len(reqs) + len(treqs)], allreps[len(reqs) + len(treqs):]
    fails = [(c, t, r) for c, t, r in zip(cases, tabs, reps + ["<missing>"] * (len(cases) - len(reps))) if r != "ok"]
    if fails:
        fails.sort(key=lambda t: len(t[0]))
        common.violation(ctx, "C03_c03d_oracle.json", {
            "kind": "property fails on the implementation (oracle): the LALR(1) table parol really generates for an EBNF grammar "
                    "does not pass the validators against the model's grammar, or does not accept exactly the sentences of the "
                    "grammar as written",
            "case": fails[0][0], "impl_reply": fails[0][1], "oracle": fails[0][2], "count": len(fails)})
    elif diffs:
        diffs.sort(key=lambda t: len(t[1]))
        i, c, a, b = diffs[0]
        common.violation(ctx, "C03_c03d_tie.json", {
            "kind": "model pipeline parolLRGrammar and the real LALR(1) pipeline disagree; the property oracle found no failing input",
            "broken": "correspondence D:c03d (theorems of ParolModel.Props.C03d no longer transfer to the code)",
            "case": c, "impl_reply": a, "model_reply": b, "disagreements": len(diffs)}, no_input=True)
    state.setdefault("coverage_extra", {})["c03d_front_to_back_tie"] = {
        "cases": len(cases), "disagreements": len(diffs),
        "grammars_accepted": sum(1 for a in impl if not a.startswith("err")),
        "augmented_by_new_start_symbol": sum(1 for c, r in zip(cases, nreps) if r.startswith("ok ") and r.split()[1] != c.split()[1]),
        "rejected_by_checks": sum(1 for a in impl if a.startswith(("err np", "err ur"))),
        "real_tables": sum(is_table),
        "real_tables_with_resolved_conflicts": sum(1 for t, ok in zip(tabs, is_table) if ok and t.split()[0] != "0"),
        "not_lalr1": sum(1 for t in tabs if t.startswith("err lalr")),
        "tables_passing_termination_checker": sum(1 for r in treps if r.startswith("ok")),
        "oracle_checked": len(reqs), "oracle_failures": len(fails)}


SPEC = {
    "extra": c03d_tie,
    "prop": "lrrun",
    "gen_extra": ["plain"],
    "mod": "ParolModel.Props.C03",
    "more_mods": ["ParolModel.Props.C03b", "ParolModel.Props.C03c", "ParolModel.Props.C03d"],
    "files": FILES,
    "oracle_req": oracle_req,
    "nontrivial": nontrivial,
    "level": "proof",
    "rule": "random BNF grammars typed LALR(1) (<=4 non-terminals, <=3 terminals, rhs <=3; cyclic grammars excluded, see finding F24 under C19) "
            "pushed through parol's real pipeline + lalry; per accepted grammar: all token strings up to length 4 (6 thorough) over its terminals "
            "plus one foreign word (capped), random sentences and 1-2-fold mutants; options cycle over trim/depth; grammars with resolved "
            "conflicts are included (soundness must still hold, C04); non-trivial = at least two tokens; distinct = distinct request lines",
    "assumptions": [
        "the Lean function `lrRun` mirrors LRParser::parse_into (shift / reduce with pop_n over interleaved skip tokens / accept reducing the first start production / build_tree); agreement is observed on the explored runs",
        "completeness (every sentence accepted) is a theorem for every table that passes the verified validator lrCompleteCertB (lr_complete, Props/C03b.lean; translation validation, no assumption about lalry); that parol's conflict-free tables pass the validator is evaluated on every real table of the check (oracle lr-cert-ok), not proved for all grammars",
        "that table construction completes without crashing is observed (catch_unwind) on the explored conflict-free grammars; lalry panics on some conflicting grammars (finding F13, C26)",
        "tree/action half (Props/C03c.lean): lr_tree_actions, lr_reductions_rev_rightmost, lr_action_arity and lr_treeCheck_ok are theorems about the MODEL lrRun for every table that passes lrTableValid and every token sequence without a significant token of type 0 (lr_treeCheck_ok additionally: untrimmed run, token ids = positions, as the harness numbers them); for the real parser the same executable statement treeCheck is still evaluated on every successful real run (oracle lr-tree-check), and real output = model output is observed by the differential run",
        "front to back (Props/C03d): parolLRGrammar composes the models of the front-end checks, canonicalisation (LALR(1) flavour, C09), the two grammar checks of the LALR(1) branch (C11), augment_grammar on names (C12) and parol's numbering (C18/C01d); the composition is tied to the real pipeline (obtain_grammar_config_from_string, check_and_transform_grammar(LALR1), the index functions GrammarLalr::from uses) byte for byte on random EBNF grammars; the table generator lalry is NOT modelled: the table is an input of parol_lr_end_to_end constrained by the validators lrTableValid and lrCompleteCertB, which the oracle parol-lr-check evaluates on every real table against the MODEL's grammar; in the EBNF model a terminal is one number (rendered as the string literal \"t<n>\"), i.e. terminals of different kinds with the same text (finding F11) are outside this tie",
    ],
}

CLAIM = {
    "category": "proof",
    "text": "FRONT-TO-BACK theorem (Props/C03d): parol_lr_end_to_end — for the executable composition parolLRGrammar of the models of the whole LALR(1) path up to the table construction (front-end checks, EBNF canonicalisation with left-recursive repetition helpers C09, the non-productive/unreachable checks C11 — no left-recursion check on this branch —, augment_grammar on names C12, numbering of non-terminals and terminals as GrammarLalr::from does it) and every EBNF grammar E and start symbol: if parolLRGrammar yields the grammar G then for EVERY table T with T.start = G.start that passes lrTableValid T G.prods and lrCompleteCertB T G.prods, every token sequence without a significant token of type 0 and every option record without depth limit, the parser model accepts iff the significant token types are the image, under the (injective: parol_lr_numbering_injective) terminal numbering, of a sentence of E AS WRITTEN (groups, optionals, repetitions) — the table generator lalry is not modelled, the table is a validated input; parol_lr_sound (only lrTableValid, any options, tables with resolved conflicts included), parol_lr_complete (only the certificate), parol_lr_decides (with lrNoReduceLoopB the run with the explicit fuel lrSummFuel decides membership), parol_lr_tree (derivation tree of G rooted at its start symbol = recorded actions in post-order = reverse rightmost derivation, frontier a sentence of E), parol_lr_grammar_lang (Lang G = image of LangE E), parol_lr_start_isolated (the start symbol of G has one production and is on no right-hand side), augmentN_matches_c12. parolLRGrammar is tied to the real pipeline byte for byte on random EBNF grammars; the oracle parol-lr-check evaluates the hypotheses (both validators against the MODEL grammar) and the statement (all words up to length 4, verified membership recogniser) on every real lalry table. Theorem lr_sound: for EVERY table that passes the verified checker lrTableValid (accessing symbols consistent; state 0 without incoming transitions; every Reduce(A,p) only in states all of whose backward paths spell rhs(p), lhs(p)=A; Accept only on EOI in states whose backward paths spell the first start production and end in state 0; no shift on EOI) and EVERY token sequence, success of the model of LRParser::parse_into implies membership in the language of the transformed grammar — no assumption about lalry. The checker is evaluated on every real table. Theorem lr_complete (Props/C03b, translation validation in the style of Jourdan/Pottier/Leroy): for EVERY table that passes the verified validator lrCompleteCertB (LR(1) item sets computed as least fixpoint from state 0 along the table's own transitions, then verified: start items in state 0, closure w.r.t. closed nullable/FIRST tables, every item's next symbol has the matching shift/goto with the advanced item in the target, every completed item's lookaheads carry Reduce by that rule or Accept; start symbol isolated) every sentence is accepted, whatever the skip tokens and options without depth limit; lr_accepts_iff / lr_accepts_iff_bound (with the termination checker: the run with the explicit fuel lrSummFuel decides membership); exLRbad_incomplete shows a valid table that fails the validator and rejects a sentence. The validator is evaluated on every conflict-free real table (all pass). The model is tied to the code by exact differential runs (result, action trace with arguments, tree events, comments). Theorem lr_tree_actions (Props/C03c): for EVERY table that passes lrTableValid and EVERY token sequence, a successful run of the model has a derivation tree d with the skipped tokens attached (DTree: token leaf | production application node p lhs kids; d.wf: every inner node is production p of the grammar with lhs = its left-hand side and its counting children = its right-hand side in order) that is rooted at the start symbol, has the significant token types of the input as frontier, whose post-order list of production applications with their counting children as arguments IS the recorded action trace (every application once, children before parents), whose leaves preceded by the leading skipped tokens are all delivered tokens in order, and whose pre-order event rendering below the artificial root IS the recorded tree. dtree_is_derivation: a well-formed tree derives its frontier (Yield); dtree_postorder_rev_rightmost / lr_reductions_rev_rightmost: the reported reductions read backwards are a rightmost derivation (RmDeriv: each step rewrites a non-terminal followed by terminals only) of the input from the start symbol; lr_action_arity: every recorded action of production p has exactly |rhs p| arguments and they are rhs p in order (finding F20 violated exactly this in the real code); lr_treeCheck_ok: the executable statement treeCheck, instantiated as in the handler lr-tree-check (lrTreeCheck_eq_handler), accepts the model's own output on every successful untrimmed run. Equality with the ORIGINAL grammar's language (through parol's transformations) is decided on the real output per explored grammar by the verified membership recogniser; for the REAL parser the tree/reduction clauses are decided per run by the same executable statement treeCheck (inner node = production with its rhs as significant children in order; reductions once each in post-order = reverse rightmost derivation; root = start symbol; leaves = all tokens) and transfer from the model through the exact differential comparison.",
    "design_ref": "DESIGN.md §6 C03",
    "note": "Trusted: Lean kernel; faithfulness of the hand-written model as observed by the differential run; harness and orchestrator. Not proved: that lalry's construction always yields tables passing the validators (lalry is external; validated per table). Cyclic grammars are excluded from this generator because the real parser does not terminate on them (F24, reported under C19).",
    "technique": "Lean 4 proof (soundness, completeness and derivation-tree/action clauses for all validated tables and all inputs; translation validation of the real LALR(1) tables) over hand-written model + differential correspondence check + verified table checker and membership oracle on real output",
}


def run(ctx):
    return common.standard_flow(ctx, SPEC)


def replay(ctx, payload):
    case = payload.get("case")
    common.build_harness()
    common.lake_build(["parol_model"])
    a = common.impl_lines("lrrun", [case])[0]
    b = common.model_lines([case])[0]
    reqs = oracle_req(case, a) or []
    os_ = common.model_lines(reqs) if reqs else []
    print(f"case: {case}\nimpl: {a}\nmodel: {b}\noracle: {os_}")
    return 0 if (a == b and all(o == "ok" for o in os_)) else 1
