"""C24 — code generation is deterministic.
(a) Lean: `leftFactor_group_order_indep` (the result of left factoring does not depend on the drain
order of `group_by`'s HashMap), `leftFactor_tie_counterexample` (the PRE-repair `find_prefix`
depended on the HashMap order). Tie D on `lf-orders`: real `left_factor` × 40 in-process runs vs
the model under several drain orders.
(b) Implementation only: the whole generation pipeline (`parol::build::Builder`, as the CLI runs
it) × 40 in one process plus 4 fresh processes per grammar; every artefact (expanded grammar,
parser incl. lexer, user trait, node-kind enums) is compared byte for byte."""
import os, subprocess, filecmp, shutil
from . import common

FILES = ["crates/parol/src/transformation/left_factoring.rs", "crates/parol/src/utils/mod.rs"]
FRESH_PROCESSES = 4


def nontrivial(case):
    # some non-terminal with two different first symbols each shared by ≥ 2 alternatives (a tie candidate)
    cnt = {}
    for r in case.split()[1].split(";"):
        l, _, rhs = r.partition(":")
        first = rhs.split("@")[0].split(",")[0]
        if first:
            cnt[(l, first)] = cnt.get((l, first), 0) + 1
    per = {}
    for (l, f), c in cnt.items():
        if c >= 2:
            per[l] = per.get(l, 0) + 1
    return any(v >= 2 for v in per.values()) or len(per) >= 2


def oracle_req(case, reply):
    # the property statement itself on the implementation's reply: 40 runs gave one result
    return None


def run_pipe(cases_p, replies_p, outdir, reps):
    env = dict(os.environ)
    env.update({"PAROL_REPO": common.REPO, "C24_OUT": outdir, "C24_REPS": str(reps), "RUST_BACKTRACE": "0"})
    fi = open(cases_p)
    return subprocess.Popen([common.PV, "c24", "runpipe", replies_p], stdin=fi, stdout=subprocess.DEVNULL,
                            stderr=subprocess.DEVNULL, env=env)


def extra(ctx, state):
    # implementation replies of the lf-orders cases must all be `same …`
    impl = common.read_lines(ctx.path("impl.txt"))
    cases = common.read_lines(ctx.path("cases.txt"))
    bad = [(c, r) for c, r in zip(cases, impl) if not r.startswith("same ")]
    if bad:
        common.violation(ctx, "C24_lf_orders.json", {
            "kind": "left_factor gave different results in repeated in-process runs", "case": bad[0][0],
            "impl_reply": bad[0][1], "count": len(bad)})
    # pipeline cases
    pipe_p = ctx.path("pipe_cases.txt")
    with open(pipe_p, "w") as fo:
        env = dict(os.environ); env["PAROL_REPO"] = common.REPO
        subprocess.run([common.PV, "c24", "genpipe", str(ctx.seed), ctx.tier], stdout=fo, env=env)
    pcases = common.read_lines(pipe_p)
    procs = []
    for k in range(FRESH_PROCESSES + 1):
        outdir = ctx.path(f"pipe_out_{k}")
        shutil.rmtree(outdir, ignore_errors=True)
        os.makedirs(outdir)
        procs.append((run_pipe(pipe_p, ctx.path(f"pipe_replies_{k}.txt"), outdir, 40 if k == 0 else 2), outdir))
    for p, _ in procs:
        p.wait(timeout=3000)
    replies = [common.read_lines(ctx.path(f"pipe_replies_{k}.txt")) for k in range(FRESH_PROCESSES + 1)]
    problems = []
    for k, r in enumerate(replies):
        if len(r) != len(pcases):
            problems.append({"case": pcases[len(r)] if len(r) < len(pcases) else None, "why": f"process {k} answered {len(r)} of {len(pcases)} cases"})
    n = min(len(r) for r in replies) if replies else 0
    ok_cases = 0
    errors = 0
    for i in range(n):
        col = [r[i] for r in replies]
        if any(not x.startswith("same") for x in col):
            problems.append({"case": pcases[i], "why": "in-process repetitions differ: " + next(x for x in col if not x.startswith("same"))})
        elif len(set(col)) != 1:
            problems.append({"case": pcases[i], "why": "fresh processes differ: " + " | ".join(sorted(set(col)))})
        else:
            ok_cases += 1
            errors += col[0].startswith("same-error")
    # byte comparison of the artefact files across processes
    files0 = sorted(os.listdir(procs[0][1]))
    for k in range(1, len(procs)):
        if sorted(os.listdir(procs[k][1])) != files0:
            problems.append({"case": None, "why": f"process {k} wrote a different set of artefact files"})
            continue
        match, mismatch, errs = filecmp.cmpfiles(procs[0][1], procs[k][1], files0, shallow=False)
        for f in mismatch + errs:
            problems.append({"case": None, "why": f"artefact {f} differs between process 0 and process {k}"})
    state["coverage_extra"] = {
        "pipeline_cases": len(pcases), "pipeline_cases_identical": ok_cases, "pipeline_cases_with_generation_error": errors,
        "pipeline_in_process_repetitions": 40, "pipeline_fresh_processes": FRESH_PROCESSES + 1,
        "pipeline_artefact_files_compared": len(files0),
        "pipeline_samples": pcases[:2] + pcases[-2:],
    }
    state["evaluations"] += len(pcases)
    if problems:
        common.violation(ctx, "C24_pipeline.json", {
            "kind": "generated files differ between runs", "case": problems[0]["case"], "why": problems[0]["why"],
            "count": len(problems), "more": problems[1:10]})


SPEC = {
    "prop": "c24",
    "mod": "ParolModel.Props.C24",
    "files": FILES,
    "oracle_req": None,
    "nontrivial": nontrivial,
    "extra": extra,
    "level": "proof",
    "rule": "lf-orders: random plain grammars biased to ties (several equally large prefix groups per non-terminal, several "
            "non-terminals needing factoring), 40 in-process runs of left_factor each; non-trivial = a tie candidate or two "
            "non-terminals to factor; pipeline: generated EBNF grammars with tied prefix groups (LL(k) and LALR(1)) plus every "
            "*.par under examples/, 40 in-process repetitions + 4 fresh processes, all artefacts compared byte for byte",
    "assumptions": [
        "order independence is proved for the model of left factoring (group_by drain order as an explicit parameter); other HashMap iteration sites of the pipeline (minimisation of lookahead automata, nullable sets, type generation) are covered by the byte comparison only",
        "rustfmt is replaced by a no-op stub during the pipeline runs: the unformatted generator output is compared",
        "a finite number of repetitions and processes can miss a rare order; the per-process RandomState makes every HashMap::new() draw fresh keys",
    ],
}

CLAIM = {
    "category": "proof",
    "text": "Lean theorem leftFactor_group_order_indep: for ALL plain grammars the result of the modelled left factoring is the same for every drain order of group_by's HashMap (every permutation-valued order parameter); leftFactor_tie_counterexample: the pre-repair find_prefix (last maximum in HashMap order) gave two different results on `A: a b | a c | d e | d f`. The model is tied to the real left_factor by exact differential runs (40 in-process runs per grammar, each with fresh RandomStates). Additionally the complete generation pipeline is run 40 times in-process and in 4 fresh processes per grammar (tie-biased generated grammars and every example grammar) with byte-for-byte comparison of all generated files.",
    "design_ref": "DESIGN.md §6 C24",
    "note": "Proof covers left factoring only; the remaining HashMap iteration sites are covered by the repeated-run comparison (testing, not proof).",
    "technique": "Lean 4 proof over hand-written model + differential correspondence check + repeated-run byte comparison",
}


def run(ctx):
    return common.standard_flow(ctx, SPEC)


def replay(ctx, payload):
    case = payload.get("case")
    common.build_harness()
    common.lake_build(["parol_model"])
    if case and case.startswith("lf-orders"):
        a = common.impl_lines("c24", [case])[0]
        b = common.model_lines([case])[0]
        print(f"case: {case}\nimpl: {a}\nmodel: {b}")
        return 0 if (a == b and a.startswith("same ")) else 1
    if case:
        p = os.path.join(common.WORK, "c24_replay_case.txt")
        os.makedirs(common.WORK, exist_ok=True)
        open(p, "w").write(case + "\n")
        outs = []
        for k in range(FRESH_PROCESSES + 1):
            rp = os.path.join(common.WORK, f"c24_replay_{k}.txt")
            od = os.path.join(common.WORK, f"c24_replay_out_{k}")
            shutil.rmtree(od, ignore_errors=True); os.makedirs(od)
            run_pipe(p, rp, od, 40 if k == 0 else 2).wait()
            outs.append(common.read_lines(rp))
        print(f"case: {case}\nreplies: {outs}")
        flat = [o[0] if o else "<none>" for o in outs]
        return 0 if (len(set(flat)) == 1 and flat[0].startswith("same")) else 1
    return 1
