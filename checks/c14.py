"""C14 — tokens and parse trees are lossless.
(1) Token clause: the REAL TokenStream on texts with non-ASCII characters, CR/LF/CRLF mixes, comments
and unmatched stretches; every delivered token sequence is judged by the Lean statement
`tokensContiguous` (contiguous offsets from 0 to the input length, line/column = those of the start
offset; `tokensContiguous_concat`: then the slices concatenate to the input).
(2) Tree clause: LL — theorem ll_leaves_eq_tokens + the differential tie of C02; LR — differential tie
of `lrRun` with the real LRParser on styled inputs (skipped tokens, comments, `%skip` lists) and the
executable statement `treeCheck` (leaves = all tokens in order) on every successful real run."""
from . import common
from . import c03

FILES = ["crates/parol_runtime/src/lexer/token_buffer.rs", "crates/parol_runtime/src/lexer/token_stream.rs",
         "crates/parol_runtime/src/lexer/token_iter.rs", "crates/parol_runtime/src/lr_parser/parser_types.rs",
         "crates/parol_runtime/src/parser/parser_types.rs"]


def oracle_req(case, reply):
    w = case.split()
    if w[0] == "toks14":
        return f"tokens-lossless {w[3]} {reply}"
    if w[0] == "lr":
        r = reply.split()
        if len(r) == 4 and r[0] == "ok" and w[4][0] == "0" and len(w) >= 14:
            return "lr-tree-check " + w[1] + " " + w[13] + " " + w[6] + " " + r[1] + " " + r[2]
        return None
    if w[0] == "ll":
        r = reply.split()
        if len(r) == 4 and r[0] == "ok" and w[4][0] == "0":
            return "ll-tree-check " + " ".join(w[1:4]) + " " + w[6] + " " + r[1] + " " + r[2]
    return None


def attribute(case, reply, why):
    """F27: scnr2 reports a wrong line/column for a token that follows unmatched text (external crate);
    only possible with %allow_unmatched (flag 4 of the par flags) and a gap token earlier in the sequence."""
    w = case.split()
    if w[0] != "toks14" or "line-col" not in why:
        return None
    if w[1][3] != "1":
        return None
    try:
        idx = int(why.split("token-")[1].split("-")[0])
    except Exception:
        return None
    toks = reply.split(",")
    if any(t.split(":")[0] == "65534" for t in toks[:idx]):
        return "F27"
    return None


def nontrivial(case):
    w = case.split()
    if w[0] == "toks14":
        return len(w[3]) >= 8
    return len(w) >= 13 and w[6].count(",") >= 1


def extra(ctx, state):
    kinds = {}
    for c in common.read_lines(ctx.path("cases.txt")):
        k = c.split(" ", 1)[0]
        kinds[k] = kinds.get(k, 0) + 1
    state["coverage_extra"] = {"cases_by_kind": kinds}


SPEC = {
    "prop": "c14mix",
    "mod": "ParolModel.Props.C14",
    "more_mods": ["ParolModel.Props.C14b"],
    "files": FILES,
    "oracle_req": oracle_req,
    "attribute": attribute,
    "nontrivial": nontrivial,
    "extra": extra,
    "level": "proof",
    "rule": "toks14: random texts built from words, blanks, tabs, LF/CRLF/CR, line and block comments, unmatched characters, 2-, 3- and 4-byte "
            "characters, under all combinations of comment directives / %allow_unmatched / %auto_newline_off / %auto_ws_off, lookahead 1..3; "
            "ll/lr: the styled generator of C02 (random grammars through the real pipeline, inputs with whitespace, newlines, comments, "
            "%skip-ped words); non-trivial = text of >= 4 bytes resp. >= 2 tokens; distinct = distinct request lines",
    "assumptions": [
        "the delivered token sequence is read off the real TokenStream (take_skip_tokens / consume until all input is consumed); tokensContiguous is the property statement, evaluated by the compiled Lean driver",
        "line/column convention: lines end at LF only, columns count characters from 1 (scnr2's convention, taken as the definition)",
        "LR leaves = tokens is not a theorem yet (def LRLeavesEqTokens); it is decided per successful real run by treeCheck",
    ],
}

CLAIM = {
    "category": "proof",
    "text": "Tree clause as theorems for all tables and inputs, LL and LR: lr_leaves_eq_tokens (Props/C14b: under the checked table validity lrTableValid — or just acceptOnEoi — the token leaves of a successful untrimmed LR parse tree are the delivered tokens in order; the unconditional statement is refuted, lrLeavesEqTokens_needs_valid_table) and ll_leaves_eq_tokens (the token leaves of a successful untrimmed LL parse tree are exactly the delivered tokens in order — from ll_tree_actions and DS_leaves); tokensContiguous_concat (a token sequence that passes the decidable statement partitions the input). Token clause and LR tree clause: decided on the REAL output of every explored input by the Lean statements tokensContiguous (offsets contiguous 0..len, line/column of every token = those of its start offset) and treeCheck; the LR model lrRun is tied to the real LRParser by exact differential runs on styled inputs. Gap-filling by TokenBuffer::add and independence of the lookahead size are theorems of C13/C16 (gap_iff_unmatched, stream_indep_of_k).",
    "design_ref": "DESIGN.md §6 C14",
    "note": "Trusted: Lean kernel; harness (hex transport of texts, token dump) and orchestrator; scnr2's matches are taken as given. Known finding F27 (scnr2 position tracking after unmatched text) is reproduced and reported as KNOWN-FINDING.",
    "technique": "Lean 4 proof (LL and LR tree clause) + Lean-evaluated property statements on real output + differential correspondence check",
}


def run(ctx):
    return common.standard_flow(ctx, SPEC)


def replay(ctx, payload):
    case = payload.get("case")
    common.build_harness()
    common.lake_build(["parol_model"])
    a = common.impl_lines("c14mix", [case])[0]
    req = oracle_req(case, a)
    o = common.model_lines([req])[0] if req else "n/a"
    print(f"case: {case}\nimpl: {a}\noracle: {o}")
    return 0 if o in ("ok", "n/a") else 1
