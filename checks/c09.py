"""C09 — EBNF canonicalisation preserves the language; helper names are fresh.
Tie D: PAR text rendered from the case → REAL front end (`obtain_grammar_config_from_string`:
parser → ParolGrammar → `transform_productions`) vs Lean `canon`, exact comparison of the production
list (names, symbol and production attributes). Oracle: `canon-check` — language of the
implementation's productions vs the EBNF grammar on all strings of length ≤ n (verified recogniser
`member` on the model's verified canonical form), plus the helper-name clash detector."""
from . import common

FILES = ["crates/parol/src/transformation/canonicalization.rs", "crates/parol/src/utils/mod.rs",
         "crates/parol/src/parser/to_grammar_config.rs", "crates/parol/src/parser/parol_grammar.rs"]

# Finding (new, reported by this check): `variable_names` does not contain the start symbol. A
# grammar whose `%start` names a non-terminal that is neither defined nor used gets that name as a
# generated helper; the full pipeline accepts it.
START_CLASH_WITNESSES = [
    "canon ll N00List N00:{5,N00,6}",
    "canon lr N00List N00:{5,N00,6}",
    "canon ll N00Opt N00:[5,N00,6],7",
    "canon ll N00Group N00:(5|6,N00),7",
]
START_CLASH_TEXT = ("F23 start symbol is not in variable_names: `%start N00List %% N00: {\"t5\" N00 \"t6\"};` "
                    "is accepted and the undefined start symbol N00List becomes the generated repetition helper "
                    "(site canonicalization.rs::variable_names / eliminate_single_rep)")


def oracle_n(reply):
    rules = reply.count(";") + 1
    return 4 if rules <= 8 else (3 if rules <= 30 else 2)


def oracle_req(case, reply):
    w = case.split()
    if w[0] != "canon":
        return None
    return f"canon-check {w[1]} {w[2]} {w[3]} {oracle_n(reply)} {reply}"


def nontrivial(case):
    w = case.split()
    return any(c in w[3] for c in "([{")


def extra(ctx, state):
    """The witnesses of the repaired finding F23 (undefined start symbol captured by a generated helper
    name) must now be rejected by the front end — and by the model, which follows the fix."""
    reps = common.impl_lines("c09", START_CLASH_WITNESSES)
    mods = common.model_lines(START_CLASH_WITNESSES)
    odd = [(c, r, m) for c, r, m in zip(START_CLASH_WITNESSES, reps, mods) if r != "rejected" or m != "rejected"]
    state["coverage_extra"] = {"start_clash_witnesses": len(START_CLASH_WITNESSES),
                               "start_clash_rejected": len(START_CLASH_WITNESSES) - len(odd)}
    if odd:
        c, r, m = odd[0]
        orc = common.model_lines([oracle_req(c, r)])[0] if r.startswith("ok") else "n/a"
        common.violation(ctx, "C09_startclash.json", {
            "kind": "a grammar with an undefined start symbol that equals a generated helper name is not rejected (finding F23 is back)",
            "case": c, "impl_reply": r, "model_reply": m, "oracle": orc}, no_input=not orc.startswith("fail"))


SPEC = {
    "prop": "c09",
    "mod": "ParolModel.Props.C09",
    "more_mods": ["ParolModel.Props.C09b"],
    "files": FILES,
    "oracle_req": oracle_req,
    "nontrivial": nontrivial,
    "extra": extra,
    "level": "proof",
    "rule": "random EBNF grammars (1..3 base non-terminals plus, in 2/3 of the cases, 1..4 names shaped like generated helper "
            "names — XList, XOpt0, XOpt007, XGroup, XList18446744073709551615, …; nesting depth ≤ 3; empty alternatives; 1/25 with "
            "empty brackets; undefined and doubly defined non-terminals; clipped non-terminals), each for LL(k) and LALR(1); "
            "non-trivial = contains a group, optional or repetition; distinct = distinct request lines",
    "assumptions": [
        "the Lean functions of Model/Canon.lean mirror transform_productions and generate_name; agreement (production list with names and attributes) is observed on the explored grammars",
        "terminals are `\"t<n>\"` string literals in scanner state INITIAL; a terminal is one natural number in the model; user types, member names and lookahead expressions do not occur",
        "the theorems' hypothesis `st ∈ variableNames E` (the start symbol is defined or used) is necessary (canon_start_clash_counterexample); the front end establishes it since the fix: for finding F23 (a grammar whose start symbol has no production is rejected; witnesses checked on every run)",
    ],
}

CLAIM = {
    "category": "proof",
    "text": "Lean theorems about the model `canon` (a step-by-step mirror of transform_productions: extract_options, then the loop separate_alternatives ; eliminate_repetitions (LL and LALR variants) ; eliminate_options ; eliminate_groups, generate_name with its numeric-suffix rule, finalize): every step preserves YieldE for all factor strings that do not mention the new helper (step_preserves_lang family), canon_preserves_lang (for ALL EBNF grammars and both grammar types, whenever the start symbol is defined or used), canon_generate_name_not_mem, generate_name_total (the |exclusions|+1 candidates always contain a free name), helper_fresh. Termination (Props/C09b): canon_terminates_bound — with fuel > canonMeasure E (3*repetitions + 2*groups + 2*optionals at all nesting levels + productions with several alternatives; every modifying pass lowers it) the run never ends in the fuel or panic outcome; canon_total_accepted — on input the front end accepts it returns a grammar; the driver fuel 4*size+10 suffices. Tied to the code by exact differential runs through the real PAR front end; every implementation reply is also judged by the oracle (member on all strings ≤ n, helper-name clash detector).",
    "design_ref": "DESIGN.md §6 C09",
    "note": "Trusted: Lean kernel, faithfulness of the hand-written model as observed by the differential run, harness (PAR rendering of the encoded grammar) and orchestrator. Finding F23 (start symbol missing from variable_names) was found here, proved as canon_start_clash_counterexample and repaired by a fix: commit; its witnesses are re-run on every check.",
    "technique": "Lean 4 proof over hand-written model + differential correspondence check",
}


def run(ctx):
    return common.standard_flow(ctx, SPEC)


def replay(ctx, payload):
    case = payload.get("case")
    common.build_harness()
    common.lake_build(["parol_model"])
    a = common.impl_lines("c09", [case])[0]
    b = common.model_lines([case])[0]
    o = common.model_lines([oracle_req(case, a)])[0]
    print(f"case: {case}\nimpl: {a}\nmodel: {b}\noracle: {o}")
    return 0 if (a == b and o == "ok") else 1
