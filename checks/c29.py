"""C29 — language-server diagnostics reflect the latest document version.

 * proof: `Props/C29.lean` — theorems about the protocol machine of `Model/LsProto.lean` (events
   open / change / handler publish / background task completion; verdicts and diagnostic contents
   of texts uninterpreted): the full statement `LastPublishIsFinal` for the machine with both
   repairs, all histories and schedules (`last_publish_is_final_fixed`) — this is the machine the
   repaired server is tied to (`Model/LsProtoFixed.lean`). Kept as a record of the former defects:
   the negation of the statement for the machine without the repairs on the history of finding F8
   (`last_publish_counterexample`) and of finding F38 (`early_publish_counterexample`), that
   neither repair alone suffices (`early_publish_counterexample`, `stale_publish_counterexample`),
   and the restricted schedules on which the unrepaired code was right (`last_publish_partial`,
   `last_publish_timely`);
 * tie D (exact): `pv_ls c29` drives the REAL `Server` over an in-memory connection; a cfg-guarded
   gate in server.rs (hooks/c29_gate.patch) makes every schedule deterministic; the published
   notifications (version + signature of the diagnostics) must equal the trace of the machine
   WITH BOTH REPAIRS (`ls29r`) for every interleaving of a small scope (exhaustive) and for random
   longer histories;
 * oracle: the full property itself on the real trace (`ls29r-check`). Nothing is attributed to a
   known finding any more (F8 and F38 are repaired): every failing schedule is a VIOLATION."""
import subprocess
from . import common

FILES = ["crates/parol-ls/src/server.rs"]


def oracle_req(case, reply):
    w = case.split()
    if w[0] != "ls29r" or reply in ("bad-op", "panic"):
        return None
    if len(reply.split()) != 1:
        return None
    return "ls29r-check " + " ".join(w[1:]) + " " + reply


def nontrivial(case):
    w = case.split()
    evs = w[2].split(",") if w[2] != "-" else []
    edits = [e for e in evs if e[0] in "oc"]
    # at least two notifications and one task completion after a later notification or in a window
    return len(edits) >= 2 and any(e[0] == "f" for e in evs)


def race_observation(ctx, state):
    """Ungated servers: one didOpen of a grammar that is not LL(1) on each of n fresh servers. Since the
    repair the analysis thread is spawned after the handler's publish, so "error BEFORE the handler's
    empty list" (finding F38 happening by itself) is impossible and every occurrence is a violation;
    the other counts are timing-dependent observations only."""
    n = 5000 if ctx.thorough else 1000
    try:
        p = subprocess.run([state["binary"], "c29", "race", str(n)], capture_output=True, text=True, timeout=600)
        line = [l for l in p.stdout.split("\n") if l.startswith("@@ race ")]
        obs = dict(kv.split("=", 1) for kv in line[0].split()[2:]) if line else {}
    except Exception as e:              # noqa: BLE001 - observation only
        obs = {"error": str(e)}
    if obs.get("error-before-ok", "0") != "0":
        common.violation(ctx, f"{ctx.pid}_ungated_race.json", {
            "kind": "ungated server published the background error BEFORE the handler's empty list (finding F38 is back)",
            "observation": obs,
            "case": "ls29r notll=-/E1.m_Maximum_lookahead_of_2_e o0,f0,p lazy",
            "note": "timing-dependent: rerun `pv_ls c29 race <n>`; the case line is the gated schedule of the same defect"})
    state["coverage_extra"] = {
        "ungated_race": dict(obs, note=(
            "fresh ungated servers (max_k = 1), one didOpen of a grammar that is not LL(1) each; error-before-ok must be 0 "
            "(checked); the other counts are timing-dependent")),
        "gate": "hooks/c29_gate.patch (#[cfg(parol_verif)] mod verif_gate in crates/parol-ls/src/server.rs): blocks each analysis thread "
                "after its start and before its publish (before it takes the latest-version lock) until released; runs chosen threads "
                "inside the window between analyze and the handler's publish; FINISHED signal by a Drop guard; unset gate = no effect",
        "not_covered": "in --stdio mode lsp-server's writer thread holds the stdout lock and calculate_lalr1_parse_table reports resolved "
                       "conflicts with println!, so the analysis thread of an LALR grammar with conflicts blocks forever there (DESIGN §6 C29); "
                       "the harness uses the in-memory connection, where the thread finishes and the warning is published",
    }


SPEC = {
    "prop": "c29",
    "mod": "ParolModel.Props.C29",
    "more_mods": ["ParolModel.Props.C29Fixed"],
    "files": FILES,
    "bins": ("pv", "pv_ls"),
    "binary": "pv_ls",
    "oracle_req": oracle_req,
    "nontrivial": nontrivial,
    "extra": race_observation,
    "level": "proof",
    "rule": "tie D, exact comparison of the published (version, diagnostics signature) sequence of the real Server with the trace of the "
            "protocol machine with both repairs on (ls29r); oracle: the full property on every real trace, no attribution. Exhaustive: every sequence of <= 3 open/change notifications over four documents (clean LL(1); not "
            "LL(2) -> background error; LALR(1) with conflicts -> background warning; syntax error -> synchronous error) x every "
            "distribution of the task completions over the slots 'inside the window between analyze and the handler's publish of edit j' / "
            "'after the publish of edit j' x every order inside a slot; 4 notifications: quick over {clean, not LL(2)} where only the edit's "
            "own task may finish inside its window; thorough over all four documents with own-task windows and over {clean, not LL(2)} where any "
            "unfinished task may finish inside any later window. Plus every catalogue document alone (10 documents incl. LL(2), left recursion, non-productive, LALR variants), the two "
            "witness histories, and 300 (quick) / 3000 (thorough) random histories of 4..9 notifications over the whole catalogue. Cases "
            "alternate between lazy (a task computes only when it is scheduled to finish) and eager (tasks compute as soon as they are spawned; "
            "only their publish is scheduled). A task scheduled inside the window of its OWN edit does not exist there in the repaired "
            "server (it is spawned after the handler's publish): the harness runs it directly after the handler returns, which is the "
            "same trace for the repaired machine; on a server without the F38 repair the gate runs it inside the window and the tie "
            "and the oracle fail. non-trivial = at least two notifications and one task completion; distinct = distinct case lines",
    "assumptions": [
        "the protocol machine with both repairs on mirrors handle_open_document / handle_change_document / analyze / check_grammar / publish_if_latest / notify_* of the repaired server.rs (read statement by statement, Model/LsProtoFixed.lean; events: registration of the latest version + synchronous part, handler publish followed by thread::spawn, task completion = lock, version check, publish, unlock); agreement of the published traces is observed on the explored schedules (exact comparison)",
        "the gate hook (cfg parol_verif, add-only) only delays the analysis threads and the handler at the points named in the patch; every schedule it enforces is one the threads of the server can produce by themselves",
        "verdicts and diagnostic contents of a text are functions of the text and max_k only (the machine treats them as uninterpreted functions); the harness declares them per catalogue document and the tie would show a wrong declaration as a disagreement",
        "one document (one URI); didClose and configuration changes are outside the property's statement",
        "document versions increase (LSP); hypothesis of last_publish_is_final_fixed (the repaired server compares versions for equality only)",
    ],
}

CLAIM = {
    "category": "proof",
    "text": "Proof on the protocol model + exhaustive small-scope tie to the real (repaired) server. Lean theorem (Props/C29.lean) about the "
            "protocol machine of Model/LsProto.lean with both repairs switched on: last_publish_is_final_fixed (for ALL histories of "
            "open/change notifications with increasing versions and ALL schedules of handler publishes and task completions, once "
            "everything has finished the last published notification is the diagnostics of the final text alone, tagged with the final "
            "version). The two switches are what the repaired server does (Model/LsProtoFixed.lean): f8 = a background thread publishes "
            "through publish_if_latest (lock, publish only if its version is still the registered latest one, unlock after the publish; "
            "analyze registers the version first); f35 = check_grammar returns the background analysis and the handler spawns it after "
            "its own publish. The machine is tied to crates/parol-ls/src/server.rs by driving the real Server (in-memory connection, "
            "cfg-guarded gate) through every interleaving of the stated small scope and comparing the published notifications exactly "
            "with the repaired machine; the full property is also decided on every real trace and every failure is a violation. Record "
            "of the repaired defects (theorems about the machine with the switches off): last_publish_counterexample (F8: open v1 "
            "[background error], change v2 [clean], task v1 finishes -> stale error of v1 is last), early_publish_counterexample (F38: "
            "the task finishes between thread::spawn and the handler's notify_analysis_ok -> its error is wiped by the empty list; also: "
            "the F8 repair alone is not enough), stale_publish_counterexample (the F38 repair alone is not enough), last_publish_timely / "
            "last_publish_partial (schedules on which the unrepaired code was right). Props/C29Fixed.lean: repaired_window_void, "
            "repaired_stale_silent (for the repaired machine a task completion commutes with the handler's publish step and a task of an "
            "older version publishes nothing: the harness may run the task of an edit directly after the handler instead of inside its window).",
    "design_ref": "DESIGN.md §6 C29",
    "note": "Findings F8 and F38 are repaired in the server (latest-version table checked under a lock by the analysis threads; thread spawned "
            "after the handler's publish); run against a server without either repair the check reports a VIOLATION with the failing schedule. "
            "Trusted: Lean kernel (propext, Quot.sound, Classical.choice), faithfulness of the hand-written machine as observed by the exact "
            "tie, the gate hook, harness and orchestrator. Diagnostic CONTENT is compared only up to a signature (severities, count, code or "
            "first words of the message).",
    "technique": "Lean 4 proof over a hand-written protocol model + exhaustive small-scope differential check against the real server under a deterministic schedule gate",
}


def run(ctx):
    return common.standard_flow(ctx, SPEC)


def replay(ctx, payload):
    case = payload.get("case")
    common.build_harness(("pv", "pv_ls"))
    common.lake_build(["parol_model"])
    a = common.impl_lines("c29", [case], binary=common.PV_LS)[0]
    b = common.model_lines([case])[0]
    oreq = oracle_req(case, a)
    o = common.model_lines([oreq])[0] if oreq else "no-oracle-request"
    print(f"case: {case}\nimpl: {a}\nmodel: {b}\noracle: {o}")
    return 0 if (a == b and o == "ok") else 1
