"""C29 — language-server diagnostics reflect the latest document version.

 * proof: `Props/C29.lean` — theorems about the protocol machine of `Model/LsProto.lean` (events
   open / change / handler publish / background task completion; verdicts and diagnostic contents
   of texts uninterpreted): the full statement `LastPublishIsFinal`, its negation for the faithful
   machine on the confirmed history of finding F8 (`last_publish_counterexample`) and on the
   one-notification history of finding F38 (`early_publish_counterexample`), the statement for
   restricted schedules (`last_publish_partial`, `last_publish_timely`) and for the machine with
   both repairs, all histories and schedules (`last_publish_is_final_fixed`);
 * tie D (exact): `pv_ls c29` drives the REAL `Server` over an in-memory connection; a cfg-guarded
   gate in `Server::check_grammar` (hooks/c29_gate.patch) makes every schedule deterministic; the
   published notifications (version + signature of the diagnostics) must equal the machine's
   trace for every interleaving of a small scope (exhaustive) and for random longer histories;
 * oracle: the property itself on the real trace. A failing schedule is attributed to a listed
   finding only if the faithful machine reproduces the real trace AND the machine with ONLY that
   finding's repair switched on satisfies the property on the same schedule; schedules that need
   both repairs are attributed to the pair; everything else is a VIOLATION."""
import re, subprocess
from . import common

FILES = ["crates/parol-ls/src/server.rs"]


def oracle_req(case, reply):
    w = case.split()
    if w[0] != "ls29" or reply in ("bad-op", "panic"):
        return None
    if len(reply.split()) != 1:
        return None
    return "ls29-check " + " ".join(w[1:]) + " " + reply


def attribute(case, reply, why):
    m = re.search(r"model=(\S+) f8=(\S+) f35=(\S+) both=(\S+)", why)
    if not m or m.group(1) != "agrees":
        return None             # the machine does not even reproduce the trace: new
    f8, f35, both = m.group(2), m.group(3), m.group(4)
    if f8 == "ok":
        return "F8"
    if f35 == "ok":
        return "F38"
    if both == "ok":
        return "F8+F38"
    return None


def nontrivial(case):
    w = case.split()
    evs = w[2].split(",") if w[2] != "-" else []
    edits = [e for e in evs if e[0] in "oc"]
    # at least two notifications and one task completion after a later notification or in a window
    return len(edits) >= 2 and any(e[0] == "f" for e in evs)


def race_observation(ctx, state):
    """Observation only (timing-dependent, never a verdict): how often finding F38 happens by itself
    on ungated servers."""
    n = 5000 if ctx.thorough else 1000
    try:
        p = subprocess.run([state["binary"], "c29", "race", str(n)], capture_output=True, text=True, timeout=600)
        line = [l for l in p.stdout.split("\n") if l.startswith("@@ race ")]
        obs = dict(kv.split("=", 1) for kv in line[0].split()[2:]) if line else {}
    except Exception as e:              # noqa: BLE001 - observation only
        obs = {"error": str(e)}
    state["coverage_extra"] = {
        "ungated_race_observation_not_a_verdict": dict(obs, note=(
            "fresh ungated servers (max_k = 1), one didOpen of a grammar that is not LL(1) each: how often the background "
            "thread's error was published BEFORE the handler's empty list (finding F38 without the gate); timing-dependent")),
        "gate": "hooks/c29_gate.patch (#[cfg(parol_verif)] mod verif_gate in crates/parol-ls/src/server.rs): blocks each analysis thread "
                "after its start and before its publish until released; runs chosen threads inside the window between thread::spawn "
                "and the handler's publish; FINISHED signal by a Drop guard; unset gate = no effect",
        "not_covered": "in --stdio mode lsp-server's writer thread holds the stdout lock and calculate_lalr1_parse_table reports resolved "
                       "conflicts with println!, so the analysis thread of an LALR grammar with conflicts blocks forever there (DESIGN §6 C29); "
                       "the harness uses the in-memory connection, where the thread finishes and the warning is published",
    }


SPEC = {
    "prop": "c29",
    "mod": "ParolModel.Props.C29",
    "files": FILES,
    "bins": ("pv", "pv_ls"),
    "binary": "pv_ls",
    "oracle_req": oracle_req,
    "attribute": attribute,
    "nontrivial": nontrivial,
    "extra": race_observation,
    "level": "proof",
    "rule": "tie D, exact comparison of the published (version, diagnostics signature) sequence of the real Server with the trace of the "
            "faithful protocol machine. Exhaustive: every sequence of <= 3 open/change notifications over four documents (clean LL(1); not "
            "LL(2) -> background error; LALR(1) with conflicts -> background warning; syntax error -> synchronous error) x every "
            "distribution of the task completions over the slots 'inside the window between spawn and the handler's publish of edit j' / "
            "'after the publish of edit j' x every order inside a slot; 4 notifications: quick over {clean, not LL(2)} where only the edit's "
            "own task may finish inside its window; thorough over all four documents with own-task windows and over {clean, not LL(2)} where any "
            "unfinished task may finish inside any later window. Plus every catalogue document alone (10 documents incl. LL(2), left recursion, non-productive, LALR variants), the two "
            "witness histories, and 300 (quick) / 3000 (thorough) random histories of 4..9 notifications over the whole catalogue. Cases "
            "alternate between lazy (a task computes only when it is scheduled to finish) and eager (tasks compute as soon as they are spawned; "
            "only their publish is scheduled). non-trivial = at least two notifications and one task completion; distinct = distinct case lines",
    "assumptions": [
        "the protocol machine mirrors handle_open_document / handle_change_document / analyze / check_grammar / notify_* of server.rs (read statement by statement; events: synchronous part incl. thread::spawn, handler publish, task completion); agreement of the published traces is observed on the explored schedules (exact comparison)",
        "the gate hook (cfg parol_verif, add-only) only delays the analysis threads and the handler at the three points named in the patch; every schedule it enforces is one the unsynchronised threads of the unchanged server can produce by themselves",
        "verdicts and diagnostic contents of a text are functions of the text and max_k only (the machine treats them as uninterpreted functions); the harness declares them per catalogue document and the tie would show a wrong declaration as a disagreement",
        "one document (one URI); didClose and configuration changes are outside the property's statement",
        "document versions increase (LSP); needed by last_publish_is_final_fixed only",
    ],
}

CLAIM = {
    "category": "proof",
    "text": "Proof on the protocol model + exhaustive small-scope tie to the real server. Lean theorems (Props/C29.lean) about the protocol "
            "machine of Model/LsProto.lean: last_publish_counterexample (the full statement LastPublishIsFinal is FALSE of the faithful machine: "
            "open v1 [background error], change v2 [clean], task v1 finishes -> the last published diagnostics are the stale error of v1; "
            "finding F8), early_publish_counterexample (a single didOpen suffices when the task finishes between thread::spawn and the "
            "handler's notify_analysis_ok: the error is published first and wiped by the empty list; finding F38; also shows that the F8 "
            "repair alone is not enough) and stale_publish_counterexample (the F38 repair alone is not enough), last_publish_timely / "
            "last_publish_partial (the unchanged code IS right on all schedules in which every task that yields diagnostics finishes after its "
            "handler's publish and before the next notification - in particular when every task finishes before the next event, and for "
            "arbitrary interleavings when no earlier task yields diagnostics), last_publish_is_final_fixed (the machine with both repairs "
            "satisfies the full statement for ALL histories with increasing versions and ALL schedules). The machine is tied to "
            "crates/parol-ls/src/server.rs by driving the real Server (in-memory connection, cfg-guarded gate in check_grammar) through "
            "every interleaving of the stated small scope and comparing the published notifications exactly; the property is also decided "
            "on every real trace, and failures are attributed to F8 / F38 only when the faithful machine reproduces the trace and the "
            "machine with only that repair satisfies the property on the same schedule.",
    "design_ref": "DESIGN.md §6 C29",
    "note": "The unchanged server violates the property (known findings F8 and F38, reproduced on every run; F38 is new: the handler publishes "
            "its 'ok' AFTER spawning the analysis thread, and the ungated server shows the inverted order by itself a few times in 10^4 opens). "
            "Trusted: Lean kernel (propext, Quot.sound, Classical.choice), faithfulness of the hand-written machine as observed by the exact "
            "tie, the gate hook, harness and orchestrator. Diagnostic CONTENT is compared only up to a signature (severities, count, code or "
            "first words of the message).",
    "technique": "Lean 4 proof over a hand-written protocol model + exhaustive small-scope differential check against the real server under a deterministic schedule gate",
}


def run(ctx):
    return common.standard_flow(ctx, SPEC)


def replay(ctx, payload):
    case = payload.get("case")
    common.build_harness(("pv", "pv_ls"))
    common.lake_build(["parol_model"])
    a = common.impl_lines("c29", [case], binary=common.PV_LS)[0]
    b = common.model_lines([case])[0]
    oreq = oracle_req(case, a)
    o = common.model_lines([oreq])[0] if oreq else "no-oracle-request"
    print(f"case: {case}\nimpl: {a}\nmodel: {b}\noracle: {o}")
    if o != "ok":
        print("attributed to:", attribute(case, a, o))
    return 0 if (a == b and o == "ok") else 1
