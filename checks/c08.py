"""C08 — runtime production prediction is exact, also on erroneous input.
Tie D: real `LookaheadDFA::eval` on a real `TokenStream` vs Lean `eval`; oracle: `runRef` prefix
acceptance (the property statement itself) evaluated on every implementation reply."""
from . import common

FILES = ["crates/parol_runtime/src/parser/lookahead_dfa.rs"]


def oracle_req(case, reply):
    w = case.split()
    if w[0] != "eval":
        return None
    return "eval-check " + " ".join(w[1:]) + " " + reply


def nontrivial(case):
    w = case.split()
    return w[2] != "-" and w[3] != "0"


SPEC = {
    "prop": "c08",
    "mod": "ParolModel.Props.C08",
    "files": FILES,
    "oracle_req": oracle_req,
    "nontrivial": nontrivial,
    "level": "proof",
    "rule": "random trie-shaped automata (k 0..3, 1..3 letters + EOI, 1..4 productions; 3/4 prefix-free, 1/4 with accepting inner "
            "states; half with merged leaves as after minimisation; every 25th with an unsorted transition list) x all token strings "
            "of length <= k+1 over the automaton's letters plus one foreign letter (EOI-padded), capped per automaton; "
            "non-trivial = automaton has transitions and k > 0; distinct = distinct request lines",
    "assumptions": [
        "the Lean function `eval … true` mirrors LookaheadDFA::eval (as repaired by the fix: commit for finding F2); agreement is observed on the explored cases",
        "the k lookahead token types are what TokenStream::lookahead_token_type delivers for a one-letter-per-token scanner (EOI-padded); lexer errors do not occur in this tie",
        "automata produced by parol have transition lists sorted by (from-state, terminal) — hypothesis `sortedTrans` of the theorems; checked per automaton by the oracle",
    ],
}

CLAIM = {
    "category": "proof",
    "text": "Theorems eval_sound (a predicted production is accepted by a contiguous prefix of length <= k of the lookahead: nothing is skipped), eval_no_guess and eval_error_only_if_no_prefix (a prediction error is reported iff no prefix is accepted, up to the debug-assertion case characterised by eval_assertFail_only_if) hold for ALL sorted automata and ALL token buffers of the model `eval`, a loop-by-loop mirror of LookaheadDFA::eval. Tied to the code by exact differential runs through the real TokenStream on random automata x exhaustive short inputs; every implementation reply is also judged by the reference run `runRef`. The pre-repair behaviour is kept as `eval … false` with the checked counterexample eval_unfixed_counterexample.",
    "design_ref": "DESIGN.md §6 C08",
    "note": "Trusted: Lean kernel (propext, Quot.sound, Classical.choice), faithfulness of the hand-written model as observed by the differential run, harness and orchestrator. Automata come from a random generator here; automata produced by parol itself are covered by C07's check.",
    "technique": "Lean 4 proof over hand-written model + differential correspondence check",
}


def run(ctx):
    return common.standard_flow(ctx, SPEC)


def replay(ctx, payload):
    case = payload.get("case")
    common.build_harness()
    common.lake_build(["parol_model"])
    a = common.impl_lines("c08", [case])[0]
    b = common.model_lines([case])[0]
    o = common.model_lines([oracle_req(case, a)])[0]
    print(f"case: {case}\nimpl: {a}\nmodel: {b}\noracle: {o}")
    return 0 if (a == b and o == "ok") else 1
