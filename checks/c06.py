"""C06 — FIRST_k and FOLLOW_k sets match their definitions.
Tie D: the real public `first_k`, `follow_k`, `FirstCache::get`, `FollowCache::get` against the
faithful Lean model (seeded Jacobi iteration / Gauss–Seidel sweep / memo tables).
Oracle: the verified unseeded least fixpoint `firstK_lfp` / `followK_lfp` (theorems
`firstK_lfp_eq_spec`, `followK_lfp_eq_spec`: equal to the declarative sets for every grammar)
compared with every set the implementation returned, for every request order generated."""
from . import common

FILES = [
    "crates/parol/src/analysis/first.rs",
    "crates/parol/src/analysis/follow.rs",
    "crates/parol/src/analysis/k_decision.rs",
    "crates/parol/src/analysis/k_tuples.rs",
    "crates/parol/src/analysis/k_tuple.rs",
]

K0_TEXT = ("K0-EOI follow_k(G, 0) returns the one-token tuple [EOI] in FOLLOW_0 of the start symbol "
           "(KTuplesBuilder::end() does not truncate to k) where 0-truncation gives the empty tuple; "
           "all other sets at k = 0 and all sets at k >= 1 match exactly")


def _split(case):
    w = case.split()
    return w[0], w[1:]


def oracle_req(case, reply, lenient="1"):
    op, a = _split(case)
    if op == "c06-first":
        return "c06-first-check " + " ".join(a) + " " + reply
    if op == "c06-follow":
        return "c06-follow-check " + " ".join(a) + " " + lenient + " " + reply
    if op == "c06-cache":
        return "c06-cache-check " + " ".join(a) + " " + lenient + " " + reply
    return None


def nontrivial(case):
    op, a = _split(case)
    if op in ("c06-first", "c06-follow"):
        return a[-1] != "0" and ";" in a[1]
    return ";" in a[1]


def extra(ctx, state):
    """Counts the k = 0 end-of-input deviation (strict oracle on the k = 0 FOLLOW cases) and the
    input distribution."""
    cases = common.read_lines(ctx.path("cases.txt"))
    impl = common.read_lines(ctx.path("impl.txt"))
    reqs, idx = [], []
    for i, c in enumerate(cases):
        op, a = _split(c)
        if op == "c06-follow" and a[-1] == "0" and i < len(impl):
            reqs.append(oracle_req(c, impl[i], lenient="0"))
            idx.append(i)
    dev = []
    other = []
    if reqs:
        reps = common.model_lines(reqs)
        for j, i in enumerate(idx):
            if reps[j] == "ok-k0-eoi":
                dev.append(cases[i])
            elif reps[j] != "ok":
                other.append((cases[i], reps[j]))
    if dev:
        dev.sort(key=len)
        ctx.known.append(f"{K0_TEXT} (seen on {len(dev)} of {len(reqs)} k=0 FOLLOW cases, e.g. `{dev[0]}`)")
    ks = {}
    grams = set()
    for c in cases:
        op, a = _split(c)
        grams.add(a[0] + " " + a[1])
        if op in ("c06-first", "c06-follow"):
            ks[a[-1]] = ks.get(a[-1], 0) + 1
    state["coverage_extra"] = {
        "distinct_grammars": len(grams),
        "cases_per_k": ks,
        "cache_order_cases": sum(1 for c in cases if c.startswith("c06-cache")),
        "k0_eoi_deviation_cases": len(dev),
        "size_caps": "k <= 3: <= 5 non-terminals, <= 3 terminals, rhs <= 4; k = 4..6 (thorough only, every 4th grammar): "
                     "<= 4 non-terminals, <= 2 terminals, rhs <= 3",
    }


SPEC = {
    "prop": "c06",
    "mod": "ParolModel.Props.C06",
    "files": FILES,
    "oracle_req": oracle_req,
    "nontrivial": nontrivial,
    "extra": extra,
    "level": "proof",
    "rule": "10 hand-picked boundary grammars + random productive, reachable, (hidden-)left-recursion-free grammars (own closure "
            "computations AND parol's own checks must agree), biased to nullable non-terminals and shared prefixes; per grammar: "
            "first_k and follow_k for every k in 0..3 (0..6 for every 4th grammar in the thorough tier) and two cache request "
            "sequences (ascending, descending, random, repeated; FirstCache::get, FollowCache::get, direct follow_k on the shared "
            "caches); non-trivial = grammar with >= 2 productions and k > 0; distinct = distinct request lines",
    "assumptions": [
        "the Lean functions firstCode / followCode / firstGet / followGet mirror first_k / follow_k / FirstCache::get / FollowCache::get at the level of token strings; agreement (byte-identical canonical output) is observed on the explored cases",
        "tuples are compared as token strings: the Complete/Incomplete flag and the per-tuple k field of the packed KTuple are not modelled (argued irrelevant in Model/KSets.lean; the packed representation is C32)",
        "the grammars fed to the public functions are built directly as parol::Cfg values (legacy terminals t<n>, scanner state 0), not through the PAR front end",
        "FollowCache::get's result is crate-private; its effect is observed through later direct follow_k calls on the same caches",
    ],
}

CLAIM = {
    "category": "proof",
    "text": "Theorems (all for ALL inputs of the Lean model, no sorry): first_k_eq_spec and followK_eq_spec — for every productive, reachable grammar without (hidden) left recursion and every k >= 1, what the faithful model of the public first_k (Jacobi iteration seeded with its own k-1 result) and follow_k (Gauss-Seidel sweeps, stop when the position map repeats, first comparison against the k-1 map) returns is exactly the declarative set FirstK (k-truncated yields) / FollowK (k-truncated right contexts of sentential forms from the start symbol, end of input appended), slot by slot; first_fixpoint_unique_noLeftRec (the uniqueness lemma: every well-formed fixpoint of the step function equals the declarative sets, so the seed cannot matter) and first_any_fixpoint_superset (every fixpoint, for every grammar, contains them); first_unique_needs_noLeftRec (with hidden left recursion the seeded iteration really ends in a non-least fixpoint); firstK_lfp_eq_spec / followK_lfp_eq_spec (the reference least-fixpoint computation used as oracle equals the declarative sets for EVERY grammar); cache_order_irrelevant (for every sequence of FirstCache::get / FollowCache::get / direct follow_k requests the answers equal the pure function values). Tied to the code by byte-identical differential runs of the real first_k / follow_k / caches in several request orders, and every set the implementation returned is compared with the verified reference.",
    "design_ref": "DESIGN.md §6 C06",
    "note": "Trusted: Lean kernel (propext, Quot.sound, Classical.choice), faithfulness of the hand-written model as observed by the differential run, harness and orchestrator. Observation reported by the check: at k = 0 FOLLOW of the start symbol is {[EOI]} rather than {ε}.",
    "technique": "Lean 4 proof over hand-written model + differential correspondence check + verified reference oracle",
}


def run(ctx):
    return common.standard_flow(ctx, SPEC)


def replay(ctx, payload):
    case = payload.get("case")
    common.build_harness()
    common.lake_build(["parol_model"])
    a = common.impl_lines("c06", [case])[0]
    b = common.model_lines([case])[0]
    o = common.model_lines([oracle_req(case, a)])[0]
    print(f"case: {case}\nimpl: {a}\nmodel: {b}\noracle: {o}")
    return 0 if (a == b and o == "ok") else 1
