"""C15 — comment tokens end exactly at the first end delimiter.
G: the real `format_block_comment` / line comment regex texts for every delimiter pattern are dumped
   into lean/ParolModel/Generated/ScannerConsts.lean (text + AST via regex-syntax) on every run;
   Props/C15 re-proves, per pattern, equivalence with the specification automaton `firstEndDfa`
   (verified checker evaluated by the kernel) or, for the listed findings, the negation.
D: `fmt` — Lean model of format_block_comment vs the real function (regex text byte for byte);
   `blk`/`line` — a real scnr2 scanner built at run time vs `tokenizeSpec` on the lowered regex.
Oracle: the implementation's comment tokens must be those of the specification (first end
   delimiter / end of line). The distinguishing strings computed by the Lean checker are replayed on
   the real scanner (they are put in front of the generated cases)."""
import os
from . import common

FILES = ["crates/parol/src/generators/scanner_config.rs", "crates/parol_runtime/src/lexer/mod.rs"]
GEN = os.path.join(common.LEAN, "ParolModel", "Generated", "ScannerConsts.lean")

KEY_TO_FINDING = {
    "cstyle": "F3a", "aab": "F3b", "aba": "F3c", "abb": "F3d", "abc": "F3e",
    "aa+mixedesc": "F3f", "a+escclass": "F3g", "ab+escclass": "F3g",
}


def spans_of(reply, tok):
    if reply == "-":
        return "-"
    out = []
    for t in reply.split(","):
        p = t.split(":")
        if len(p) != 3 or p[0] != tok:
            return None
        out.append(p[1] + ":" + p[2])
    return ",".join(out)


def oracle_req(case, reply):
    w = case.split()
    if w[0] == "blk":
        sp = spans_of(reply, "4")
        return f"blk-check {w[4]} {w[5]} {w[7]} {sp if sp is not None else 'malformed:' + reply.replace(' ', '_')}"
    if w[0] == "line":
        sp = spans_of(reply, "3")
        return f"line-check {w[2]} {w[4]} {sp if sp is not None else 'malformed:' + reply.replace(' ', '_')}"
    return None


def attribute(case, reply, why):
    w = case.split()
    if not why.startswith("fail"):
        return None
    if w[0] == "line":
        return "F15"
    if w[0] == "blk":
        fid = KEY_TO_FINDING.get(w[1])
        if fid is None and "1114111" in w[7].split(","):
            return "F21"     # scnr2: U+10FFFF is in no character class
        return fid
    return None


def nontrivial(case):
    w = case.split()
    if w[0] == "fmt":
        return w[2] != "-"
    return w[-1] != "-"


def extra(ctx, state):
    st = STATE
    cov = {
        "delimiter_instances": st.get("instances", 0),
        "delimiter_instances_skipped_unsupported_regex": st.get("skipped", []),
        "checker_verdicts": st.get("verdicts", {}),
        "generated_file": "lean/ParolModel/Generated/ScannerConsts.lean (" + st.get("dump", "?") + ")",
        "witness_cases_replayed": st.get("witness_cases", 0),
    }
    state["coverage_extra"] = cov
    # an instance the checker refutes whose pattern is not a listed finding is a violation even if
    # the scan-level oracle should (and does) fail on its witness as well
    known = {k["id"] for k in common.load_known(ctx.pid)}
    for (key, full, verdict) in st.get("refuted", []):
        fid = "F15" if key == "line" else KEY_TO_FINDING.get(key)
        if not fid or fid not in known:
            common.violation(ctx, f"C15_equiv_{full.replace('|', '_').replace(':', '_')}.json", {
                "kind": "real comment regex is not equivalent to the specification automaton",
                "delimiter_pattern": key, "instance": full, "checker": verdict})
    if st.get("unknown"):
        common.violation(ctx, "C15_equiv_unknown.json", {
            "kind": "equivalence checker ran out of fuel", "instances": st["unknown"]}, no_input=True)


STATE = {}

SPEC = {
    "prop": "c15",
    "mod": "ParolModel.Props.C15",
    "files": FILES,
    "oracle_req": oracle_req,
    "nontrivial": nontrivial,
    "attribute": attribute,
    "extra": extra,
    "level": "proof",
    "rule": "delimiter instances: every equality pattern among <= 2 start and <= 3 end characters (94 patterns over letters), the 8 end "
            "patterns again over regex meta characters / bracket-special characters / non-ASCII, 12 delimiters from the repository's tests and "
            "documentation, 4 delimiters written with escape sequences; per instance: all texts s+body+e with |body| <= 2 over the delimiter "
            "characters plus one other, a sample of s+body+e+tail+e, random texts with several/unterminated comments, CR/LF/non-ASCII/U+10FFFF; "
            "line comments: 7 start strings x random multi-line texts with LF/CR/CRLF/LFCR/no line end and Unicode line separators; "
            "fmt: all instances + random delimiter texts incl. rejected ones; the checker's distinguishing strings are replayed first; "
            "non-trivial = non-empty text / end delimiter; distinct = distinct request lines",
    "assumptions": [
        "delimiters are literal strings (raw strings, or regex text that regex-syntax parses to a literal); a delimiter given as a proper regex is outside the property's wording",
        "texts are sequences of Unicode scalar values (<= U+10FFFF)",
        "the verdict for a delimiter PATTERN is obtained on concrete characters (4 character pools); that it carries over to every other choice of characters with the same equality pattern is by the symmetry of format_block_comment in the characters (it only compares atoms for equality and escapes them), observed on the pools, not proved",
        "regex-syntax -> Re lowering (harness/src/relower.rs) and scnr2's regex semantics are validated by the differential run (real scnr2 scanner vs tokenizeSpec on the lowered regex), not proved",
        "Lean `formatBlockComment` mirrors format_block_comment; agreement of the rendered text is checked byte for byte on all instances at build time (#guard in the generated file) and on random delimiter texts at run time",
    ],
}

CLAIM = {
    "category": "proof",
    "text": "For the REAL regex texts produced by ScannerConfig::format_block_comment (regenerated on every run, parsed with regex-syntax) "
            "Lean proves per delimiter pattern: end delimiters of shape a, aa, ab, aaa (with every coincidence pattern with the start "
            "delimiter) have exactly the language of the specification automaton firstEndDfa (blockRe_eq_firstEnd_*; verified bisimulation "
            "checker re_equiv_sound + class_abstraction_sound evaluated by the kernel), hence by longest_unique the token is the unique "
            "match ending at the first end delimiter. For the C-style dedicated regex, for every 3-character end that is not aaa, for "
            "inconsistently escaped equal characters and for escape sequences in the end delimiter, and for all line comments, the "
            "NEGATION is proved with a checker-computed witness (blockRe_ne_firstEnd_*, lineRe_ne_spec) and the witnesses are reproduced "
            "on the real scnr2 scanner (known findings F3a-F3g, F15).",
    "design_ref": "DESIGN.md §6 C15",
    "note": "Trusted: Lean kernel; harness (regex-syntax -> Re lowering, run-time construction of the scnr2 scanner as cs_lexer_generator does); "
            "scnr2 itself is only observed. Delimiters that are proper regexes are out of scope.",
    "technique": "Lean 4 proof (verified regex-vs-automaton equivalence checker evaluated on regenerated data) + differential correspondence check on the real scanner",
}


def prepare(ctx):
    """dump constants/regexes from the repository, rebuild the driver, compute the checker's
    verdicts and distinguishing strings, and hand the latter to `pv c15 gen`."""
    STATE.clear()
    ok, log = common.build_harness()
    if not ok:
        return
    rc, out, err = common.sh([common.PV, "c15", "dump", GEN])
    STATE["dump"] = out.strip() or ("failed: " + err[-300:])
    common.lake_build(["parol_model"])
    rc, out, err = common.sh([common.PV, "c15", "list"])
    insts, reqs = [], []
    skipped = []
    for line in out.split("\n"):
        w = line.split()
        if not w:
            continue
        if w[0] == "inst":
            insts.append(w)
            reqs.append(f"blk-equiv {w[5]} {w[6]} {w[7]}")
        elif w[0] == "lineinst":
            insts.append(w)
            reqs.append(f"line-equiv {w[2]} {w[3]}")
        elif w[0] == "skip":
            skipped.append(" ".join(w[1:]))
    reps = common.model_lines(reqs) if reqs else []
    verdicts, refuted, unknown, extra_cases = {}, [], [], []
    for w, rep in zip(insts, reps):
        key = w[1] if w[0] == "inst" else "line"
        r = rep.split()
        v = r[0] if r else "missing"
        verdicts.setdefault(key, {}).setdefault(v, 0)
        verdicts[key][v] += 1
        if v == "differ":
            full = w[2] if w[0] == "inst" else "line:" + w[1]
            refuted.append((key, full, rep))
            if w[0] == "inst":
                extra_cases.append(f"blk {w[1]} {w[3]} {w[4]} {w[5]} {w[6]} {w[7]} {r[1]}")
            else:
                extra_cases.append(f"line {w[1]} {w[2]} {w[3]} {r[1]}")
        elif v != "equiv":
            unknown.append(" ".join(w[:3]) + " -> " + rep)
    p = ctx.path("witness_cases.txt")
    with open(p, "w") as f:
        f.write("\n".join(extra_cases) + ("\n" if extra_cases else ""))
    os.environ["PV_C15_EXTRA_CASES"] = p
    STATE.update({"instances": len(insts), "skipped": skipped, "verdicts": verdicts, "refuted": refuted,
                  "unknown": unknown, "witness_cases": len(extra_cases)})


def run(ctx):
    prepare(ctx)
    return common.standard_flow(ctx, SPEC)


def replay(ctx, payload):
    case = payload.get("case")
    common.build_harness()
    common.lake_build(["parol_model"])
    if not case:
        print(payload)
        return 1
    a = common.impl_lines("c15", [case])[0]
    b = common.model_lines([case])[0]
    req = oracle_req(case, a)
    o = common.model_lines([req])[0] if req else "ok"
    print(f"case: {case}\nimpl: {a}\nmodel: {b}\noracle: {o}")
    return 0 if (a == b and o == "ok") else 1
