"""C11 — grammar well-formedness checks are exact.
Tie D: the real `calculate_nullable_non_terminals`, `non_productive_non_terminals`,
`unreachable_non_terminals`, `detect_left_recursive_non_terminals` and
`check_and_transform_grammar_with_ignored` (both grammar types) vs the Lean mirrors of
Model/Fixpoints.lean. Oracle: `wf-check` compares every implementation reply with the sets that
Props/C11 proves equal to the declarative definitions, and with the verdict those sets prescribe."""
from . import common

FILES = [
    "crates/parol/src/grammar/cfg.rs",
    "crates/parol/src/analysis/productivity.rs",
    "crates/parol/src/analysis/reachability.rs",
    "crates/parol/src/analysis/left_recursion.rs",
    "crates/parol/src/generators/grammar_trans.rs",
]


def oracle_req(case, reply):
    w = case.split()
    if w[0] != "wf" or len(w) != 4:
        return None
    r = reply.split()
    if len(r) != 6:
        return "wf-check " + " ".join(w[1:]) + " malformed-reply"   # wrong arity -> bad-op -> failure
    return "wf-check " + " ".join(w[1:]) + " " + " ".join(r)


def start_has_prod(case):
    w = case.split()
    st, prods = w[2], w[3]
    if prods == "-":
        return False
    return any(p.split(":")[0] == st for p in prods.split(";"))


def nontrivial(case):
    w = case.split()
    return len(w) == 4 and w[3] != "-"


def extra(ctx, state):
    """Counts the verdict classes reached, and surfaces the one place where the implementation
    yields no set at all: `calculate_nullable_non_terminals` / `detect_left_recursive_non_terminals`
    panic when called directly on a grammar whose start symbol has no production."""
    cases = common.read_lines(ctx.path("cases.txt"))
    impl = common.read_lines(ctx.path("impl.txt"))
    classes = {}
    panics, panics_with_start_prod = [], []
    for c, r in zip(cases, impl):
        w = r.split()
        if len(w) != 6:
            classes["malformed"] = classes.get("malformed", 0) + 1
            continue
        for tag, word in (("ll", w[4]), ("lr", w[5])):
            k = tag + ":" + word.split(":")[0]
            classes[k] = classes.get(k, 0) + 1
        if w[0] == "panic" or w[3] == "panic":
            (panics if not start_has_prod(c) else panics_with_start_prod).append(c)
        if w[3] not in ("-", "panic"):
            classes["left-recursive"] = classes.get("left-recursive", 0) + 1
        if w[0] not in ("-", "panic"):
            classes["some-nullable"] = classes.get("some-nullable", 0) + 1
    state["coverage_extra"] = {
        "verdict_classes": classes,
        "direct_call_panics_start_without_production": len(panics),
    }
    if panics_with_start_prod:
        c = sorted(panics_with_start_prod, key=len)[0]
        common.violation(ctx, f"{ctx.pid}_panic.json", {
            "kind": "a set computation panicked on a grammar whose start symbol has a production",
            "case": c, "count": len(panics_with_start_prod)})
    if panics:
        c = sorted(panics, key=len)[0]
        ctx.known.append(
            "id=C11-P1 site=crates/parol/src/grammar/cfg.rs:get_non_terminal_ordering "
            f"witness=`{c}` Cfg::calculate_nullable_non_terminals and detect_left_recursive_non_terminals "
            "panic (\"Start symbol not found in any production\") when called directly on a grammar whose start "
            "symbol has no production, instead of returning the (well-defined) set; not reachable through "
            "check_and_transform_grammar, which rejects such a grammar as non-productive first "
            f"(theorem check_rejects_iff); reproduced on {len(panics)} case(s)")


SPEC = {
    "prop": "c11",
    "mod": "ParolModel.Props.C11",
    "files": FILES,
    "oracle_req": oracle_req,
    "nontrivial": nontrivial,
    "extra": extra,
    "level": "proof",
    "rule": "exhaustive: every grammar (multiset of productions, start symbol N00) in the scopes "
            "(non-terminals, terminals, max productions, max rhs length) = quick (1,1,4,2) (2,1,3,2) (2,2,3,2) (3,1,3,2); "
            "thorough adds (3,2,3,2) (2,2,4,2) (3,1,4,2); plus random grammars (<= 6+2 non-terminals, <= 3 productions each, rhs <= 4) biased to "
            "nullable-hidden direct and indirect left recursion, non-nullable look-alikes, unreachable islands, non-productive cycles, "
            "recursive start symbols, start symbols without productions, undefined non-terminals; every 5th random case with a random "
            "`unreachable_to_ignore` set; non-trivial = at least one production; distinct = distinct request lines",
    "assumptions": [
        "the Lean functions of Model/Fixpoints.lean mirror the Rust loops (same sweeps, same termination tests, same output order); agreement is observed on the explored grammars, byte for byte, including the order of the names in every set and error payload",
        "non-terminal names are N00..N99, so the alphabetical order of BTreeSet<String>/BTreeMap<String,_> is the numeric order of the model",
        "HashSet iteration order does not influence the computed sets (argued in Model/Fixpoints.lean for the closure pass of left_recursion.rs; observed: no flakiness across runs)",
        "the two set functions that panic on a start symbol without production are compared as `panic` there; the theorems nullable_eq / leftRec_eq describe the model functions nullableSet / leftRecSet, which are defined for every grammar, and code_panics_iff states exactly when the wrappers panic",
    ],
}

CLAIM = {
    "category": "proof",
    "text": "Theorems nullable_eq, productive_eq, reachable_eq, leftRec_eq: for ALL grammars the model computations terminate within their fuel and return exactly (as strictly sorted lists) {A | A =>* eps}, the non-terminals deriving no terminal string, {A | S =>* alpha A beta} resp. its complement in the grammar's non-terminals, and {A | A =>+ A gamma} (sentential-form derivations, so indirect and nullable-hidden left recursion included). check_rejects_iff: the modelled check_and_transform_grammar_with_ignored always yields a verdict (never panics) and passes iff all non-terminals are productive, all non-ignored ones reachable and (LL only) none left-recursive; check_error_names: each error names exactly, in sorted order, the offending non-terminals, with priority non-productive > unreachable > left-recursive. Tied to the code by an exact differential run over an exhaustive small scope plus biased random grammars; every implementation reply is additionally judged against the verified sets.",
    "design_ref": "DESIGN.md §6 C11",
    "note": "Trusted: Lean kernel (propext, Quot.sound, Classical.choice), faithfulness of the hand-written model as observed by the differential run, harness and orchestrator. Observation C11-P1: the two public set functions that go through get_non_terminal_ordering panic on a grammar whose start symbol has no production (not reachable through the check).",
    "technique": "Lean 4 proof over hand-written model + differential correspondence check",
}


def run(ctx):
    return common.standard_flow(ctx, SPEC)


def replay(ctx, payload):
    case = payload.get("case")
    common.build_harness()
    common.lake_build(["parol_model"])
    a = common.impl_lines("c11", [case])[0]
    b = common.model_lines([case])[0]
    o = common.model_lines([oracle_req(case, a)])[0]
    print(f"case: {case}\nimpl: {a}\nmodel: {b}\noracle: {o}")
    return 0 if (a == b and o == "ok") else 1
