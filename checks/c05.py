"""C05 — LL(k) decision: accept iff strong-LL(k), with the minimal lookahead.
Tie D: the real public `decidable`, `calculate_k`, `calculate_k_tuples`, `calculate_lookahead_dfas`
(verdict), `explain_conflicts`, and the real `k_concat` / `is_disjoint` on the lookahead sets, against
the faithful Lean model. Oracle: strong-LL(k) evaluated on the verified reference sets
(`firstK_lfp` / `followK_lfp`, equal to the declarative FIRST_k / FOLLOW_k by C06's theorems), i.e. the
property statement itself is decided for every implementation reply."""
from . import common

FILES = [
    "crates/parol/src/analysis/k_decision.rs",
    "crates/parol/src/analysis/k_tuples.rs",
    "crates/parol/src/analysis/first.rs",
    "crates/parol/src/analysis/follow.rs",
]

CHECK_OF = {
    "c05-decidable": "c05-decidable-check",
    "c05-calck": "c05-calck-check",
    "c05-ktuples": "c05-ktuples-check",
    "c05-dfas": "c05-ktuples-check",
    "c05-explain": "c05-explain-check",
    "c05-lasets": "c05-lasets-check",
}


def oracle_req(case, reply):
    w = case.split()
    chk = CHECK_OF.get(w[0])
    if chk is None:
        return None
    return chk + " " + " ".join(w[1:]) + " " + reply


def nontrivial(case):
    w = case.split()
    return w[2].count(";") >= 1 and w[-1] != "0"


def extra(ctx, state):
    cases = common.read_lines(ctx.path("cases.txt"))
    impl = common.read_lines(ctx.path("impl.txt"))
    dist = {}
    grams = set()
    for c, r in zip(cases, impl):
        w = c.split()
        grams.add(w[1] + " " + w[2])
        if w[0] == "c05-decidable":
            key = "decidable:" + r.replace(" ", "")
            dist[key] = dist.get(key, 0) + 1
        elif w[0] == "c05-ktuples":
            key = "pipeline:" + r.split()[0]
            dist[key] = dist.get(key, 0) + 1
        elif w[0] == "c05-explain":
            key = "explain:" + ("conflicts" if r not in ("ok -", "err-notpart") else "none")
            dist[key] = dist.get(key, 0) + 1
    state["coverage_extra"] = {
        "distinct_grammars": len(grams),
        "reply_distribution": dict(sorted(dist.items())),
        "size_caps": "K <= 3: <= 5 non-terminals, <= 3 terminals, rhs <= 4; K = 6 (thorough only, every 4th grammar): "
                     "<= 4 non-terminals, <= 2 terminals, rhs <= 3",
    }


SPEC = {
    "prop": "c05",
    "mod": "ParolModel.Props.C05",
    "files": FILES,
    "oracle_req": oracle_req,
    "nontrivial": nontrivial,
    "extra": extra,
    "level": "proof",
    "rule": "15 hand-picked grammars (LL(1..4), non-LL, identical alternatives, nullable prefixes) with K = 0..4 + random productive, "
            "reachable, left-recursion-free grammars (as in C06) with K = top and one random K <= top (top = 3; 6 for every 4th "
            "grammar in the thorough tier); per grammar and K: decidable for every non-terminal, calculate_k, calculate_k_tuples, "
            "calculate_lookahead_dfas (verdict); per non-terminal: explain_conflicts at a random k and at top, the compared "
            "lookahead sets with the verdicts of the real is_disjoint; one undefined non-terminal per grammar; "
            "non-trivial = grammar with >= 2 productions and last argument > 0; distinct = distinct request lines",
    "assumptions": [
        "the Lean functions decidableM / calculateK / calculateKTuples / explainConflicts mirror decidable / calculate_k / calculate_k_tuples / explain_conflicts over the faithful FIRST/FOLLOW model of C06; agreement (byte-identical canonical output) is observed on the explored cases",
        "lookahead sets are compared as token strings; that the real is_disjoint (which also compares the Complete flag and the per-tuple k field) agrees with string-level disjointness is checked per case (c05-lasets), not proved",
        "the grammars are built directly as parol::Cfg values; 'the transformed grammar' of the property is whatever Cfg reaches calculate_lookahead_dfas",
        "automaton construction after calculate_k_tuples (from_k_tuples, unite) is C07; here only the Ok/Err verdict of calculate_lookahead_dfas is compared",
    ],
}

CLAIM = {
    "category": "proof",
    "text": "Theorems decidable_iff_strongLL (for a non-terminal with at least two alternatives and non-empty FOLLOW sets, the model of `decidable` answers ok k exactly when k is in 1..K, the non-terminal is strong-LL(k) and it is not strong-LL(j) for any 1 <= j < k; it answers MaxKExceeded exactly when no such k exists; one alternative gives ok 0), k_minimal, reject_names_real_overlap (the non-terminal at which calculate_k_tuples stops has overlapping lookahead sets at every k <= K, in particular at K) and pipeline_accepts_iff hold for ALL grammars, relative to the FIRST/FOLLOW sets being the declarative sets; decidable_iff_strongLL_class discharges that hypothesis with C06's theorems for productive, reachable grammars without left recursion. StrongLL is the declarative strong-LL(k) condition over FirstK/FollowK. Tied to the code by byte-identical differential runs of the real functions, and every implementation reply is judged by strong-LL(k) evaluated on the verified reference sets.",
    "design_ref": "DESIGN.md §6 C05",
    "note": "Trusted: Lean kernel (propext, Quot.sound, Classical.choice), faithfulness of the hand-written model as observed by the differential run, harness and orchestrator. The MaxKExceeded error itself carries no non-terminal name; 'names a non-terminal' is realised by the first failing non-terminal of the try_fold / by `parol decidable` listing the failing ones via explain_conflicts, which is what is modelled and checked.",
    "technique": "Lean 4 proof over hand-written model + differential correspondence check + verified reference oracle",
}


def run(ctx):
    return common.standard_flow(ctx, SPEC)


def replay(ctx, payload):
    case = payload.get("case")
    common.build_harness()
    common.lake_build(["parol_model"])
    a = common.impl_lines("c05", [case])[0]
    b = common.model_lines([case])[0]
    o = common.model_lines([oracle_req(case, a)])[0]
    print(f"case: {case}\nimpl: {a}\nmodel: {b}\noracle: {o}")
    return 0 if (a == b and o == "ok") else 1
