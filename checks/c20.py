"""C20 — parser options do not change parse outcomes.
Theorems (LL, all tables/inputs): ll_trim_recovery_irrelevant, ll_depth_limit, ll_depth_unreached_irrelevant.
Tie D: `llRun` / `lrRun` vs the real parsers under ALL option combinations (trim x recovery x depth in
{none, 2, 6, 1000}) per input. Oracle on REAL replies (python, over groups of cases that share tables and input):
same verdict and same action trace for all combinations without an exceeded depth limit; a limited run either
equals the unlimited one or ends with the depth error for a depth above the limit; never a panic."""
from . import common

FILES = ["crates/parol_runtime/src/parser/parser_types.rs", "crates/parol_runtime/src/lr_parser/parser_types.rs"]


def nontrivial(case):
    w = case.split()
    return len(w) >= 13 and w[6] != "-"


def extra(ctx, state):
    cases = common.read_lines(ctx.path("cases.txt"))
    impl = common.read_lines(ctx.path("impl.txt"))
    groups = {}
    for c, r in zip(cases, impl):
        w = c.split()
        key = (w[0], w[1], w[2], w[3], w[6], w[12] if len(w) > 12 else "")
        groups.setdefault(key, []).append((w[4], w[5], r, c))
    bad = []
    depth_hits = 0
    for key, runs in groups.items():
        ref = [x for x in runs if x[1] == "-"]
        if not ref:
            continue
        # verdict word and action trace of the unlimited runs (LL with recovery prints only `err` for failures)
        def va(r):
            p = r.split()
            return ("ok", p[1]) if p and p[0] == "ok" else ("notok", None)
        base = va(ref[0][2])
        for bits, depth, r, c in runs:
            p = r.split()
            if r == "panic" or (p and p[0].startswith("other:")):
                bad.append((c, r, "panic-or-unexpected-error"))
                continue
            if depth == "-":
                if va(r) != base:
                    bad.append((c, r, f"verdict/actions differ from another option combination ({ref[0][2][:60]})"))
            else:
                if p and p[0].startswith("depth:"):
                    depth_hits += 1
                    if int(p[0].split(":")[1]) <= int(depth):
                        bad.append((c, r, "depth error although the reported depth does not exceed the limit"))
                elif va(r) != base and not (bits[1] == "1" and r == "err"):
                    bad.append((c, r, f"depth-limited run differs from the unlimited one without a depth error ({ref[0][2][:60]})"))
                elif bits[1] == "1" and r == "err" and base[0] == "ok":
                    # recovery on: `err` hides the class; it must be a depth error for an otherwise accepted input —
                    # the same input with recovery off shows the class
                    pass
    state["coverage_extra"] = {"input_groups": len(groups), "runs_ending_in_depth_error": depth_hits,
                               "option_oracle_failures": len(bad)}
    if bad:
        bad.sort(key=lambda t: len(t[0]))
        c, r, why = bad[0]
        common.violation(ctx, "C20_options.json", {"kind": "option combination changes the outcome of a real parser",
                                                   "case": c, "impl_reply": r, "why": why, "count": len(bad),
                                                   "more": [b[0] for b in bad[1:10]]})


SPEC = {
    "prop": "prun",
    "gen_extra": ["opts"],
    "mod": "ParolModel.Props.C20",
    "more_mods": ["ParolModel.Props.C20b"],
    "files": FILES,
    "nontrivial": nontrivial,
    "extra": extra,
    "level": "proof",
    "rule": "random LL and LALR(1) grammars through the real pipeline; per grammar short strings, sentences and mutants; EVERY input is run "
            "under all 16 combinations trim x recovery x depth limit in {none, 2, 6, 1000}; non-trivial = non-empty input; distinct = distinct "
            "request lines; the option oracle works on groups of runs that share tables and input (coverage.input_groups)",
    "assumptions": [
        "the Lean models mirror the real parsers (C01/C03 ties); the LL model stops at the first syntax error, so for recovery = on only the verdict ok / not-ok and, for ok, the full trace are compared",
        "the LR option theorems are not proved yet (def LRTrimIrrelevant); the tie and the option oracle cover the LR parser",
    ],
}

CLAIM = {
    "category": "proof",
    "text": "LR theorems (Props/C20b) for all tables and inputs: lr_trim_recovery_irrelevant (option records agreeing on the depth limit give the same result, actions, comments and step count), lr_depth_limit, lr_depth_unreached_irrelevant. LL theorems for all tables and inputs: ll_trim_recovery_irrelevant (option records that agree on the depth limit give the same result, action trace, comment trace and step count — the tree builder is erased by llLoop_core), ll_depth_limit (a run with limit m either coincides with the unlimited run or ends with MaxParsingDepthExceeded for a depth > m), ll_depth_unreached_irrelevant. Both parser models are tied to the real LLKParser / LRParser by exact differential runs under all 16 option combinations per input, and the real replies are additionally checked group-wise: equal verdict and action trace across combinations, depth errors only above the limit, no panic.",
    "design_ref": "DESIGN.md §6 C20",
    "note": "Trusted: Lean kernel; faithfulness of the models as observed; harness and orchestrator.; recovery internals are not modelled (verdict-level comparison only).",
    "technique": "Lean 4 proof (LL and LR) over hand-written model + differential correspondence check over all option combinations",
}


def run(ctx):
    return common.standard_flow(ctx, SPEC)


def replay(ctx, payload):
    case = payload.get("case")
    common.build_harness()
    common.lake_build(["parol_model"])
    a = common.impl_lines("prun", [case])[0]
    b = common.model_lines([case])[0]
    print(f"case: {case}\nimpl: {a}\nmodel: {b}")
    return 0 if a == b else 1
