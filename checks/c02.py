"""C02 — LL(k) parse trees and semantic actions follow the leftmost derivation.
Tie D: as C01 (exact comparison of action trace and tree events of the real LLKParser with `llRun`).
Oracle: the property statement itself, executable (Model/TreeCheck.lean `treeCheck`): on every successful,
untrimmed real run the tree events are well bracketed, every inner node is one production whose
significant children are its right-hand side in order, the actions are the nodes in post-order with
exactly those children, the root holds exactly the start symbol, the leaves are all tokens in order."""
from . import common
from .c01 import FILES


def oracle_req(case, reply):
    w = case.split()
    r = reply.split()
    if w[0] != "ll" or len(w) < 13 or len(r) != 4 or r[0] != "ok":
        return None
    if w[4][0] == "1":
        return None     # trimmed tree: nothing to check (C20 compares the actions)
    return "ll-tree-check " + " ".join(w[1:4]) + " " + w[6] + " " + r[1] + " " + r[2]


def nontrivial(case):
    w = case.split()
    return len(w) >= 13 and w[6].count(",") >= 1


SPEC = {
    "prop": "llrun",
    "gen_extra": ["styled"],
    "mod": "ParolModel.Props.C02",
    "more_mods": ["ParolModel.Props.C02b"],
    "files": FILES,
    "oracle_req": oracle_req,
    "nontrivial": nontrivial,
    "level": "proof",
    "rule": "as C01 but grammars carry %line_comment/%block_comment (1/4 also %allow_unmatched) and every second input is rendered with random "
            "whitespace, newlines (LF, CRLF) and comments between tokens; non-trivial = at least two tokens; distinct = distinct request lines",
    "assumptions": [
        "the Lean function `llRun` mirrors LLKParser::parse_into (push_production, process_item_stack, tree builder calls); agreement of action trace and tree events is observed on the explored runs",
        "table hypotheses TablesSound and `no end-of-production marker inside a right-hand side` are decided per real table set (tablesSoundB, noMarkersB)",
    ],
}

CLAIM = {
    "category": "proof",
    "text": "Props/C02b: ll_dtree (a successful run has a well-formed derivation tree d rooted in the start symbol with frontier = the significant token types, leaves = all delivered tokens, actions = post-order of d, tree events = rendering of d, predictions = pre-order of d), ll_reductions_leftmost (the productions in the order LLKParser predicts them — a ghost trace proved erasable — form a LEFTMOST derivation of the input; each is reported exactly once, ll_actions_perm_predictions), ll_treeCheck_ok (the executable oracle treeCheck that judges every real run is a theorem about the model's own output). Theorem ll_tree_actions: for ALL tables (under the checked hypotheses) and ALL inputs, a successful run of the model of LLKParser::parse_into emits exactly the traversal of a derivation of the start symbol — DS, a derivation forest given by its traversal: one production per non-terminal occurrence, children = its right-hand side in order, node opened before / closed after its children, action (p, children-of-this-application) after the children's actions and before the right siblings' (post-order, once per application); ds_is_derivation: the consumed token types are derived by it in the production table's grammar; ds_action_arity. Proof route: big-step relation SD mirroring the loop (llLoop_SD) and a decomposition lemma (SD_decompose) by strong induction on step count. Tied to the code by the exact differential run of C01 (action trace with argument lists, tree events) on styled inputs; the executable property statement treeCheck is also evaluated on every successful real run.",
    "design_ref": "DESIGN.md §6 C02",
    "note": "Trusted: Lean kernel; faithfulness of the hand-written model as observed by the differential run; harness and orchestrator. Grammars are sampled; the theorem covers all inputs per table set.",
    "technique": "Lean 4 proof over hand-written model + differential correspondence check + executable property statement on real output",
}


def run(ctx):
    return common.standard_flow(ctx, SPEC)


def replay(ctx, payload):
    case = payload.get("case")
    common.build_harness()
    common.lake_build(["parol_model"])
    a = common.impl_lines("llrun", [case])[0]
    b = common.model_lines([case])[0]
    req = oracle_req(case, a)
    o = common.model_lines([req])[0] if req else "n/a"
    print(f"case: {case}\nimpl: {a}\nmodel: {b}\noracle: {o}")
    return 0 if (a == b and o in ("ok", "n/a")) else 1
