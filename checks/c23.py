"""C23 — the typed AST delivered to the user mirrors the input.

Tie (translation validation of the generated adapter, few grammars per run): per grammar the harness
writes a crate (generated parser + generated trait file from the REAL generators, a user struct that
records `format!("{:?}", arg)` of every user-action call), builds it with `cargo build --offline`
against the repository's parol_runtime and runs it on sentences of the grammar. The Debug dumps are
parsed into the model's AST shape and compared byte for byte with the Lean adapter model
(`Model/Adapter.lean::run`) executed on the action trace the REAL parser produced for the same
grammar and text (in-process, `dynparse`). Oracle `c23-check`: decides the property on the real dump
(attribute discipline of the expanded grammar, the trace is a derivation whose leaves are the
significant tokens, start action called exactly once, flatten = non-clipped significant tokens,
every call structurally equal to the declarative AST of the derivation — options present iff they
occurred, repetitions in input order)."""
import os
from . import common

FILES = ["crates/parol/src/generators/user_trait_generator.rs",
         "crates/parol/src/generators/grammar_type_generator.rs",
         "crates/parol/src/generators/template_data.rs",
         "crates/parol/src/transformation/canonicalization.rs",
         "crates/parol-macros/src/macros.rs"]

REC_START_TEXT = ("F28 the start symbol's user action is called once per APPLICATION of the start symbol, not once per parse: "
                  "`%start S %% S: \"a\" [ S ];` on input `a a` calls `s` twice (first with the inner S); LALR(1) `S: S \"a\" | \"b\";` "
                  "on `b a` likewise (site user_trait_generator.rs::generate_user_action_call — every adapter function of a "
                  "non-terminal with a user action calls it)")


def oracle_req(case, reply):
    w = case.split()
    if w[0] != "adapter" or len(w) != 10:
        return None
    calls = reply.split()[1] if reply.startswith("ok ") and len(reply.split()) == 2 else "!" + reply.replace(" ", "_")
    return "c23-check " + " ".join(w[1:8]) + " " + calls


def nontrivial(case):
    w = case.split()
    return "@" in w[5] or "^" in w[5]


def grammar_key(case):
    return case.split()[8]


def extra(ctx, state):
    """(1) coverage figures; (2) the recursive-start witnesses of finding F28."""
    cases = common.read_lines(ctx.path("cases.txt"))
    grams = {}
    for c in cases:
        w = c.split()
        if len(w) == 10:
            grams.setdefault(w[8], []).append(c)
    feats = {"clipped": 0, "repetition": 0, "option": 0, "enum": 0, "lalr": 0, "ll": 0}
    for k, cs in grams.items():
        w = cs[0].split()
        prods = w[5]
        feats["clipped"] += "^" in prods
        feats["repetition"] += "@2" in prods
        feats["option"] += "@3" in prods
        lhs = [p.split(":")[0] for p in prods.split(";") if "@" not in p]
        feats["enum"] += len(lhs) != len(set(lhs))
        feats["lalr" if w[1] == "lr" else "ll"] += 1
    rc, out, err = common.sh([state["binary"], "c23", "witness"])
    wit = [l[3:] for l in out.split("\n") if l.startswith("@@ ")]
    hits, odd = [], []
    if wit:
        reps = common.impl_lines("c23", wit)
        mods = common.model_lines(wit)
        orc = common.model_lines([oracle_req(c, r) or "bad" for c, r in zip(wit, reps)])
        for c, r, m, o in zip(wit, reps, mods, orc):
            if r != m:
                odd.append((c, r, m, o))
            elif o.startswith("fail start-action-called-"):
                hits.append((c, o))
    state["coverage_extra"] = {
        "grammars_compiled_with_rustc": len(grams),
        "grammars_with": feats,
        "inputs_per_grammar": sorted(len(v) for v in grams.values()),
        "recursive_start_witnesses": len(wit),
        "recursive_start_reproduced": len(hits),
        "partial": "the tie covers only the few grammars compiled per run (quick 6, thorough 40)",
    }
    if hits:
        ctx.known.append(f"id=F28 {REC_START_TEXT} (reproduced on {len(hits)} witness(es): oracle `{hits[0][1]}`; "
                         f"theorem start_action_once_counterexample; the model agrees with the implementation)")
    if odd:
        c, r, m, o = odd[0]
        common.violation(ctx, "C23_tie_witness.json", {
            "kind": "model and implementation disagree on a recursive-start witness", "case": c,
            "impl_reply": r, "model_reply": m, "oracle": o, "broken": "correspondence D:c23"}, no_input=True)


SPEC = {
    "prop": "c23",
    "mod": "ParolModel.Props.C23",
    "files": FILES,
    "oracle_req": oracle_req,
    "nontrivial": nontrivial,
    "extra": extra,
    "level": "proof",
    "rule": "hand-picked EBNF grammars (nested repetitions, optionals, groups, clipped terminals and non-terminals, member "
            "names, enum alternatives, LL(k) and LALR(1) incl. left recursion and an augmented start) plus random EBNF grammars "
            "whose alternatives start with their own guard terminal (so they are accepted), each with several sentences drawn "
            "from the grammar; one case = one (grammar, sentence); non-trivial = the expanded grammar has a clipped symbol or a "
            "production attribute; the start symbol of every generated grammar is on no right-hand side (see finding F28)",
    "assumptions": [
        "the Lean machine `run` of Model/Adapter.lean mirrors the generated adapter functions; agreement (all user-action calls, full AST shape) is observed only on the few grammars compiled per run",
        "user-defined types (`: Type`), %nt_type and minimize_boxed_types are out of scope; token identity is the byte offset of the token",
        "the theorems assume the attribute discipline `attrsWF` (decidable; evaluated by the oracle for every explored expanded grammar, after left factoring / augmentation) and, for `start_action_once`, `startIsolated`; that canonicalisation establishes `attrsWF` is NOT proved (full statement `CanonEstablishesAttrsWF`, instance `canon_establishes_attrsWF_partial`)",
        "LL(k): the trace is tied to the parser model by Props/C02.ll_tree_actions (`DS`); LALR(1): the theorems are about the post-order trace of a derivation forest — that the LR driver emits such a trace is C03's statement, here it is checked per run by the oracle (`forestOfTrace`, `wf`, trace equality)",
    ],
}

CLAIM = {
    "category": "proof",
    "text": "Lean theorems about a stack-machine model of the generated adapter (one rule per production derived from the production/symbol attributes as generate_stack_pops / generate_result_builder / generate_push_semantic / generate_stack_push and pop_item!/pop_and_reverse_item! do): for every expanded grammar satisfying the attribute discipline attrsWF and every derivation, running the adapter over the post-order action trace leaves exactly one AST for the start symbol, equal to the declarative AST of the derivation (adapter_eq_spec), whose flattening is the list of non-clipped tokens in input order (ast_flatten_eq_tokens, also stated for successful runs of the LL(k) parser model via ll_tree_actions), Option members are Some iff the OptionalSome production was applied (option_iff_occurred), a Vec member lists the values of the repetition's iterations in input order for LL (reversed once at the anchor) and LALR (repeat_in_order), and the start action is called exactly once when the start symbol is on no right-hand side (start_action_once; counterexample for a recursive start symbol proved). Tie: PARTIAL — per run only 6 (quick) / 40 (thorough) grammars are compiled with rustc and their real Debug dumps compared with the model and judged by the oracle.",
    "design_ref": "DESIGN.md §6 C23",
    "note": "Trusted: Lean kernel; faithfulness of the hand-written adapter model as observed on the few compiled grammars; harness (crate writer, Debug-dump parser, numeric encoding of cfg.pr and of the real trace); rustc/cargo; orchestrator. New finding F28 (recursive start symbol: start action called more than once) is reproduced on its witnesses on every run.",
    "technique": "Lean 4 proof over hand-written model + translation validation of generated code on compiled samples",
}


def run(ctx):
    os.environ.setdefault("C23_WORK", ctx.workdir)
    return common.standard_flow(ctx, SPEC)


def replay(ctx, payload):
    os.environ.setdefault("C23_WORK", ctx.workdir)
    case = payload.get("case")
    common.build_harness()
    common.lake_build(["parol_model"])
    a = common.impl_lines("c23", [case])[0]
    b = common.model_lines([case])[0]
    o = common.model_lines([oracle_req(case, a)])[0]
    print(f"case: {case}\nimpl: {a}\nmodel: {b}\noracle: {o}")
    return 0 if (a == b and o == "ok") else 1
