"""C30 — language-server requests never crash the server.

Two parts, two levels:
 * conversion clause (proof): Lean theorems about `posToOffset`/`extractTextRange`, tied to the real
   `utils::pos_to_offset` / `utils::extract_text_range` by an exhaustive differential run (tie D)
   through the second harness binary `pv_ls`, plus the property oracle on every reply;
 * handler clause (exploration, labelled): a real `Server` with an open document is sent every
   request kind at every position of repository grammars and broken variants under
   `catch_unwind` (`pv_ls c30 explore`). Panics are violations unless attributed to a listed
   finding (F17) by a structural predicate and a counterfactual re-run."""
import os, re, subprocess, time
from . import common

FILES = ["crates/parol-ls/src/utils.rs"]
EXPLORED_FILES = ["crates/parol-ls/src/server.rs", "crates/parol-ls/src/handler.rs",
                  "crates/parol-ls/src/parol_ls_grammar.rs", "crates/parol-ls/src/document_state.rs",
                  "crates/parol-ls/src/formatting/format/format_impl.rs"]


def oracle_req(case, reply):
    w = case.split()
    if w[0] == "ls-pos":
        return "ls-pos-check " + " ".join(w[1:]) + " " + reply
    if w[0] == "ls-extract":
        return "ls-extract-check " + " ".join(w[1:]) + " " + reply
    return None          # ls-pos-old: pre-repair function, model tie only


def nontrivial(case):
    w = case.split()
    if w[1] == "-":
        return False
    t = bytes.fromhex(w[1])
    # more than one line or a multi-byte character, and a position that is not the origin
    return (b"\n" in t or any(b >= 0x80 for b in t)) and any(x != "0" for x in w[2:])


def scan_par(text):
    """Light-weight scan of PAR text: strings "..", raw strings '..', regexes /../ (backslash
    escapes), // and /* */ comments. Returns (index of the last `;` outside all of those or -1,
    start indices of the comments, the text with comments and literals blanked out — same length,
    line breaks kept)."""
    i, n = 0, len(text)
    last_semi, comments, code = -1, [], list(text)

    def blank(a, b):
        for k in range(a, min(b, n)):
            if code[k] not in "\r\n":
                code[k] = " "

    while i < n:
        c = text[i]
        if text.startswith("//", i):
            comments.append(i)
            j = text.find("\n", i)
            j = n if j < 0 else j + 1
            blank(i, j)
            i = j
        elif text.startswith("/*", i):
            comments.append(i)
            j = text.find("*/", i + 2)
            j = n if j < 0 else j + 2
            blank(i, j)
            i = j
        elif c in "\"'/":
            j = i + 1
            while j < n and text[j] != c:
                j += 2 if text[j] == "\\" else 1
            blank(i, j + 1)
            i = j + 1
        else:
            if c == ";":
                last_semi = i
            i += 1
    return last_semi, comments, "".join(code)


def comment_after_last_semicolon(text):
    """Structural signature of finding F17, evaluated on the document text: does some comment start
    after the last `;` (outside strings/regexes/comments)? Returns (flag, the text with everything
    after that `;` removed)."""
    last_semi, comments, _ = scan_par(text)
    flag = last_semi >= 0 and any(p > last_semi for p in comments)
    return flag, (text[:last_semi + 1] + "\n" if last_semi >= 0 else text)


def unhex(h):
    return "" if h == "-" else bytes.fromhex(h).decode("utf-8")


def tohex(s):
    return s.encode("utf-8").hex() if s else "-"


T_TYPE = re.compile(r"%t_type\b")
T_TYPE_DECL = re.compile(r"%t_type\s*(?:[A-Za-z_]\w*(?:\s*::\s*[A-Za-z_]\w*)*)?")


def t_type_count(text):
    """Number of `%t_type` keywords outside comments and literals."""
    return len(T_TYPE.findall(scan_par(text)[2]))


def blank_later_t_types(text):
    """Blanks every `%t_type <type name>` declaration after the first (comments in between stay;
    line breaks are kept, so the positions of everything else stay the same)."""
    code = scan_par(text)[2]
    out = list(text)
    for m in list(T_TYPE_DECL.finditer(code))[1:]:
        for k in range(m.start(), m.end()):
            if code[k] not in " \r\n":      # a character of the declaration itself (comments are blank in `code`)
                out[k] = " "
    return "".join(out)


# Listed findings that the handler exploration can hit: id -> (structural predicate on
# (request, panic location, text), counterfactual text transformation under which the same request
# must succeed — otherwise the panic is NOT explained by the finding and is reported as new).
SIGNATURES = {
    # comment after the last production -> debug assertion on left-over comments in the formatter
    "F17": (lambda req, at, text: req == "formatting" and at.startswith("format_impl.rs:")
            and comment_after_last_semicolon(text)[0],
            lambda text: comment_after_last_semicolon(text)[1]),
    # more than one %t_type declaration -> debug_assert!(ranges.len() == 1) in hover over a terminal
    "F22": (lambda req, at, text: req == "hover" and at.startswith("parol_ls_grammar.rs:")
            and t_type_count(text) >= 2,
            blank_later_t_types),
}


def attribute_panic(request, at, text):
    """Known-finding id for an explored handler panic, or None (structural predicates above)."""
    for fid, (pred, _) in SIGNATURES.items():
        if pred(request, at, text):
            return fid
    return None


def explore(ctx, state):
    """Handler exploration (labelled `exploration` in the evidence)."""
    binary = state["binary"]
    out_p = ctx.path("explore.txt")
    t0 = time.time()
    with open(out_p, "w") as fo:
        p = subprocess.run([binary, "c30", "explore", str(ctx.seed), ctx.tier], stdout=fo,
                           stderr=subprocess.DEVNULL, timeout=3000)
    lines = common.read_lines(out_p)
    summary = [l for l in lines if l.startswith("summary ")]
    if p.returncode != 0 or not summary:
        last = [l for l in lines if l.startswith("text ")][-1:] or ["<none>"]
        common.violation(ctx, "C30_explore_run.json", {
            "kind": "the exploration driver itself died (a panic that escaped catch_unwind, an abort or a stack overflow)",
            "last_completed_text": last[0], "returncode": p.returncode}, no_input=True)
        state["coverage_extra"] = {"handler_exploration": {"level": "exploration", "completed": False}}
        return
    sm = dict(kv.split("=", 1) for kv in summary[0].split()[1:])
    by_request = {}
    for item in sm["by_request"].split(","):
        k, n, pn, ms = item.split(":")
        by_request[k] = {"requests": int(n), "panics": int(pn), "ms": int(ms)}
    panics = []
    for l in lines:
        if l.startswith("panic "):
            w = l.split(" ")
            panics.append({"request": w[1], "line": w[2], "col": w[3], "name": w[4], "at": w[5], "hex": w[6]})
    known = {k["id"]: k for k in common.load_known(ctx.pid)}
    hits, new = {}, []
    for pn in panics:
        text = unhex(pn["hex"])
        fid = attribute_panic(pn["request"], pn["at"], text)
        if fid and fid in known:
            hits.setdefault(fid, []).append(pn)
        else:
            new.append(pn)
    # counterfactual: with only the finding's trigger removed from the text the same request must succeed
    for fid in list(hits):
        cf_cases = [f"handler {tohex(SIGNATURES[fid][1](unhex(pn['hex'])))} {pn['request']} {pn['line']} {pn['col']}"
                    for pn in hits[fid]]
        reps = common.impl_lines("c30", cf_cases, binary=binary)
        confirmed = []
        for pn, case, rep in zip(hits[fid], cf_cases, reps):
            if rep == "ok":
                confirmed.append(pn)
            else:
                new.append(dict(pn, counterfactual_case=case, counterfactual_reply=rep))
        hits[fid] = confirmed
    for fid, hs in hits.items():
        if not hs:
            continue
        hs.sort(key=lambda h: len(h["hex"]))
        w = hs[0]
        texts = len(set(h["hex"] for h in hs))
        ctx.known.append(f"{fid} key={known[fid]['key']} {known[fid]['text']} (reproduced on {texts} explored text(s); "
                         f"smallest: `handler {w['hex']} {w['request']} {w['line']} {w['col']}` = {unhex(w['hex'])!r}, panic at {w['at']})")
    if new:
        new.sort(key=lambda h: len(h["hex"]))
        w = new[0]
        common.violation(ctx, "C30_handler_panic.json", {
            "kind": "a language-server request handler panicked (exploration)",
            "case": f"handler {w['hex']} {w['request']} {w['line']} {w['col']}",
            "request": w["request"], "position": [w["line"], w["col"]], "panic_at": w["at"],
            "text": unhex(w["hex"]), "text_name": w["name"],
            "counterfactual": {k: w[k] for k in w if k.startswith("counterfactual")},
            "further": [f"handler {h['hex']} {h['request']} {h['line']} {h['col']}" for h in new[1:10]],
            "count": len(new)})
    probe = [l for l in lines if l.startswith("probe unopened-uri ")]
    probe = dict(kv.split("=", 1) for kv in probe[0].split()[2:]) if probe else {}
    if any(v != "ok" for v in probe.values()):
        ctx.notes.append("outside the property's quantifier (document not open): requests naming a URI the server has never seen panic in "
                         + ", ".join(f"{k} ({v})" for k, v in probe.items() if v != "ok") + " — `documents.get(uri).unwrap()` in server.rs")
    rc, stale, _ = common.sh([binary, "stale"])
    stale = stale.strip()
    if stale != "fresh":
        ctx.notes.append("parol-ls's checked-in generated parser differs from a fresh generation from parol_ls.par: " + stale)
    state["coverage_extra"] = {"handler_exploration": {
        "level": "exploration",
        "completed": True,
        "texts": int(sm["texts"]), "base_texts": int(sm["base"]),
        "requests": int(sm["requests"]), "panics": int(sm["panics"]),
        "by_request": by_request,
        "panic_lines_attributed_to_known_findings": {k: len(v) for k, v in hits.items()},   # at most 3 lines per request kind and text are printed
        "unattributed_panics": len(new),
        "probe_unopened_uri_not_part_of_the_property": probe,
        "rule": "base texts: hand-written boundary documents, examples/**/*.par, crates/parol/src/parser/parol.par "
                "(thorough: + parol_ls.par, parol-ls/data/input/*.par); per base text 3 (quick) / 20 (thorough) seeded mutants "
                "(truncate, delete span, insert token/Unicode/line-end snippet, LF->CRLF, duplicate/swap lines, multi-byte letter, "
                "comment in place of a blank, comment after the last production, an additional declaration line); per text: open, symbols, formatting x3 option sets, "
                "and hover/definition/prepare-rename/rename/code-action (4 diagnostics per request: both handled codes x forward/next-line/reversed/empty ranges, alternating with position parity) at every "
                "(line, column) incl. 2 columns past each line end and 2 lines past the end (quick: seeded sample of 250 positions per base text and 100 per mutant; thorough: all positions of base texts, 60 per mutant) plus 5 far-out positions (u32::MAX)",
        "samples": [l for l in lines if l.startswith("text ")][:3] + [l[:200] for l in lines if l.startswith("panic ")][:2],
        "explored_files": EXPLORED_FILES,
        "explored_source_fingerprint": common.fingerprint(EXPLORED_FILES),
        "generated_parser": stale,
        "wall_s": round(time.time() - t0, 1),
    }}


SPEC = {
    "prop": "c30",
    "mod": "ParolModel.Props.C30",
    "files": FILES,
    "bins": ("pv_ls",),
    "binary": "pv_ls",
    "oracle_req": oracle_req,
    "nontrivial": nontrivial,
    "extra": explore,
    "level": "proof",
    "rule": "tie D, exhaustive: all texts of <= 4 (quick) / <= 6 (thorough) units over {a, U-umlaut, CR, LF, U+1F600} x all positions "
            "(line 0..3, character 0..8) for pos_to_offset (quick: plus a 1-in-12 sample of the 5- and 6-unit texts); all texts <= 3/4 units "
            "x all pairs of positions up to (2,4) for extract_text_range; all texts <= 4 units x positions up to (3,5) for the pre-repair "
            "function against the pre-repair model; random texts of 5..14 units with positions up to 12 and 4e9. "
            "non-trivial = text has a line break or a multi-byte character and the position is not the origin; distinct = distinct request lines",
    "assumptions": [
        "the Lean functions posToOffset/extractTextRange mirror utils::pos_to_offset/extract_text_range (str as List Char, byte offsets as sums of Char.utf8Size, str::lines as split_inclusive + strip of \\n then \\r, split_at panics as none); agreement is observed on the explored cases (exact comparison of offsets, extracted text and panics)",
        "usize/u32 are modelled as unbounded Nat; the only wrap-around that matters (end - start in extract_text_range) is modelled as a panic, which is what debug builds do and what the following split_at does in release builds",
        "handler totality is NOT proved: it is explored on a real Server (in-memory connection, background analysis limited to k = 1) and reported under coverage.handler_exploration with level `exploration`",
    ],
}

CLAIM = {
    "category": "proof",
    "text": "Conversion clause — proof: theorems pos_to_offset_total, offset_le_len, offset_on_char_boundary (for ALL texts, incl. CRLF and multi-byte characters, and ALL positions, incl. past line ends and past the last line, the current pos_to_offset returns an offset <= len on a character boundary), extract_no_panic_iff (extract_text_range panics exactly when the end offset lies before the start offset), extract_no_panic_of_le (never for an ordered range) and extract_is_slice hold for the Lean model, a statement-by-statement mirror of crates/parol-ls/src/utils.rs that is tied to the code by an exhaustive differential run (all texts <= 6 units over a 5-letter alphabet with 1-, 2- and 4-byte characters, CR and LF x all positions up to (3,8)) through the harness binary pv_ls, which compiles the current parol-ls sources as its own modules; every reply is also judged by the oracle (offset <= len, on a boundary). The pre-repair function (finding F9) is kept as posToOffset false with checked counterexamples. "
            "Handler clause — EXPLORATION only (labelled in the evidence under coverage.handler_exploration): hover, go-to-definition, document symbols, prepare-rename, rename, formatting and code-action requests are sent to a real Server (document opened through the server's own didOpen handler over an in-memory connection) at every position, including out-of-range ones, of the repository's grammars and of seeded broken variants, under catch_unwind; any panic is a violation with text+request as replay, except panics attributed to a listed finding by a structural predicate on (request, panic location, text) and confirmed counterfactually by re-running the same request on the text with only the trigger removed: F17 (formatting, debug assertion in format_impl.rs, comment after the last production) and F22 (hover, debug assertion in parol_ls_grammar.rs, more than one %t_type declaration).",
    "design_ref": "DESIGN.md §6 C30",
    "note": "Level is proof for the position-to-offset clause and exploration for 'handlers return without panicking' (no model of the handlers exists; absence of panics is only observed on the explored texts). Trusted: Lean kernel (propext, Quot.sound, Classical.choice), faithfulness of the hand-written model as observed by the differential run, Lean's String.fromUTF8? and Rust's str for transporting texts, harness and orchestrator. Known findings F17 and F22 (both debug assertions; release builds do not panic there) are reproduced on every run and reported as KNOWN-FINDING.",
    "technique": "Lean 4 proof over hand-written model + exhaustive differential correspondence check; catch_unwind exploration of the real server for the handler clause",
}


def run(ctx):
    return common.standard_flow(ctx, SPEC)


def replay(ctx, payload):
    case = payload.get("case")
    common.build_harness(("pv_ls",))
    common.lake_build(["parol_model"])
    a = common.impl_lines("c30", [case], binary=common.PV_LS)[0]
    if case.startswith("handler "):
        w = case.split()
        print(f"case: {case[:200]}\ntext: {unhex(w[1])!r}\nrequest: {w[2]} at ({w[3]},{w[4]})\nimpl: {a}")
        return 0 if a == "ok" else 1
    b = common.model_lines([case])[0]
    oreq = oracle_req(case, a)
    o = common.model_lines([oreq])[0] if oreq else "ok"
    print(f"case: {case}\nimpl: {a}\nmodel: {b}\noracle: {o}")
    return 0 if (a == b and o == "ok") else 1
