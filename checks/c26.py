"""C26 — parol never panics on any grammar text.

Two parts, kept apart in the evidence:

 (a) PROOF part (modelled stages only). `lean/ParolModel/Model/PanicSites.lean` holds the table of every
     panic-capable construct of the sixteen modelled source files, grouped by (file, function, kind), with the
     way each group is discharged; `Props/C26.lean` holds the chain theorems (`stage_total_*`,
     `pre_established_*`) and checks at compile time that every theorem the table names exists. The tie is the
     standard differential run on the cases `sites <file>`: the harness scans /repo's CURRENT sources, the
     Lean driver answers from the table; any difference (a new, removed or moved panic site in a modelled file)
     is reported by the standard flow as `VIOLATION … no-failing-input-found` whose replay names the file.

 (b) EXPLORATION part (not a proof) for everything that has no model — PAR front end and its actions,
     `GrammarConfig::try_from`, type deduction, symbol table, source rendering, lalry, scnr2_generate — and for
     the whole pipeline end to end: `pv c26 xgen` produces grammar texts (every *.par file of the repository
     unmutated, byte-level and token-level mutants, structured valid grammars with every combination of the
     prolog annotations, adversarial families), `pv c26 xrun` pushes each through the real
     `GrammarGenerator::{parse, expand, post_process, write_output}` under `catch_unwind` (both grammar types,
     K = 1..5 and the limits around MAX_K, Rust and C# back ends). Every panic is attributed by a line-free
     signature (crate-relative file + first words of the message) to a listed finding or reported as VIOLATION
     with the delta-debugged grammar. A process that dies (stack overflow, abort) or exceeds the time limit is
     detected per case and reported the same way."""
import os, re, subprocess, time
from concurrent.futures import ThreadPoolExecutor
from . import common

FILES = ["crates/parol/src/" + f for f in [
    "transformation/canonicalization.rs", "transformation/left_factoring.rs", "transformation/lr_augmentation.rs",
    "grammar/cfg.rs", "analysis/productivity.rs", "analysis/reachability.rs", "analysis/left_recursion.rs",
    "analysis/first.rs", "analysis/follow.rs", "analysis/k_decision.rs", "analysis/k_tuple.rs",
    "analysis/k_tuples.rs", "analysis/compiled_terminal.rs", "analysis/lookahead_dfa.rs",
    "analysis/compiled_la_dfa.rs", "utils/mod.rs"]]

WORKERS = 4
CHUNK_TIMEOUT = {"quick": 150, "thorough": 780}     # seconds per worker process (all its cases)


# ---------------------------------------------------------------------------------------------
# wire format of grammar texts (bytes): [A-Za-z0-9_] literal, other bytes %HH, empty text %.

def dec_text(w):
    if w == "%.":
        return ""
    b = bytearray()
    i = 0
    while i < len(w):
        if w[i] == "%":
            b.append(int(w[i + 1:i + 3], 16))
            i += 3
        else:
            b.append(ord(w[i]))
            i += 1
    return b.decode("utf-8", errors="replace")


def enc_text(s):
    if s == "":
        return "%."
    return "".join(chr(c) if (chr(c).isalnum() and c < 128) or c == 95 else "%%%02X" % c for c in s.encode("utf-8"))


def one_line(s, limit=400):
    s = " ".join(s.split())
    return s if len(s) <= limit else s[:limit] + f"… ({len(s)} characters)"


# ---------------------------------------------------------------------------------------------
# signatures of the listed findings (line-free: crate-relative file + first words of the panic message)

def signature(case, reply):
    """`<stage> <file> <message>` of a `panic` reply."""
    w = reply.split()
    if len(w) < 3 or w[0] != "panic":
        return None
    stage, loc = w[1], w[2]
    msg = w[3] if len(w) > 3 else "no_message"
    return stage, loc.rsplit(":", 1)[0], msg


def finding_key(case, reply):
    """key (known_findings.txt `key=`) of the listed finding whose signature the panic has, or None."""
    sig = signature(case, reply)
    if not sig:
        return None
    stage, f, msg = sig
    if re.search(r"(^|/)lalry-[^/]*/src/lib\.rs$", f) and msg.startswith("internal_error_entered_unreachable_code") and stage == "analyse":
        return "lalry-lib.rs-unreachable"
    if f == "parol/src/analysis/k_tuple.rs" and "number_of_bits" in msg:
        return "Terminals::new-bits"
    if f == "parol/src/utils/mod.rs" and msg.startswith("attempt_to_add_with_overflow"):
        return "generate_name-counter-overflow"
    if re.search(r"(^|/)scnr2_generate-[^/]*/src/scanner_mode\.rs$", f) and msg.startswith("Transitions_are_not_sorted"):
        return "duplicate-scanner-transition"
    if f == "parol/src/analysis/k_decision.rs" and msg.startswith("index_out_of_bounds"):
        cw = case.split()
        if cw[0] == "xapi" and cw[1].isdigit() and int(cw[1]) > 10:
            return "lookahead-cache-index"
    return None


# ---------------------------------------------------------------------------------------------
# running the exploration

def _pv(args, inp=None, timeout=None):
    p = subprocess.run([common.PV, "c26"] + args, input=inp, capture_output=True, text=True, timeout=timeout,
                       errors="replace")
    return p


def exploration_cases(ctx):
    p = os.path.join(common.VERIF, "corpus", "C26_x.txt")
    corpus = []
    if os.path.exists(p):
        corpus = [l for l in common.read_lines(p) if l.strip() and not l.startswith("#")]
    out = _pv(["xgen", str(ctx.seed), ctx.tier]).stdout
    gen = [l for l in out.split("\n") if l]
    return corpus, gen


def run_chunk(cases, budget):
    """Answers `cases` with `pv c26 xrun`, restarting after a case that kills the process (reply
    `abort <how>`) or after the time budget of this chunk is used up (reply `timeout`; all later cases of the
    chunk are answered `not-run`)."""
    replies = []
    t_end = time.time() + budget
    while len(replies) < len(cases):
        rest = cases[len(replies):]
        left = t_end - time.time()
        if left <= 1:
            replies.append("timeout")
            replies += ["not-run"] * (len(cases) - len(replies))
            break
        try:
            p = subprocess.run([common.PV, "c26", "xrun"], input="\n".join(rest) + "\n", capture_output=True,
                               text=True, errors="replace", timeout=left)
            got = [l[3:] for l in p.stdout.split("\n") if l.startswith("@@ ")]
            rc = p.returncode
        except subprocess.TimeoutExpired as e:
            out = e.stdout or ""
            if isinstance(out, bytes):
                out = out.decode("utf-8", errors="replace")
            got = [l[3:] for l in out.split("\n") if l.startswith("@@ ")]
            rc = "timeout"
        got = got[:len(rest)]
        replies += got
        if len(got) < len(rest):
            if rc == "timeout":
                replies.append("timeout")
                replies += ["not-run"] * (len(cases) - len(replies))
            else:
                replies.append(f"abort exit-status-{rc}")
    return replies


def run_exploration(ctx, cases):
    chunks = [cases[i::WORKERS] for i in range(WORKERS)]
    budget = CHUNK_TIMEOUT["thorough" if ctx.thorough else "quick"]
    with ThreadPoolExecutor(max_workers=WORKERS) as ex:
        res = list(ex.map(lambda c: run_chunk(c, budget), chunks))
    replies = [None] * len(cases)
    for w, r in enumerate(res):
        for j, x in enumerate(r):
            replies[w + j * WORKERS] = x
    return replies


def shrink(cases):
    """[(shrunk case, reply)] for panicking cases (in-process delta debugging by the harness)."""
    if not cases:
        return []
    try:
        p = _pv(["shrink"], "\n".join(cases) + "\n", timeout=240)
        out = p.stdout
    except subprocess.TimeoutExpired as e:
        out = e.stdout or ""
        if isinstance(out, bytes):
            out = out.decode("utf-8", errors="replace")
    res = []
    for l in out.split("\n"):
        if l.startswith("@@ ") and " ## " in l:
            rep, case = l[3:].split(" ## ", 1)
            res.append((case, rep))
    res += [(c, "shrink-failed") for c in cases[len(res):]]
    return res


def case_text(case):
    return dec_text(case.split()[-1])


def describe(case):
    w = case.split()
    if w[0] == "xapi":
        return f"library functions called directly with max_k={w[1]}"
    gt = {"as": "grammar type as written", "ll": "forced LL(k)", "lr": "forced LALR(1)"}[w[1]]
    return f"{gt}, max_k={w[2]}, {'C#' if w[3] == 'cs' else 'Rust'} back end" + (", raw bytes" if w[0] == "xraw" else "")


# ---------------------------------------------------------------------------------------------
# axioms of the theorems the table refers to

REF_TMPL = """import Lean
import ParolModel.Props.C26b
open Lean Elab Command ParolModel.Panic
run_cmd do
  let names := ((panicSites2.flatMap (·.dischargedBy)) ++ chain2.filterMap (·.totalBy) ++ chain2.filterMap (·.preEstablishedBy)).eraseDups
  for s in names do
    let ax ← collectAxioms s.toName
    logInfo m!"REF {s} :: {ax.toList}"
"""


def referenced_theorems():
    f = os.path.join(common.WORK, "c26_refs.lean")
    os.makedirs(common.WORK, exist_ok=True)
    open(f, "w").write(REF_TMPL)
    rc, out, err = common.sh(["lake", "env", "lean", f], cwd=common.LEAN, timeout=900)
    refs = {}
    for m in re.finditer(r"REF (\S+) :: \[(.*?)\]", out + err, flags=re.S):
        refs[m.group(1)] = [a.strip() for a in m.group(2).replace("\n", " ").split(",") if a.strip()]
    return rc == 0, refs


# ---------------------------------------------------------------------------------------------

def extra(ctx, state):
    listed = {k["key"]: k for k in common.load_known(ctx.pid)}
    # --- the table, as the Lean driver sees it
    summ = common.model_lines(["c26-summary2"])[0]     # the UPDATED table (Model/PanicSites2.lean)
    table = {k: int(v) for k, v in (x.split("=") for x in summ.split())} if "=" in summ else {}
    okr, refs = referenced_theorems()
    nonstd = {n: [a for a in ax if a not in common.ALLOWED_AXIOMS] for n, ax in refs.items()}
    nonstd = {n: ax for n, ax in nonstd.items() if ax}
    bad_ax = {n: ax for n, ax in nonstd.items() if not all(re.fullmatch(r".*\._native\.bv_decide\.ax_.*", a) for a in ax)}
    if not okr or not refs or bad_ax:
        common.violation(ctx, f"{ctx.pid}_refs.json", {
            "kind": "a theorem named by the panic-site table could not be audited or depends on an axiom that is not accepted",
            "broken": "ParolModel.Props.C26 (table → theorem references)", "problems": bad_ax or "audit script failed"},
            no_input=True)

    # --- exploration
    corpus, gen = exploration_cases(ctx)
    cases = corpus + gen
    t0 = time.time()
    replies = run_exploration(ctx, cases)
    wall = round(time.time() - t0, 1)
    stats = {"ok": 0, "err": {}, "panic": 0, "abort": 0, "timeout": 0, "not-run": 0, "other": 0}
    hits = {}     # finding key -> [case]
    unknown = []  # (case, reply)
    for c, r in zip(cases, replies):
        w = (r or "missing").split()
        if w[0] == "ok":
            stats["ok"] += 1
        elif w[0] == "err":
            stats["err"][w[1]] = stats["err"].get(w[1], 0) + 1
        elif w[0] == "panic":
            stats["panic"] += 1
            k = finding_key(c, r)
            if k and k in listed:
                hits.setdefault(k, []).append(c)
            else:
                unknown.append((c, r))
        elif w[0] in ("abort", "timeout"):
            stats[w[0]] += 1
            unknown.append((c, r))
        elif w[0] == "not-run":
            stats["not-run"] += 1
        else:
            stats["other"] += 1
            unknown.append((c, r))

    # --- known findings: one line each, with the shrunk witness
    minimal = {}
    reps = [min(cs, key=lambda c: (len(c), c)) for k, cs in sorted(hits.items())]
    for (k, cs), (sc, rep) in zip(sorted(hits.items()), shrink(reps)):
        f = listed[k]
        same = rep.startswith("panic") and finding_key(sc, rep) == k
        wit = sc if same else min(cs, key=lambda c: (len(c), c))
        minimal[f["id"]] = {"case": wit, "grammar": case_text(wit), "reply": rep if same else None, "count": len(cs)}
        ctx.known.append(f"{f['id']} {f['text']} (reproduced on {len(cs)} case(s); shrunk witness, {describe(wit)}: "
                         f"`{one_line(case_text(wit))}`)")

    # --- everything else is a violation, with the shrunk grammar as replay
    if unknown:
        pan = [(c, r) for c, r in unknown if r.startswith("panic")]
        groups = {}
        for c, r in pan:
            groups.setdefault(signature(c, r), []).append(c)
        shr = shrink([min(cs, key=len) for _, cs in sorted(groups.items(), key=lambda t: str(t[0]))])
        reports = []
        for (sig, cs), (sc, rep) in zip(sorted(groups.items(), key=lambda t: str(t[0])), shr):
            reports.append({"signature": " ".join(sig), "cases": len(cs), "case": sc if rep.startswith("panic") else min(cs, key=len),
                            "grammar": case_text(sc if rep.startswith("panic") else min(cs, key=len)),
                            "impl_reply": rep, "configuration": describe(sc)})
        for c, r in unknown:
            if not r.startswith("panic"):
                reports.append({"signature": r, "cases": 1, "case": c, "grammar": one_line(case_text(c), 2000),
                                "impl_reply": r, "configuration": describe(c)})
        reports.sort(key=lambda d: len(d["case"]))
        first = reports[0]
        common.violation(ctx, f"{ctx.pid}_panic.json", {
            "kind": "a stage of the real pipeline panicked / died / did not finish on a grammar text, and the panic matches no listed finding",
            "case": first["case"], "grammar": first["grammar"], "impl_reply": first["impl_reply"],
            "configuration": first["configuration"], "all": reports[:30], "count": len(unknown)})

    reached = {c for c, r in zip(cases, replies) if r and r.split()[0] in ("ok", "err", "panic", "abort", "timeout")
               and r not in ("err parse", "err config")}
    pick = sorted(reached, key=lambda c: (len(c), c))
    samples = [f"{describe(c)}: {one_line(case_text(c), 160)}" for c in (pick[:3] + pick[len(pick) // 2:len(pick) // 2 + 3])]
    state["coverage_extra"] = {
        # the generic keys describe the EXPLORATION (the claimed level); the census tie keeps its own block
        "evaluations": len(cases),
        "distinct_nontrivial": len(reached),
        "rule": "exploration case = (grammar text, grammar type override, lookahead limit, back end) run through the real pipeline; non-trivial = the "
                "text passed the PAR front end (reply is not `err parse` / `err config`), i.e. checking, transformation, analysis or generation "
                "actually ran; distinct = distinct case lines. " + SPEC["rule"],
        "samples": samples,
        "census_tie": {"cases": state["evaluations"], "disagreements": len(state["diffs"])},
        "panic_site_table": {
            "note": "PROOF part, modelled stages only. Sites are grouped by (file, outermost function, kind); "
                    "`theorem` = discharged by named Lean theorems (under the stage precondition), `localguard`/`constant` = "
                    "discharged by inspection (guard a few lines above / compile-time constant), `offpath` and `open` = NOT discharged",
            "sites_listed": table.get("sites"), "discharged_by_theorem": table.get("theorem"),
            "discharged_by_inspection": (table.get("localguard", 0) + table.get("constant", 0)) if table else None,
            "not_discharged_off_path": table.get("offpath"), "not_discharged_open": table.get("open"),
            "chain_links": table.get("links"), "links_with_totality_theorem": table.get("total"),
            "links_with_pre_established_theorem": table.get("pre"),
            "files_compared_with_current_sources": len(FILES),
            "theorems_referenced_by_table": len(refs),
            "referenced_theorems_with_bv_decide_axioms": sorted(nonstd.keys()),
        },
        "exploration": {
            "note": "EXPLORATION, not proof: real pipeline under catch_unwind on generated and mutated grammar texts",
            "cases": len(cases), "from_corpus": len(corpus), "wall_s": wall, "workers": WORKERS,
            "ok": stats["ok"], "err_by_stage": stats["err"], "panics": stats["panic"], "aborts": stats["abort"],
            "timeouts": stats["timeout"], "not_run_after_timeout": stats["not-run"],
            "panics_attributed_to_listed_findings": {listed[k]["id"]: len(v) for k, v in sorted(hits.items())},
            "unattributed": len(unknown),
            "shrunk_witnesses": minimal,
            "rule": "every *.par file under the repository as is (own grammar type; forced LL/LALR and C# on a subset); byte-level mutants "
                    "(bit flips, random/interesting bytes, insert/delete/duplicate chunks, truncation, swaps; invalid UTF-8 rendered "
                    "lossily and, on a subset, handed over raw) and token-level mutants (swap/delete/duplicate tokens, unbalanced brackets, "
                    "stray directives, duplicated productions) of every file, plus all configurations (LL k=1..5, LALR) on mutants of the "
                    "files ≤ 4000 bytes; structured EBNF grammars with every combination of 9 prolog annotations (comments, auto_newline_off, "
                    "auto_ws_off, allow_unmatched, t_type, nt_type, user_type, scanner states with %on/%enter/%push/%pop/%skip) and random "
                    "symbol decorations (cut, member names, user types, lookahead, three terminal kinds, scanner-state prefixes); adversarial "
                    "families (huge alternations, deep nesting, ≥ 4090 terminals, empty productions, undefined/duplicate/left-recursive "
                    "non-terminals, duplicate scanner names, %on to unknown states, conflicting LALR grammars, invalid regexes, very long "
                    "names); lookahead limits 0..1000000 through the Builder and 0..64 through the public functions",
        },
    }


def nontrivial(case):
    return case.startswith("sites ")


SPEC = {
    "prop": "c26",
    "mod": "ParolModel.Props.C26",
    "more_mods": ["ParolModel.Props.C26b"],
    "files": FILES,
    "nontrivial": nontrivial,
    "extra": extra,
    "level": "exploration",
    "allow_axioms": [r".*\._native\.bv_decide\.ax_.*"],
    "rule": "tie of the proof part: one case `sites <file>` per modelled source file (16); the harness counts the panic-capable constructs "
            "of the CURRENT source per (function, kind), the Lean driver answers from the table `ParolModel.Panic.panicSites`; replies must "
            "be identical. Exploration: see exploration.rule",
    "assumptions": [
        "the census is syntactic: `panic!`, `unreachable!`/`unimplemented!`/`todo!`, `.unwrap()`, `.expect(`, `assert*!`, `debug_assert*!`, indexing/slicing "
        "`x[..]` after an identifier/`)`/`]`, and the binary operators - / % << >> (and their assigning forms) written with spaces, outside `#[cfg(test)]`; "
        "panics inside callees from other crates or std (e.g. `RefCell` borrows, `Rc::try_unwrap`, slice methods, `+`/`*` overflow, allocation failure) are not listed — "
        "the repaired finding F35 (`num += 1`) was of that kind",
        "a site counts as discharged by a theorem when the theorem is about the hand-written model of the stage (faithfulness of the models is the assumption of "
        "C05–C12, C32, checked there by differential runs) and, for `localguard`/`constant`, by reading the quoted guard; no Rust semantics is formalised",
        "the Terminals theorems (C32) the table refers to depend on bv_decide axioms (LRAT certificates checked by compiled code); they are listed in the evidence",
        "termination is not covered: all modelled loops take fuel; a hang is only detected by the exploration's time limit",
        "exploration covers only the generated and mutated texts of this run (deterministic per VERIF_SEED); harness built with debug assertions and overflow "
        "checks ON for parol and its dependencies (finding F36 — and the repaired F35 — panic only in such builds)",
    ],
}

CLAIM = {
    "category": "exploration",
    "text": "PARTIAL. Proved in Lean (Props/C26.lean) for the MODELLED stages only: stage_total_canon (transform_productions never takes its panic branch, all "
            "inputs), stage_total_generate_name, stage_total_check (check_and_transform_grammar always gives a verdict), pre_established_ordering (the "
            "`Start symbol not found` expect is unreachable after the productivity check), stage_total_left_factor_round, stage_total_augment, "
            "pre_established_analysis / pre_established_c05 (a grammar that passes the checks lies in the class where C06/C05 prove FIRST/FOLLOW/decidable exact — "
            "new bridge from `no left-recursive non-terminal` to a rank function on the left-corner relation), stage_total_terminals (Terminals::new total exactly "
            "below 4095; f10_witness), stage_total_unite; and (Props/C26b.lean) stage_total_minimise (CompiledDFA::minimize never trips a debug_assert/unwrap/panic! "
            "on automata whose accepting states are leaves, for every hash-map order; the model's fuel suffices), pre_established_minimise, pre_established_unite "
            "(the tuple sets calculate_k_tuples hands to `unite` for an accepted grammar are non-empty, pairwise disjoint, prefix-free), stage_total_unite2 + "
            "unite_fuel_suffices (the uniting loop yields an automaton; its fuel outcome does not exist), stage_total_decision / pre_established_decision (no cache "
            "slot index panic for max_k <= MAX_K, which Builder::max_lookahead establishes; f37_witness), genTables_no_panic / genTables_outcomes (the composed "
            "generator model of C01c answers tables, MaxKExceeded, not-part or model fuel — never panic, never conflict). A table of all 191 panic-capable "
            "constructs of the 16 modelled files (regenerated from /repo and compared per file/function/kind on every run; updated table in "
            "Model/PanicSites2.lean) records how each is discharged: 128 by named theorems, 42 by inspection of an adjacent guard or constant, 21 NOT discharged "
            "(9 off the generation path, 12 open: the unreachable!s for the deprecated Symbol::S/Push/Pop variants — a front-end invariant —, the k-field "
            "assertions of KTuples, and helpers outside the modelled pipeline). One chain link is not established (Terminals limit — finding F10); the "
            "first/follow link has no totality theorem (its models have no panic branch; termination of the fixpoint loops is not proved). Everything "
            "else — PAR parser and actions, GrammarConfig::try_from, type deduction, symbol table, rendering, lalry, scnr2_generate, and the end-to-end statement "
            "for all byte strings — is EXPLORED only (real pipeline under catch_unwind on mutated/generated grammars). The full statement `NeverPanics` is not "
            "proved and is false on the unchanged code: findings F10 and F36 are reproduced on every run (F1, F13 — lalry's unreachable!() —, F35 and F37 have been repaired in parol and are kept as regression cases).",
    "design_ref": "DESIGN.md §6 C26",
    "note": "Category `exploration` because the property quantifies over all grammar texts and the whole pipeline, of which only the middle stages are modelled; the "
            "proved part is real but does not reach the property's statement. Trusted: Lean kernel (+ bv_decide axioms of the referenced C32 theorems), the "
            "hand-written models, the syntactic census in harness/src/c26.rs, the harness and orchestrator. Termination is not covered.",
    "technique": "Lean 4 theorems composing stage totality results + regenerated panic-site census compared with a Lean table + in-process exploration of the real "
                 "pipeline with panic-location capture and delta debugging",
}


def run(ctx):
    return common.standard_flow(ctx, SPEC)


def replay(ctx, payload):
    case = payload.get("case")
    if not case:
        print("no replayable input in this file (a broken proof obligation or census difference):")
        print(payload.get("broken") or payload.get("kind"))
        for k in ("problems", "impl_reply", "model_reply"):
            if payload.get(k):
                print(f"{k}: {payload[k]}")
        return 1
    common.build_harness()
    w = case.split()
    if w[0] == "sites":
        common.lake_build(["parol_model"])
        a = common.impl_lines("c26", [case])[0]
        b = common.model_lines([case])[0]
        print(f"case: {case}\ncurrent sources: {a}\nLean table:      {b}")
        if a != b:
            sa, sb = set(a.split(",")), set(b.split(","))
            print(f"only in the sources: {sorted(sa - sb)}\nonly in the table:   {sorted(sb - sa)}")
            print(f"panic sites of {w[1]} changed: the proof obligation for this file is broken (run `pv c26 sites` for line numbers)")
        return 0 if a == b else 1
    p = subprocess.run([common.PV, "c26", "xrun"], input=case + "\n", capture_output=True, text=True, errors="replace")
    got = [l[3:] for l in p.stdout.split("\n") if l.startswith("@@ ")]
    rep = got[0] if got else f"abort exit-status-{p.returncode}"
    print(f"configuration: {describe(case)}\ngrammar:\n{case_text(case)}\nreply: {rep}")
    if rep == "ok" or rep.startswith("err"):
        return 0
    k = finding_key(case, rep)
    listed = {f["key"]: f for f in common.load_known(ctx.pid)}
    if k in listed:
        print(f"known finding reproduced: {listed[k]['id']}")
        return 0
    print("property violated: a stage panicked / died and no listed finding has this signature")
    return 1
