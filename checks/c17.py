"""C17 — skipped tokens never influence parsing; comments are delivered once, in order.
Theorems (LL, all tables/inputs): ll_skip_irrelevant, ll_comments_once_in_order, ll_all_tokens_in_tree.
Tie D: `llRun` / `lrRun` vs the real parsers on styled inputs (whitespace, LF/CRLF, line and block
comments, words skipped via a scanner state's %skip list). Oracles on REAL output: comment callback trace =
the comment tokens in order (Lean `comments-check`), tree statement `treeCheck` (every skipped token is a
leaf), and a metamorphic run of the real parsers (`pv prun skipmeta`): the same token string rendered with
single blanks and with arbitrary skipped material gives the same verdict and the same action trace."""
import subprocess
from . import common

FILES = ["crates/parol_runtime/src/parser/parser_types.rs", "crates/parol_runtime/src/lr_parser/parser_types.rs",
         "crates/parol_runtime/src/lr_parser/parse_tree.rs", "crates/parol_runtime/src/lexer/token_buffer.rs",
         "crates/parol_runtime/src/lexer/token_stream.rs", "crates/parol_runtime/src/lexer/token.rs"]


def oracle_req(case, reply):
    w = case.split()
    r = reply.split()
    if w[0] not in ("ll", "lr") or len(r) != 4 or r[0] != "ok":
        return None
    reqs = ["comments-check " + w[6] + " " + r[3]]
    if w[4][0] == "0":
        if w[0] == "ll":
            reqs.append("ll-tree-check " + " ".join(w[1:4]) + " " + w[6] + " " + r[1] + " " + r[2])
        elif len(w) >= 14:
            reqs.append("lr-tree-check " + w[1] + " " + w[13] + " " + w[6] + " " + r[1] + " " + r[2])
    return reqs


def nontrivial(case):
    w = case.split()
    return len(w) >= 13 and (":1" in w[6] or ":2" in w[6])


def extra(ctx, state):
    p = subprocess.run([common.PV, "prun", "skipmeta", str(ctx.seed), ctx.tier], capture_output=True, text=True)
    lines = [l[3:] for l in p.stdout.split("\n") if l.startswith("@@ ")]
    fails = [l for l in lines if l.startswith("fail")]
    done = [l for l in lines if l.startswith("done")]
    cov = {"skipmeta": done[0] if done else "no summary", "skipmeta_failures": len(fails)}
    state["coverage_extra"] = cov
    if p.returncode != 0 or not done:
        common.violation(ctx, "C17_skipmeta_crash.json", {"broken": "metamorphic run `pv prun skipmeta` crashed", "stderr": p.stderr[-2000:]}, no_input=True)
    if fails:
        fails.sort(key=len)
        kv = dict(x.split("=", 1) for x in fails[0].split()[1:])
        common.violation(ctx, "C17_skipmeta.json", {
            "kind": "skipped tokens changed the outcome of a real parser", "fields": kv,
            "how_to_read": "plain / styled / grammar are hex-encoded UTF-8; *_out = verdict_actions", "count": len(fails)})


SPEC = {
    "prop": "prun",
    "gen_extra": ["styled"],
    "mod": "ParolModel.Props.C17",
    "more_mods": ["ParolModel.Props.C17b"],
    "files": FILES,
    "oracle_req": oracle_req,
    "nontrivial": nontrivial,
    "extra": extra,
    "level": "proof",
    "rule": "styled generator (see C02): random LL and LALR(1) grammars through the real pipeline with %line_comment, %block_comment, 1/4 "
            "%allow_unmatched, 1/2 a %skip list (word `x` skipped in the INITIAL state); inputs = all short strings, sentences and mutants, every "
            "second one rendered with random blanks, tabs, LF/CRLF, comments and skipped words; non-trivial = the delivered sequence contains "
            "skipped tokens; distinct = distinct request lines; plus the metamorphic run (counts in coverage.skipmeta)",
    "assumptions": [
        "the Lean models mirror the real parsers (C01/C03 ties); `MTok.skip` is is_effectively_skip_token as computed by the real TokenStream (built-in skip types or the scanner state's %skip list)",
        "the LR analogues of the theorems are not proved yet (def LRSkipIrrelevant); they are covered by the differential tie, treeCheck, comments-check and the metamorphic run on real output",
    ],
}

CLAIM = {
    "category": "proof",
    "text": "LR theorems (Props/C17b) for ALL tables, options, fuel and inputs without hypotheses: lr_skip_irrelevant (same result, action trace and step count on the significant tokens alone); lr_comments_once_in_order under lrTableValid. LL theorems for all tables, options and inputs: ll_skip_irrelevant (the run on the significant tokens alone has the same result — also the same error at the same token —, the same action trace with the same argument tokens and the same step count), ll_comments_once_in_order (on success the comment callback trace is exactly the comment tokens in input order, each once), ll_all_tokens_in_tree (on success every delivered token, skipped ones included, is a leaf, in order). Proof route: tree erasure (llLoop_core), simulation llCore_skip_irrelevant, big-step characterisation DS/DS_leaves. The LL and LR models are tied to the real parsers by exact differential runs on inputs with interleaved skipped material including %skip lists; on every successful real run the comment trace and the tree are judged by Lean statements, and a metamorphic run of the real parsers compares verdict and action trace with and without skipped material.",
    "design_ref": "DESIGN.md §6 C17",
    "note": "Trusted: Lean kernel; faithfulness of the models as observed; harness and orchestrator. Finding F20 (LR call_action counted state-skipped tokens as symbols) was found here and fixed.",
    "technique": "Lean 4 proof (LL and LR) over hand-written model + differential correspondence check + metamorphic run on the implementation",
}


def run(ctx):
    return common.standard_flow(ctx, SPEC)


def replay(ctx, payload):
    case = payload.get("case")
    if not case:
        print(payload)
        return 1
    common.build_harness()
    common.lake_build(["parol_model"])
    a = common.impl_lines("prun", [case])[0]
    b = common.model_lines([case])[0]
    reqs = oracle_req(case, a) or []
    os_ = common.model_lines(reqs) if reqs else []
    print(f"case: {case}\nimpl: {a}\nmodel: {b}\noracle: {os_}")
    return 0 if (a == b and all(o == "ok" for o in os_)) else 1
