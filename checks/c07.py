"""C07 — lookahead automata encode exactly the lookahead sets.
Tie D (exact): real `LookaheadDFA::from_k_tuples`/`unite` and the real `CompiledDFA::from_lookahead_dfa`
(reached through the public `generate_parser_export_model`) vs the Lean model `LaBuild`, on random
pairwise disjoint prefix-free tuple sets, on random automata, and end to end on random LL(k) grammars
(real tuple sets from `calculate_k_tuples`, real automata from `calculate_lookahead_dfas` + export
model). Oracle: the reference run `runRef` (C08's semantics) on the implementation's automaton
predicts p on exactly p's tuples, for all strings up to depth+1 over the alphabet plus a foreign
terminal; minimisation is checked against the un-minimised automaton."""
from . import common

FILES = ["crates/parol/src/analysis/lookahead_dfa.rs", "crates/parol/src/analysis/compiled_la_dfa.rs",
         "crates/parol/src/utils/mod.rs"]

def oracle_req(case, reply):
    w = case.split()
    if w[0] == "lad":
        return "c07-lad-check " + w[3] + " " + reply
    if w[0] == "cmp":
        return "c07-check " + w[3] + " " + reply
    if w[0] in ("min", "ord"):
        return "c07-min-check " + " ".join(w[1:4]) + " " + reply
    if w[0] == "e2e":
        return "c07-check-e2e " + w[4] + " " + reply
    return None


def nontrivial(case):
    w = case.split()
    if w[0] in ("lad", "cmp"):
        return ("|" in w[3] or ";" in w[3]) and w[1] != "0"
    if w[0] in ("min", "ord"):
        return w[3] != "-"
    if w[0] == "e2e":
        # at least one non-terminal with a real decision
        return any(b.split("@")[1] != "0" for b in w[4].split("/"))
    return False


def extra(ctx, state):
    cases = common.read_lines(ctx.path("cases.txt"))
    impl = common.read_lines(ctx.path("impl.txt"))
    stats = {"lad": 0, "cmp": 0, "min": 0, "ord": 0, "e2e": 0}
    e2e_nts, e2e_k = 0, {}
    replies = {}
    for c, r in zip(cases, impl):
        w = c.split()
        stats[w[0]] = stats.get(w[0], 0) + 1
        replies[r.split()[0] if r else "<empty>"] = replies.get(r.split()[0] if r else "<empty>", 0) + 1
        if w[0] == "e2e":
            for b in w[4].split("/"):
                e2e_nts += 1
                k = b.split("@")[1]
                e2e_k[k] = e2e_k.get(k, 0) + 1
    state["coverage_extra"] = {
        "cases_by_kind": stats,
        "reply_kinds": replies,
        "e2e_nonterminals": e2e_nts,
        "e2e_nonterminals_by_depth": dict(sorted(e2e_k.items())),
    }


SPEC = {
    "prop": "c07",
    "mod": "ParolModel.Props.C07",
    "files": FILES,
    "oracle_req": oracle_req,
    "nontrivial": nontrivial,
    "extra": extra,
    "level": "proof",
    "rule": "(a) random prefix-free tuple sets (leaves of random trees, depth k 0..3, 1..3 letters + EOI, 1..4 productions, "
            "1/4 with Incomplete tuples, 1/5 productions out of order, 1/8 outside the hypotheses: shared tuple or proper prefix) "
            "through from_k_tuples/unite (lad) and additionally compile+minimise (cmp); (b) random layered automata with permuted "
            "state numbers (1/5 with accepting inner states, back edges) through compile+minimise (min); (c) random BNF grammars "
            "(<=5 non-terminals, <=3 terminals) accepted by check_and_transform_grammar and calculate_lookahead_dfas(max_k=4), all "
            "grammars needing k>=2 and a third of the LL(1) ones, whole real pipeline (e2e). Oracle per case: all strings up to "
            "depth+1 over alphabet + foreign terminal. non-trivial = more than one tuple / at least one edge / a non-terminal with "
            "k>0; distinct = distinct request lines",
    "assumptions": [
        "the Lean functions fromKTuples/unite/compileRaw/minimizeC mirror LookaheadDFA::from_k_tuples/unite and CompiledDFA::from_lookahead_dfa (AdjacencyList::minimize, renumber_states, as_compiled_dfa); agreement is observed on the explored cases (exact, including state numbering)",
        "HashMap iteration orders of group_by are an explicit choice stream in the model; the tie runs the model with the empty stream and the real code with whatever order the process draws",
        "tuple sets of accepted LL(k) grammars are pairwise disjoint and prefix-free (checked per non-terminal by the oracle on the real tuple sets)",
        "the real compiled automaton is observed through generate_parser_export_model (prod0, transitions, k), which copies CompiledDFA field by field",
    ],
}

CLAIM = {
    "category": "proof",
    "text": "Theorems (lean/ParolModel/Props/C07.lean), for ALL tuple sets, ALL token strings and ALL hash-map iteration orders of the model: "
            "trie_accepts_iff_tuple (the trie of a non-empty tuple set S for production p predicts p on exactly the members of S); "
            "unite_accepts (uniting a further production's trie into the automaton of non-empty, pairwise disjoint, prefix-free sets predicts, on every "
            "string, the production whose set contains it; unite_not_prefix_free_counterexample: without prefix-freeness the unconditional coin_state "
            "erases an accepting mark); minimize_preserves_run (AdjacencyList::minimize + renumber_states + as_compiled_dfa never change the production "
            "predicted on any string, on automata whose accepting states are leaves); compiled_wf (the output is strictly sorted by (from, terminal), k "
            "unchanged - the hypothesis of C08's theorems); compiled_accepts_iff_tuple (main statement: the compiled, minimised automaton of a "
            "non-terminal predicts p on w iff w is one of p's lookahead strings, for every w); compiled_k_ge_tuple_length (k covers every tuple, so C08's "
            "eval reads far enough; unite_k_unfixed_counterexample keeps the pre-repair behaviour of unite as a checked counterexample); "
            "minimize_order_indep (C24 part: the minimised automaton - transitions, state numbering, k - is the same under all iteration orders of the "
            "two group_by calls; both merging phases compute the quotient by a fixed equivalence and keep the smallest member of each class, "
            "renumbering is deterministic); additionally checked per case (request `ord`: model under 6 choice streams, real code 8 repetitions). Tied to the code by exact differential runs (state numbering included) through the real "
            "from_k_tuples/unite/CompiledDFA::from_lookahead_dfa on random tuple sets and automata and through the whole real pipeline on random LL(k) "
            "grammars; every real automaton is also judged directly by the reference run against the real tuple sets (all strings up to depth+1).",
    "design_ref": "DESIGN.md §6 C07 (and C24 for order independence)",
    "note": "The theorems speak about successful results of the model (it returns none/error where the Rust code would panic or report a conflict); "
            "for the uniting loop success on accepted inputs is proved up to the model's fuel (unite_no_false_conflict); for the minimisation it is "
            "shown by examples and observed on every explored case (model reply = implementation reply), not proved in general. Trusted: Lean kernel (propext, Quot.sound, Classical.choice), faithfulness of the hand-written model as observed by "
            "the differential run, harness and orchestrator, and that generate_parser_export_model copies CompiledDFA unchanged. Observation outside the "
            "property's hypotheses: on automata with accepting inner states of several productions the real minimize is hash-order dependent "
            "(Neighbors::append deduplicates, rename_neighbor does not); such automata cannot arise from prefix-free tuple sets.",
    "technique": "Lean 4 proof over hand-written model + differential correspondence check + reference-semantics oracle on real automata",
}


def run(ctx):
    return common.standard_flow(ctx, SPEC)


def replay(ctx, payload):
    case = payload.get("case")
    common.build_harness()
    common.lake_build(["parol_model"])
    a = common.impl_lines("c07", [case])[0]
    b = common.model_lines([case])[0]
    o = common.model_lines([oracle_req(case, a)])[0]
    print(f"case: {case}\nimpl: {a}\nmodel: {b}\noracle: {o}")
    return 0 if (a == b and o == "ok") else 1
