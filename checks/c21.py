"""C21 — generated parser source and export model encode the analysis faithfully.

Translation validation per grammar: the harness decodes THREE independent descriptions of the
generated parser (`ParserDesc`, lean/ParolModel/Model/Tables.lean) — from the analysis objects, from
the JSON export model and from the TEXT of the generated Rust parser — and the Lean oracle
`d3-check` range-checks each (`descInRange`) and compares them pairwise (`descAgree`).
`tablesAgree_sound` / `descInRange_sound` (Props/C21) say what a passed check means for ALL inputs
of the described parser. The differential slot of the standard flow checks that the model's decoder
reads every description and that the harness reproduces it from the grammar text (deterministic
generation)."""
import os, re, subprocess, tempfile
from . import common

FILES = [
    "crates/parol/src/generators/parser_generator.rs",
    "crates/parol/src/generators/parser_model.rs",
    "crates/parol/src/generators/parser_render_ir.rs",
    "crates/parol/src/generators/lexer_generator.rs",
    "crates/parol/src/generators/scanner_config.rs",
    "crates/parol/src/grammar/cfg.rs",
]


def dec(w):
    if w == "%.":
        return ""
    return re.sub(r"%\{([0-9A-Fa-f]+)\}|%([0-9A-Fa-f]{2})", lambda m: chr(int(m.group(1) or m.group(2), 16)), w)


def oracle_req(case, reply):
    w = case.split(" ", 1)
    if w[0] != "d3":
        return None
    return "d3-check " + w[1]


def nontrivial(case):
    """more than one user terminal (terminal-name table of the analysis description > 7 entries)"""
    w = case.split()
    return len(w) > 9 and w[9].count(",") >= 7


def describe(case):
    w = case.split()
    par = dec(w[1])
    return {"grammar": par if len(par) < 600 else par[:600] + " …", "max_k": int(w[2]), "type": w[3],
            "productions": 0 if w[5] == "-" else w[5].count(";") + 1,
            "terminals": max(0, w[9].count(",") - 5), "scanner_states": w[12].count(";") + 1}


def breakdown(cases):
    b = {"ll": 0, "lr": 0, "with_scanner_states": 0, "with_lookahead": 0, "with_on_directive": 0, "with_skip_directive": 0,
         "equal_text_in_two_quoting_styles": 0, "generated": 0, "from_repository_or_fixed": 0}
    for c in cases:
        w = c.split()
        par = dec(w[1])
        b[w[3] if w[3] in ("ll", "lr") else "ll"] += 1
        b["with_scanner_states"] += "%scanner" in par
        b["with_lookahead"] += ("?=" in par or "?!" in par)
        b["with_on_directive"] += "%on" in par
        b["with_skip_directive"] += "%skip" in par
        lits = {}
        for q, t in re.findall(r"(\"|'|/)((?:\\.|(?!\1).)*)\1", par.split("%%", 1)[-1]):
            lits.setdefault(t, set()).add("raw" if q == "'" else "rx")
        b["equal_text_in_two_quoting_styles"] += any(len(v) > 1 for v in lits.values())
        if par.startswith("%start N0\n"):
            b["generated"] += 1
        else:
            b["from_repository_or_fixed"] += 1
    return b


def checked_in_parsers():
    """Informational: the generated parsers CHECKED IN to the repository (rustfmt-formatted products
    of the real build) are decoded with the same source decoder and compared with a fresh analysis of
    their grammar. A difference means the checked-in file predates a generator change (it is not what
    the current generator emits), so it is reported, not counted as a violation of the property."""
    import glob
    res = {"compared": 0, "agree": 0, "differ": []}
    files = sorted(glob.glob(os.path.join(common.REPO, "examples", "*", "*_parser.rs")) +
                   glob.glob(os.path.join(common.REPO, "crates", "parol", "src", "parser", "*_parser.rs")))
    reqs, names = [], []
    for f in files:
        pars = [p for p in sorted(glob.glob(os.path.join(os.path.dirname(f), "*.par"))) if "-exp" not in p]
        if not pars:
            continue
        p = subprocess.run([common.PV, "c21", "pair", pars[0], "5", f], capture_output=True, text=True)
        line = [l[3:] for l in p.stdout.split("\n") if l.startswith("@@ d3 ")]
        if line:
            reqs.append("d3-check " + line[0].split(" ", 1)[1])
            names.append(os.path.relpath(f, common.REPO))
    reps = common.model_lines(reqs) if reqs else []
    for n, r in zip(names, reps):
        res["compared"] += 1
        if r == "ok":
            res["agree"] += 1
        else:
            res["differ"].append(f"{n}: {r}")
    return res


def extra(ctx, state):
    cases = [c for c in common.read_lines(ctx.path("cases.txt")) if c.startswith("d3 ")]
    cip = checked_in_parsers()
    if cip["differ"]:
        ctx.notes.append("checked-in generated parsers that differ from a fresh generation (informational): " + "; ".join(cip["differ"]))
    state["coverage_extra"] = {
        "checked_in_parsers_informational": cip,
        "programs": len(cases),
        "disagreements_checked": 6 * state.get("oracle_checked", 0),
        "samples": [describe(c) for c in (cases[:3] + cases[-3:])],
        "grammars": breakdown(cases),
    }


SPEC = {
    "prop": "c21",
    "mod": "ParolModel.Props.C21",
    "files": FILES,
    "oracle_req": oracle_req,
    "nontrivial": nontrivial,
    "extra": extra,
    "level": "translation_validation",
    "rule": "programs = grammars parol accepts: 7 hand-picked grammars (equal text in \"..\", '..', /../; lookahead; scanner states with "
            "%on/%skip), every *.par under examples/ and crates/parol/data/valid up to 20 kB (quick) / all (thorough), and 1500 (quick) / 60000 (thorough) random PAR "
            "texts (1-4 non-terminals + 0-3 primary non-terminals, terminals drawn from a per-grammar bias of 1-3 texts in all three "
            "quoting styles, 1/5 with ?= / ?! lookahead, 0-2 %scanner states with <State> prefixes, %on ... %enter/%push/%pop, %skip, "
            "comments / auto_newline_off / auto_ws_off / allow_unmatched, 1/3 LALR(1), EBNF groups) kept when the real pipeline accepts "
            "them; per grammar 3 range checks + 3 pairwise comparisons of the descriptions (disagreements_checked); non-trivial = more "
            "than one user terminal; distinct = distinct grammar texts",
    "assumptions": [
        "the three decoders (harness/src/c21.rs: analysis objects, JSON export model, tokenizer + value parser for the generated Rust text) are trusted; a description that cannot be decoded is reported as a failure, never skipped",
        "lookahead automata of the analysis description are the real compile (CompiledDFA::from_lookahead_dfa, crate-private) of each analysis automaton, reached through the export of a one-non-terminal carrier grammar: minimisation is C07's subject; name-to-index mapping, order and array position stay independent",
        "wildcards: LR PRODUCTIONS in the source carry only lengths (symbols unstated); the export model has no terminal names, no MAX_K and no comment regexes; the token list of a scanner mode is derived from the export model's flags and terminal list in the order of a generated scanner",
        "the generated text is read before rustfmt; that rustc accepts it is outside this property (C22)",
        "grammars are explored, not enumerated: for all inputs per grammar (congruence theorem), for the explored grammars only",
    ],
}

CLAIM = {
    "category": "translation_validation",
    "text": "Per accepted grammar the generated parser is described three times independently - from the analysis results "
            "(calculate_lookahead_dfas / calculate_lalr1_parse_table, cfg.pr + get_terminal_index_function, generate_terminal_names, "
            "generate_build_information), from the JSON export model and from the TEXT of the generated Rust source (LOOKAHEAD_AUTOMATA, "
            "PRODUCTIONS, PARSE_TABLE, TERMINAL_NAMES, NON_TERMINALS, SKIP_TOKENS_BY_SCANNER_STATE, MAX_K, scanner! body, start index) - "
            "and the Lean functions descAgree / descInRange compare the descriptions pairwise and check every index. Lean theorems for "
            "ALL descriptions: tablesAgree_sound (no reported difference => both descriptions decode to THE SAME LLTables / LRTables, so "
            "llRun, lrRun, tablesSoundB and tablesInRangeB behave identically for every option set, fuel and token sequence), "
            "descInRange_sound (an accepted LL description decodes to tables satisfying tablesInRangeB and tablesSoundB, the hypotheses of "
            "ll_sound), descInRange_lr. So: for all inputs per explored grammar; grammars are sampled (hand-picked, all repository "
            "grammars up to a size limit, random grammars biased to equal text in different quoting, lookahead, scanner states).",
    "design_ref": "DESIGN.md §6 C21",
    "note": "Trusted: Lean kernel (propext, Quot.sound, Classical.choice), the three decoders in the harness (the content of the "
            "validation is in them), orchestrator. A for-all-grammars theorem would need a model of the ~3k lines of rendering code; not "
            "attempted. Validated against the reverted fix e8d0f00 (finding F11): `S: 'a.b' \"a.b\";` is reported as A/S:production[0].",
    "technique": "Lean 4 congruence proof + verified comparer/range checker run on three independently decoded descriptions per grammar",
}


def run(ctx):
    return common.standard_flow(ctx, SPEC)


def fresh_case(prop, case):
    """Regenerates the case line of the grammar of `case` with the current tree."""
    w = case.split()
    with tempfile.NamedTemporaryFile("w", suffix=".par", delete=False) as f:
        f.write(dec(w[1]))
        path = f.name
    p = subprocess.run([common.PV, prop, "mk", path, w[2]], capture_output=True, text=True)
    os.unlink(path)
    lines = [l[3:] for l in p.stdout.split("\n") if l.startswith("@@ ")]
    return lines[0] if lines else "rejected"


def replay(ctx, payload):
    case = payload.get("case")
    common.build_harness()
    common.lake_build(["parol_model"])
    now = fresh_case("c21", case)
    print(f"grammar:\n{dec(case.split()[1])}")
    if now == "rejected":
        print("the grammar is no longer accepted")
        return 0
    a = common.impl_lines("c21", [now])[0]
    b = common.model_lines([now])[0]
    o = common.model_lines([oracle_req(now, a)])[0]
    print(f"impl: {a}\nmodel: {b}\noracle: {o}")
    return 0 if (a == b and o == "ok") else 1
