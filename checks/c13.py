"""C13 — the scanner tokenizes by the documented rules, independently of lookahead size and
consumption schedule.
D: random PAR grammars (scanner states, %on/%enter/%push/%pop, %skip, comments, auto_*_off,
   %allow_unmatched, lookahead terminals, raw/regex/legacy literals) -> REAL parol front end ->
   REAL generate_build_information -> scnr2 scanner built at run time with scnr2_generate -> REAL
   TokenStream (k = 1..4, with/without peeking at every lookahead position); the Lean side runs the
   model of TokenStream over `tokenizeSpec` on the same description (regexes lowered by the harness).
   `order` cases tie the model of generate_build_information's terminal order.
Oracle: the delivered token sequence must be the one of the documented rule (`tokenizeSpec`), gaps
   filled, one EOI — for every k and schedule.
C13b (Props/C13b.lean, harness/src/c13b.rs): the scanner description above is re-derived from the REAL
   generate_build_information, so a defect inside that function reaches both sides. `buildInfo` is a
   Lean model of generate_build_information + TerminalKind::expand that works on the SOURCE-level data
   of the grammar config (terminals as written: text, kind, lookahead with its own kind, scanner states;
   comment delimiters and flags per scanner state); `binfo`/`rawlit` cases tie it byte for byte to the
   real functions, and `binfo-scan-check` judges the REAL scanner's token sequences on probe texts
   against tokenizeSpec over the MODEL's mappings."""
from . import common

FILES = [
    "crates/parol/src/generators/scanner_config.rs",
    "crates/parol/src/grammar/symbol.rs",
    "crates/parol/src/generators/lexer_generator.rs",
    "crates/parol_runtime/src/lexer/token_stream.rs",
    "crates/parol_runtime/src/lexer/token_iter.rs",
    "crates/parol_runtime/src/lexer/token_buffer.rs",
]


def oracle_req(case, reply):
    w = case.split()
    if w[0] != "scan":
        return None
    return f"scan-check {w[4]} {w[5]} {reply.replace(' ', '_')}"


EMPTY_ALT = ",".join(str(ord(c)) for c in "(|")


def attribute(case, reply, why):
    w = case.split()
    if w[0] == "scan" and why.startswith("fail") and "1114111" in w[5].split(","):
        return "F21"
    if w[0] == "scan" and why.startswith("fail") and EMPTY_ALT in w[3]:
        return "F25"     # scnr2 drops an empty first alternative
    return None


def nontrivial(case):
    w = case.split()
    return w[0] == "scan" and w[5] != "-"


def extra(ctx, state):
    cases = common.read_lines(ctx.path("cases.txt"))
    impl = common.read_lines(ctx.path("impl.txt"))
    stats = {"grammars_rejected_by_parol": 0, "skipped:unsupported-regex": 0, "scan": 0, "order": 0,
             "with_mode_switch": 0, "with_lookahead_terminal": 0, "with_state_skip": 0,
             "replies_with_gap_token": 0, "k": {}, "peek": {}}
    for i, c in enumerate(cases):
        w = c.split()
        if w[0].startswith("note:"):
            stats["grammars_rejected_by_parol"] += 1
        elif w[0].startswith("skipped:"):
            stats["skipped:unsupported-regex"] += 1
        elif w[0] == "scan":
            stats["scan"] += 1
            stats["k"][w[1]] = stats["k"].get(w[1], 0) + 1
            stats["peek"][w[2]] = stats["peek"].get(w[2], 0) + 1
            d = w[4]
            if ">" in d:
                stats["with_mode_switch"] += 1
            if "~+" in d or "~!" in d:
                stats["with_lookahead_terminal"] += 1
            if any(m.split("/")[-1] for m in d.split("_")):
                stats["with_state_skip"] += 1
            if i < len(impl) and "65534:" in impl[i]:
                stats["replies_with_gap_token"] += 1
        elif w[0] == "order":
            stats["order"] += 1
    state["coverage_extra"] = {"distribution": stats}
    c13b_tie(ctx, state)


def c13b_probe(cases_p, model_p):
    """Oracle stage of C13b: `pv c13b probe` runs the REAL scanner on the probe texts of every binfo
    case and lowers the MODEL's regex texts; returns (ok, stderr, [(case index, request)], skip counts)."""
    rc, out, err = common.sh([common.PV, "c13b", "probe", cases_p, model_p], timeout=3000)
    reqs, skipped = [], {}
    for l in common._strip_replies(out):
        i, rest = l.split(" ", 1)
        if rest.startswith("skip "):
            skipped[rest[5:]] = skipped.get(rest[5:], 0) + 1
        else:
            reqs.append((int(i), rest))
    return rc == 0, err[-2000:], reqs, skipped


def c13b_tie(ctx, state):
    """C13b: tie D for `buildInfo` (model of generate_build_information / TerminalKind::expand on the
    source-level data, Props/C13b.lean) + the property oracle on the real scanner's output."""
    cases_p, impl_p, model_p = ctx.path("c13b_cases.txt"), ctx.path("c13b_impl.txt"), ctx.path("c13b_model.txt")
    okg, errg = common.gen_cases("c13b", ctx.seed, ctx.tier, ctx.path("c13b_gen.txt"))
    cases = common.corpus_lines("C13b") + (common.read_lines(ctx.path("c13b_gen.txt")) if okg else [])
    with open(cases_p, "w") as f:
        f.write("\n".join(cases) + "\n")
    oki, erri = common.run_impl("c13b", cases_p, impl_p)
    impl = common.read_lines(impl_p)
    common.run_model(cases_p, model_p)
    model = common.read_lines(model_p)
    if not okg or not oki or len(impl) != len(cases) or not cases:
        common.violation(ctx, "C13_c13b_impl_run.json", {
            "broken": "correspondence D:c13b (implementation driver crashed or produced too few replies)",
            "stderr": (errg if not okg else erri), "replies": len(impl), "cases": len(cases)}, no_input=True)
        return
    diffs = common.diff_streams(cases, impl, model)
    okp, errp, reqs, skipped = c13b_probe(cases_p, model_p)
    with open(ctx.path("c13b_oracle_req.txt"), "w") as f:
        f.write("\n".join(r for _, r in reqs) + "\n")
    reps = []
    if reqs:
        common.run_model(ctx.path("c13b_oracle_req.txt"), ctx.path("c13b_oracle_rep.txt"))
        reps = common.read_lines(ctx.path("c13b_oracle_rep.txt"))
    fails = [(cases[i], r, rep) for (i, r), rep in zip(reqs, reps + ["<missing>"] * (len(reqs) - len(reps))) if rep != "ok"]
    if not okp:
        common.violation(ctx, "C13_c13b_probe_run.json", {
            "broken": "correspondence D:c13b (oracle stage `pv c13b probe` crashed)", "stderr": errp}, no_input=True)
    if fails:
        fails.sort(key=lambda t: len(t[1]))
        w = fails[0][1].split()
        common.violation(ctx, "C13_c13b_oracle.json", {
            "kind": "property fails on the implementation (oracle): the REAL scanner generated for a grammar does not tokenize a "
                    "probe text by the documented rule applied to the grammar AS WRITTEN (terminal / lookahead kinds, comment styles)",
            "case": fails[0][0], "probe_text_codepoints": w[6], "real_scanner_delivered": w[7], "oracle": fails[0][2],
            "oracle_request": fails[0][1], "count": len(fails)})
    elif diffs:
        diffs.sort(key=lambda t: len(t[1]))
        i, c, a, b = diffs[0]
        common.violation(ctx, "C13_c13b_tie.json", {
            "kind": "model of generate_build_information and the real function disagree; the property oracle found no failing input",
            "broken": "correspondence D:c13b (theorems of ParolModel.Props.C13b no longer transfer to the code)",
            "case": c, "impl_reply": a, "model_reply": b, "disagreements": len(diffs)}, no_input=True)
    binfo = [(c, a) for c, a in zip(cases, impl) if c.startswith("binfo ")]
    state.setdefault("coverage_extra", {})["c13b_build_info_tie"] = {
        "cases": len(cases), "binfo": len(binfo), "rawlit": sum(1 for c in cases if c.startswith("rawlit ")),
        "grammars_rejected_by_parol": sum(1 for c in cases if c.startswith("note:")),
        "disagreements": len(diffs),
        "binfo_with_lookahead_terminal": sum(1 for c, _ in binfo if ":+" in c.split()[2] or ":!" in c.split()[2]),
        "binfo_with_several_line_comment_styles": sum(1 for c, _ in binfo if any("/" in s.split(":")[2] for s in c.split()[3].split(";"))),
        "binfo_with_several_block_comment_styles": sum(1 for c, _ in binfo if any("/" in s.split(":")[3] for s in c.split()[3].split(";"))),
        "binfo_with_several_scanner_states": sum(1 for c, _ in binfo if ";" in c.split()[3]),
        "binfo_panic_replies": sum(1 for _, a in binfo if a == "panic"),
        "binfo_format_error_replies": sum(1 for _, a in binfo if "err:" in a),
        "oracle_checked": len(reqs), "oracle_failures": len(fails), "oracle_skipped": skipped}


SPEC = {
    "prop": "c13",
    "mod": "ParolModel.Props.C13",
    "more_mods": ["ParolModel.Props.C13b"],
    "files": FILES,
    "oracle_req": oracle_req,
    "nontrivial": nontrivial,
    "attribute": attribute,
    "extra": extra,
    "level": "proof",
    "rule": "random PAR grammars: 1..3 scanner states, 2..7 terminals (raw / regex / legacy literals from a pool of 25 raw strings and 30 regexes "
            "covering classes, negated classes, Unicode classes, star/plus/opt, bounded repetition, alternation with common prefixes, nullable "
            "regexes, `.`), 1/6 with positive or negative lookahead, random %line_comment/%block_comment/%auto_newline_off/%auto_ws_off/"
            "%allow_unmatched/%skip/%on..%enter|%push|%pop per state; per grammar 14 (quick) / 40 (thorough) texts; 150 / 2500 grammars rendered from terminal samples, "
            "whitespace incl. CR/LF/CRLF/NBSP/U+2028/VT, comment snippets incl. unterminated ones, junk and non-ASCII characters; k cycles 1..4, "
            "peek schedule alternates, every 5th text repeated with another (k, schedule); non-trivial = scan case with non-empty text; "
            "distinct = distinct request lines. C13b: 3 hand-written + 120 / 1500 random PAR grammars with 1..4 scanner states, 2..8 terminals from 37 raw strings "
            "(meta characters, preserved and broken \\u{..} escapes, backslashes) and 32 regex/legacy literals, every second terminal with a positive or negative lookahead "
            "whose kind is drawn independently of the terminal's, 0..3 %line_comment and 0..3 %block_comment styles per state (raw, regex and legacy delimiters), "
            "flags, %skip, %on; every 12th grammar again with a truncated terminal_names slice (index panics); per grammar 4 probe texts per lookahead terminal "
            "(sample+lookahead sample, sample+lookahead pattern taken literally, sample+junk, sample twice), the state's comment texts (all styles one after the other, CRLF), "
            "5 / 10 random texts; 25 hand-picked + 1500 / 20000 random `rawlit` texts over meta characters, hex digits, `\\u{`, `}`",
    "assumptions": [
        "scnr2/scnr2_generate (external crates) are only observed: the tie compares the real scanner with tokenizeSpec on the explored scanners and texts",
        "regex-syntax -> Re lowering (harness/src/relower.rs) is part of the tie and validated by the same run; regexes with look-around, non-greedy repetition or byte classes are skipped and counted",
        "the run-time construction of the scnr2 tables mirrors the scanner! macro (same scnr2_generate calls as cs_lexer_generator.rs); the macro itself is not executed",
        "the parser's access pattern is modelled as: [peek all k lookahead positions,] take_skip_tokens, consume — until the first EOI",
        "C13b: the source-level data handed to the model of generate_build_information is extracted by the harness from the real front end's GrammarConfig (get_ordered_terminals, ScannerConfig fields) without calling generate_build_information; the front end itself is C12/C25's business. The regex TEXTS of the model's mappings are lowered to Re by the harness (regex-syntax, relower.rs) for the oracle; for raw terminals and raw lookaheads the oracle additionally insists that the lowered regex is the literal Re.lit (rawMeaning text). The `as TerminalIndex` casts are not modelled (fewer than 65531 terminals)",
    ],
}

CLAIM = {
    "category": "proof",
    "text": "The documented tokenisation rule is the Lean function tokenizeSpec (longest match in the current scanner state, first declared on ties, "
            "lookahead tested at the end of the match, never-empty matches, one character skipped when nothing matches, enter/push/pop at match time, "
            "pop on an empty stack keeps the state). Proved for ALL scanner descriptions and inputs: matchesRe_iff (the derivative matcher decides the "
            "declarative regular-language semantics), term_match_is_longest / term_no_match (a terminal's match is the greatest non-empty prefix in its "
            "language whose lookahead condition holds), step_longest_first (the chosen terminal is a longest one and the first declared among the "
            "longest), tokenize_total / tokenize_progress (every token is non-empty, tokens are ordered and inside the text, the tokenizer never runs "
            "out of fuel), pop_empty_keeps / push_pop, mode_order_is_documented / error_token_last_iff (order of generate_build_information), and for "
            "the model of TokenStream's read-ahead (read_tokens, ensure_buffer, take_skip_tokens, consume, EOI padding) stream_indep_of_k / "
            "stream_indep_of_consumption: for every k and both access schedules exactly the matches with gaps filled plus one EOI are delivered. Tied to the code by exact differential runs of the real "
            "parol front end + generate_build_information + scnr2 (tables built at run time) + TokenStream against the model for k = 1..4 and two "
            "access schedules; every implementation reply is also judged against the k-independent reference sequence. "
            "C13b (Props/C13b.lean) closes the gap between the grammar AS WRITTEN and that scanner description: for the model buildInfo of "
            "ScannerConfig::generate_build_information and TermKind.expand of TerminalKind::expand, for ALL inputs: expand_regex_id, "
            "expand_raw_matches_literal / raw_meaning_is_text / literal_matches_exactly / expand_raw_charwise (the regex of a raw terminal is a literal "
            "regex denoting exactly its text; preserved \\u{..} escapes denote their code point), mappings_exact / mappings_order (newline, whitespace, "
            "line comment, block comment, the state's user terminals in index order with k.expand(t) and token i+5, error token last unless "
            "allow_unmatched), lookahead_uses_own_kind / lookahead_indep_of_terminal (a lookahead is expanded with ITS OWN kind), "
            "line_comment_rx_alternatives / line_comment_alternation_meaning (one `start.*(\\r\\n|\\r|\\n)?` per style), build_info_no_panic. "
            "buildInfo is tied byte for byte to the real function on the source-level data of random grammars, and the REAL scanner's token "
            "sequences on probe texts are decided against tokenizeSpec over the model's mappings.",
    "design_ref": "DESIGN.md §6 C13",
    "note": "scnr2 is an external crate: its agreement with the documented rule is observed on the explored cases, not proved. Known findings F21 "
            "(scnr2 never matches U+10FFFF) and F25 (scnr2 drops an empty first alternative) are reproduced on dedicated cases; the faithful scanner "
            "model contains both quirks (scnr2Text, scnr2Re), the specification does not.",
    "technique": "Lean 4 proof over hand-written model + differential correspondence check",
}


def run(ctx):
    return common.standard_flow(ctx, SPEC)


def replay_c13b(ctx, case):
    a = common.impl_lines("c13b", [case])[0]
    b = common.model_lines([case])[0]
    cp, mp = ctx.path("replay_case.txt"), ctx.path("replay_model.txt")
    open(cp, "w").write(case + "\n")
    open(mp, "w").write(b + "\n")
    okp, errp, reqs, skipped = c13b_probe(cp, mp)
    reps = common.model_lines([r for _, r in reqs]) if reqs else []
    bad = [(r, rep) for (_, r), rep in zip(reqs, reps) if rep != "ok"]
    print(f"case: {case}\nimpl: {a}\nmodel: {b}\noracle: {len(reqs)} probe(s), {len(bad)} failing, skipped {skipped}")
    for r, rep in bad[:5]:
        w = r.split()
        print(f"  probe {w[6]}: real scanner delivered {w[7]}; oracle: {rep}")
    return 0 if (a == b and okp and not bad) else 1


def replay(ctx, payload):
    case = payload.get("case")
    common.build_harness()
    common.lake_build(["parol_model"])
    if case and case.split()[0] in ("binfo", "rawlit"):
        return replay_c13b(ctx, case)
    a = common.impl_lines("c13", [case])[0]
    b = common.model_lines([case])[0]
    req = oracle_req(case, a)
    o = common.model_lines([req])[0] if req else "ok"
    print(f"case: {case}\nimpl: {a}\nmodel: {b}\noracle: {o}")
    return 0 if (a == b and o == "ok") else 1
