"""C13 — the scanner tokenizes by the documented rules, independently of lookahead size and
consumption schedule.
D: random PAR grammars (scanner states, %on/%enter/%push/%pop, %skip, comments, auto_*_off,
   %allow_unmatched, lookahead terminals, raw/regex/legacy literals) -> REAL parol front end ->
   REAL generate_build_information -> scnr2 scanner built at run time with scnr2_generate -> REAL
   TokenStream (k = 1..4, with/without peeking at every lookahead position); the Lean side runs the
   model of TokenStream over `tokenizeSpec` on the same description (regexes lowered by the harness).
   `order` cases tie the model of generate_build_information's terminal order.
Oracle: the delivered token sequence must be the one of the documented rule (`tokenizeSpec`), gaps
   filled, one EOI — for every k and schedule."""
from . import common

FILES = [
    "crates/parol/src/generators/scanner_config.rs",
    "crates/parol/src/generators/lexer_generator.rs",
    "crates/parol_runtime/src/lexer/token_stream.rs",
    "crates/parol_runtime/src/lexer/token_iter.rs",
    "crates/parol_runtime/src/lexer/token_buffer.rs",
]


def oracle_req(case, reply):
    w = case.split()
    if w[0] != "scan":
        return None
    return f"scan-check {w[4]} {w[5]} {reply.replace(' ', '_')}"


EMPTY_ALT = ",".join(str(ord(c)) for c in "(|")


def attribute(case, reply, why):
    w = case.split()
    if w[0] == "scan" and why.startswith("fail") and "1114111" in w[5].split(","):
        return "F21"
    if w[0] == "scan" and why.startswith("fail") and EMPTY_ALT in w[3]:
        return "F25"     # scnr2 drops an empty first alternative
    return None


def nontrivial(case):
    w = case.split()
    return w[0] == "scan" and w[5] != "-"


def extra(ctx, state):
    cases = common.read_lines(ctx.path("cases.txt"))
    impl = common.read_lines(ctx.path("impl.txt"))
    stats = {"grammars_rejected_by_parol": 0, "skipped:unsupported-regex": 0, "scan": 0, "order": 0,
             "with_mode_switch": 0, "with_lookahead_terminal": 0, "with_state_skip": 0,
             "replies_with_gap_token": 0, "k": {}, "peek": {}}
    for i, c in enumerate(cases):
        w = c.split()
        if w[0].startswith("note:"):
            stats["grammars_rejected_by_parol"] += 1
        elif w[0].startswith("skipped:"):
            stats["skipped:unsupported-regex"] += 1
        elif w[0] == "scan":
            stats["scan"] += 1
            stats["k"][w[1]] = stats["k"].get(w[1], 0) + 1
            stats["peek"][w[2]] = stats["peek"].get(w[2], 0) + 1
            d = w[4]
            if ">" in d:
                stats["with_mode_switch"] += 1
            if "~+" in d or "~!" in d:
                stats["with_lookahead_terminal"] += 1
            if any(m.split("/")[-1] for m in d.split("_")):
                stats["with_state_skip"] += 1
            if i < len(impl) and "65534:" in impl[i]:
                stats["replies_with_gap_token"] += 1
        elif w[0] == "order":
            stats["order"] += 1
    state["coverage_extra"] = {"distribution": stats}


SPEC = {
    "prop": "c13",
    "mod": "ParolModel.Props.C13",
    "files": FILES,
    "oracle_req": oracle_req,
    "nontrivial": nontrivial,
    "attribute": attribute,
    "extra": extra,
    "level": "proof",
    "rule": "random PAR grammars: 1..3 scanner states, 2..7 terminals (raw / regex / legacy literals from a pool of 25 raw strings and 30 regexes "
            "covering classes, negated classes, Unicode classes, star/plus/opt, bounded repetition, alternation with common prefixes, nullable "
            "regexes, `.`), 1/6 with positive or negative lookahead, random %line_comment/%block_comment/%auto_newline_off/%auto_ws_off/"
            "%allow_unmatched/%skip/%on..%enter|%push|%pop per state; per grammar 14 (quick) / 40 (thorough) texts; 150 / 2500 grammars rendered from terminal samples, "
            "whitespace incl. CR/LF/CRLF/NBSP/U+2028/VT, comment snippets incl. unterminated ones, junk and non-ASCII characters; k cycles 1..4, "
            "peek schedule alternates, every 5th text repeated with another (k, schedule); non-trivial = scan case with non-empty text; "
            "distinct = distinct request lines",
    "assumptions": [
        "scnr2/scnr2_generate (external crates) are only observed: the tie compares the real scanner with tokenizeSpec on the explored scanners and texts",
        "regex-syntax -> Re lowering (harness/src/relower.rs) is part of the tie and validated by the same run; regexes with look-around, non-greedy repetition or byte classes are skipped and counted",
        "the run-time construction of the scnr2 tables mirrors the scanner! macro (same scnr2_generate calls as cs_lexer_generator.rs); the macro itself is not executed",
        "the parser's access pattern is modelled as: [peek all k lookahead positions,] take_skip_tokens, consume — until the first EOI",
    ],
}

CLAIM = {
    "category": "proof",
    "text": "The documented tokenisation rule is the Lean function tokenizeSpec (longest match in the current scanner state, first declared on ties, "
            "lookahead tested at the end of the match, never-empty matches, one character skipped when nothing matches, enter/push/pop at match time, "
            "pop on an empty stack keeps the state). Proved for ALL scanner descriptions and inputs: matchesRe_iff (the derivative matcher decides the "
            "declarative regular-language semantics), term_match_is_longest / term_no_match (a terminal's match is the greatest non-empty prefix in its "
            "language whose lookahead condition holds), step_longest_first (the chosen terminal is a longest one and the first declared among the "
            "longest), tokenize_total / tokenize_progress (every token is non-empty, tokens are ordered and inside the text, the tokenizer never runs "
            "out of fuel), pop_empty_keeps / push_pop, mode_order_is_documented / error_token_last_iff (order of generate_build_information), and for "
            "the model of TokenStream's read-ahead (read_tokens, ensure_buffer, take_skip_tokens, consume, EOI padding) stream_indep_of_k / "
            "stream_indep_of_consumption: for every k and both access schedules exactly the matches with gaps filled plus one EOI are delivered. Tied to the code by exact differential runs of the real "
            "parol front end + generate_build_information + scnr2 (tables built at run time) + TokenStream against the model for k = 1..4 and two "
            "access schedules; every implementation reply is also judged against the k-independent reference sequence.",
    "design_ref": "DESIGN.md §6 C13",
    "note": "scnr2 is an external crate: its agreement with the documented rule is observed on the explored cases, not proved. Known findings F21 "
            "(scnr2 never matches U+10FFFF) and F25 (scnr2 drops an empty first alternative) are reproduced on dedicated cases; the faithful scanner "
            "model contains both quirks (scnr2Text, scnr2Re), the specification does not.",
    "technique": "Lean 4 proof over hand-written model + differential correspondence check",
}


def run(ctx):
    return common.standard_flow(ctx, SPEC)


def replay(ctx, payload):
    case = payload.get("case")
    common.build_harness()
    common.lake_build(["parol_model"])
    a = common.impl_lines("c13", [case])[0]
    b = common.model_lines([case])[0]
    req = oracle_req(case, a)
    o = common.model_lines([req])[0] if req else "ok"
    print(f"case: {case}\nimpl: {a}\nmodel: {b}\noracle: {o}")
    return 0 if (a == b and o == "ok") else 1
