"""C19 — generated parsers never crash and always terminate.
Theorem (LL, all inputs): ll_no_internal — under the checked table well-formedness `tablesInRangeB` the run
never reaches an internal outcome (index out of range, parse-tree-stack underflow, failed debug assertion).
Tie D: `llRun` / `lrRun` vs the real parsers on garbled inputs (character soup, mutated sentences), recovery
on and off. EXPLORATION (labelled): no real run panics or reports an internal/data/lexer error; a wall-clock
watchdog looks for non-termination — every run of the real LR parser on cyclic LALR(1) grammars (which parol
accepts with resolved conflicts) is executed in its own process under a time and memory limit."""
import os, resource, subprocess, time
from . import common

FILES = ["crates/parol_runtime/src/parser/parser_types.rs", "crates/parol_runtime/src/parser/recovery.rs",
         "crates/parol_runtime/src/lr_parser/parser_types.rs", "crates/parol_runtime/src/lexer/token_stream.rs"]

BAD = ("panic", "other:", "internal", "fuel-exhausted", "bad-op")


_seen = set()


def oracle_req(case, reply):
    w = case.split()
    if w[0] == "ll":
        key = " ".join(w[1:4])
        reqs = ["ll-tables-ok " + key]
        if key not in _seen:
            # hypothesis of ll_terminates_bound (no left recursion, certificate verified per production)
            _seen.add(key)
            reqs.append("ll-term-ok " + key)
        return reqs
    if w[0] == "lr" and len(w) >= 14:
        # hypothesis of lr_no_internal, evaluated on the real table
        reqs = ["lr-table-complete " + " ".join(w[1:4]) + " " + w[13]]
        key = " ".join(w[1:4])
        if key not in _seen:
            # hypothesis of lr_terminates_bound: no loop of reductions without consuming input
            _seen.add(key)
            reqs.append("lr-term-ok " + key + " " + w[13])
        return reqs
    return None


def attribute(case, reply, why):
    # signature of F24: the verified checker lrNoReduceLoopB rejects the real table
    return "F24" if why.startswith("fail reduce-loop") else None


def table_has_reduce_loop(case):
    w = case.split()
    if w[0] != "lr" or len(w) < 14:
        return False
    rep = common.model_lines(["lr-term-ok " + " ".join(w[1:4]) + " " + w[13]])
    return bool(rep) and rep[0].startswith("fail reduce-loop")


def nontrivial(case):
    w = case.split()
    return len(w) >= 13 and w[6] != "-"


def has_cycle(gstart, gprods):
    prods = []
    if gprods != "-":
        for p in gprods.split(";"):
            l, r = p.split(":")
            prods.append((l, [x for x in r.split(",") if x]))
    nullable = set()
    changed = True
    while changed:
        changed = False
        for l, r in prods:
            if l not in nullable and all(x.startswith("n") and x[1:] in nullable for x in r):
                nullable.add(l); changed = True
    edges = set()
    for l, r in prods:
        for i, x in enumerate(r):
            if x.startswith("n") and all(j == i or (y.startswith("n") and y[1:] in nullable) for j, y in enumerate(r)):
                edges.add((l, x[1:]))
    changed = True
    while changed:
        changed = False
        for a, b in list(edges):
            for c, d in list(edges):
                if b == c and (a, d) not in edges:
                    edges.add((a, d)); changed = True
    return any(a == b for a, b in edges)


CPU_LIMIT = 12      # CPU seconds per process: a looping parser burns CPU; a process that is merely slow on a loaded machine does not
MEM_LIMIT = 3 * 1024 ** 3


def _limits():
    resource.setrlimit(resource.RLIMIT_AS, (MEM_LIMIT, MEM_LIMIT))
    resource.setrlimit(resource.RLIMIT_CPU, (CPU_LIMIT, CPU_LIMIT + 2))


def run_limited(lines, wall):
    """Runs the real parsers on the case lines in their own process under a CPU-time and memory limit.
    Returns (status, replies): status 0 = finished, 'cpu' = killed by the CPU limit (non-termination),
    'mem' = aborted (allocation failure under the memory limit), 'wall' = wall clock only (inconclusive: machine load)."""
    try:
        p = subprocess.run([common.PV, "prun", "run"], input="\n".join(lines) + "\n", capture_output=True, text=True,
                           timeout=wall, preexec_fn=_limits)
    except subprocess.TimeoutExpired:
        return "wall", []
    reps = [l[3:] for l in p.stdout.split("\n") if l.startswith("@@ ")]
    if p.returncode == 0:
        return 0, reps
    if p.returncode in (-24, -9):          # SIGXCPU / SIGKILL after the hard limit
        return "cpu", reps
    return "mem", reps                      # abort on allocation failure (memory grows without bound)


def extra(ctx, state):
    cases = common.read_lines(ctx.path("cases.txt"))
    impl = common.read_lines(ctx.path("impl.txt"))
    bad = [(c, r) for c, r in zip(cases, impl) if r.split(" ")[0].startswith(BAD) or r.startswith(BAD)]
    cov = {"explored_runs_without_crash": len(cases) - len(bad), "crashing_or_internal_replies": len(bad),
           "exploration_note": "absence of panics beyond ll_no_internal / lr_no_internal, and termination of the real parsers beyond the theorems about the models, are only observed on the explored inputs"}
    if bad:
        bad.sort(key=lambda t: len(t[0]))
        common.violation(ctx, "C19_crash.json", {"kind": "a real parser panicked or reported an internal error",
                                                 "case": bad[0][0], "impl_reply": bad[0][1], "count": len(bad)})
    # Watchdog on cyclic LALR(1) grammars, guided by the verified checker lrNoReduceLoopB (lr_terminates):
    #  * tables the checker ACCEPTS: the model terminates on every input (theorem), so must the real parser —
    #    all such cases are run in separate processes under a CPU-time limit; exceeding it is a violation;
    #  * tables the checker REJECTS are instances of finding F24; a sample is run to confirm that the real parser
    #    indeed loops on some of them (reported as KNOWN-FINDING).
    common.gen_cases("lrrun", ctx.seed, ctx.tier, ctx.path("cyclic.txt"), extra=["cyclic"])
    cyc = [c for c in common.read_lines(ctx.path("cyclic.txt")) if c.split()[0] == "lr" and len(c.split()) >= 14]
    keys = {}
    for c in cyc:
        w = c.split()
        keys.setdefault(" ".join(w[1:4]) + " " + w[13], []).append(c)
    klist = list(keys)
    verdicts = common.model_lines(["lr-term-ok " + k for k in klist]) if klist else []
    loops = {k for k, v in zip(klist, verdicts) if v.startswith("fail reduce-loop")}
    good = [c for k in klist if k not in loops for c in keys[k]]
    f24_cases = [keys[k][0] for k in klist if k in loops]
    hangs, other, inconclusive = [], [], 0
    t0 = time.time()
    budget = 900 if ctx.thorough else 150
    checked = 0
    for i in range(0, len(good), 60):
        if time.time() - t0 > budget:
            break
        chunk = good[i:i + 60]
        st, reps = run_limited(chunk, 600)
        checked += len(chunk)
        if st == 0 and len(reps) == len(chunk):
            other += [(c, r) for c, r in zip(chunk, reps) if r.split(" ")[0].startswith(BAD)]
            continue
        if st == "wall":
            inconclusive += len(chunk)
            continue
        for c in chunk:       # find the run that loops or blows up
            st1, reps1 = run_limited([c], 300)
            if st1 in ("cpu", "mem"):
                hangs.append((c, st1))
            elif st1 == "wall":
                inconclusive += 1
            elif reps1 and reps1[0].split(" ")[0].startswith(BAD):
                other.append((c, reps1[0]))
    confirmed = []
    for c in f24_cases[:(40 if ctx.thorough else 8)]:
        st1, _ = run_limited([c], 300)
        if st1 in ("cpu", "mem"):
            confirmed.append((c, st1))
    known = {k["id"]: k for k in common.load_known(ctx.pid)}
    cov.update({"cyclic_grammar_runs_on_tables_accepted_by_lrNoReduceLoopB": checked,
                "of_these_non_terminating_or_memory_exhausting": len(hangs),
                "inconclusive_wall_clock_only": inconclusive,
                "cyclic_tables": len(klist), "cyclic_tables_rejected_by_lrNoReduceLoopB": len(loops),
                "rejected_tables_sampled": min(len(f24_cases), 40 if ctx.thorough else 8),
                "sampled_runs_confirmed_looping": len(confirmed),
                "limits": f"{CPU_LIMIT} s CPU, 3 GB per process"})
    if loops and "F24" in known:
        eg = (confirmed or [(f24_cases[0], "")])[0][0].split()
        ctx.known.append(f"F24 {known['F24']['text']} ({len(loops)} of {len(klist)} tables of cyclic grammars are rejected by the checker; "
                         f"{len(confirmed)} of {cov['rejected_tables_sampled']} sampled real runs exceeded the CPU/memory limit, e.g. grammar `{eg[8]}` input tokens `{eg[6]}`)")
    elif loops:
        common.violation(ctx, "C19_reduce_loop.json", {"kind": "the verified checker lrNoReduceLoopB rejects a table parol generated (the LR parser loops on some stack/lookahead)",
                                                       "case": f24_cases[0], "count": len(loops)})
    if hangs:
        common.violation(ctx, "C19_hang.json", {"kind": f"the real LR parser exceeded {CPU_LIMIT} s CPU / 3 GB on a table for which the model provably terminates",
                                                "case": hangs[0][0], "status": str(hangs[0][1]), "count": len(hangs)})
    if other:
        common.violation(ctx, "C19_crash_cyclic.json", {"kind": "a real parser panicked or reported an internal error",
                                                        "case": other[0][0], "impl_reply": other[0][1], "count": len(other)})
    state["coverage_extra"] = cov


SPEC = {
    "prop": "prun",
    "gen_extra": ["junk"],
    "mod": "ParolModel.Props.C19",
    "more_mods": ["ParolModel.Props.C19b", "ParolModel.Props.C19c", "ParolModel.Props.C19d", "ParolModel.Props.C19e"],
    "files": FILES,
    "oracle_req": oracle_req,
    "attribute": attribute,
    "nontrivial": nontrivial,
    "extra": extra,
    "level": "proof",
    "rule": "random LL and LALR(1) grammars through the real pipeline; inputs: short strings, sentences and mutants, two thirds of them garbled "
            "(insertions of arbitrary ASCII / control / multi-byte characters, deletions, duplications, pure character soup); recovery on and off, "
            "trim and depth limits cycled; non-trivial = non-empty token sequence; distinct = distinct request lines; plus the watchdog runs on "
            "cyclic LALR(1) grammars (coverage.cyclic_grammar_runs)",
    "assumptions": [
        "ll_no_internal / lr_no_internal are about the models `llRun` / `lrRun` (ties of C01 / C03); their hypotheses, the checkers tablesInRangeB and lrTableComplete, are evaluated by Lean on every real LL / LALR(1) table explored",
        "LL termination is a theorem about the model under tablesSoundB and noLeftRecB (both evaluated on every real table); the step bound is about loop iterations of llLoop, real time is not modelled",
        "LR termination is a theorem about the model under lrNoReduceLoopB, evaluated on every real table; tables that fail it are instances of finding F24 (the watchdog confirms the real parser hangs on them)",
        "the recovery machinery is NOT modelled; it is explored only (catch_unwind, watchdog)",
        "stack exhaustion, allocation failure and real time are runtime behaviour the model cannot exhibit",
    ],
}

CLAIM = {
    "category": "proof",
    "text": "Theorem ll_no_internal: for every LL table set accepted by the verified checker tablesInRangeB (start, left-hand sides, non-terminals and predictable productions in range; no end-of-production marker or T(0) inside a right-hand side; sorted automata; an accepting start state has no transitions) and EVERY input and option record, the model of LLKParser::parse_into never reaches an internal outcome — no index out of range, no parse-tree-stack underflow in process_item_stack (stack discipline invariant StackOK), no failing debug assertion in eval. The checker is evaluated on every real table. Theorem lr_no_internal (Props/C19b): the same for the LR parser model under the verified checker lrTableComplete (lrTableValid + all shift/goto targets in range + a goto on the left-hand side exists wherever a reduction can land), also evaluated on every real LALR(1) table. Theorem ll_terminates_bound (Props/C19c): for LL tables passing tablesSoundB and the verified certificate checker noLeftRecB (a nullable-closed set and weights w[lhs] >= 2 + weight of the nullable prefix and first non-nullable symbol of every right-hand side — exists iff there is no left recursion, also through nullable prefixes) the parser model terminates within llFuelBound T n = M*W*(n+1)+M+2 loop iterations on EVERY input of n tokens (potential argument); the checker is evaluated on every real LL table; exTLeftRec_not_terminates shows the hypothesis is needed; par_parsers_terminate (Props/C19d) evaluates it in the kernel on parol's own two PAR parser tables. Theorem lr_terminates_bound (Props/C19e): for every LR table accepted by the verified checker lrNoReduceLoopB (summaries of all reduce-only computations per (lookahead, state below, top state), verified against one unfolding of the parser step) the LR parser model terminates within (|toks|+1)(C^2+3C+1) iterations on every input; the checker is evaluated on every real LALR(1) table; f24_never_terminates / hlr_never_terminates prove non-termination for two real parol tables the checker rejects (finding F24). PARTIAL: that parol only generates tables passing the checker is false (F24) and recovery is not a theorem; they are explored — both real parsers on garbled inputs with recovery on and off under catch_unwind (no panic, no internal/data/lexer error), and a per-process watchdog on cyclic LALR(1) grammars.",
    "design_ref": "DESIGN.md §6 C19",
    "note": "Proofs for LL and LR index/stack safety and LL and LR termination under checked table hypotheses; recovery and real time are explored only. Known finding F24 (LR parser does not terminate on cyclic grammars accepted with resolved conflicts) is reproduced by the watchdog and reported as KNOWN-FINDING. Trusted: Lean kernel; faithfulness of the model as observed; harness, watchdog limits (12 s CPU, 3 GB per process).",
    "technique": "Lean 4 proof (LL and LR index safety, LL and LR termination with explicit bounds under checked table hypotheses) over hand-written model + differential correspondence check on garbled inputs + watchdog exploration",
}


def run(ctx):
    return common.standard_flow(ctx, SPEC)


def replay(ctx, payload):
    case = payload.get("case")
    common.build_harness()
    rc, reps = run_limited([case], 300)
    print(f"case: {case}\nstatus: {rc}\nreply: {reps}")
    return 0 if (rc == 0 and reps and not reps[0].startswith(BAD)) else 1
